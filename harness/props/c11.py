"""C11 -- Deque is a persistent collections.deque.

Monitors (implementation only, no Coq):
  * differential histories: the real diskcache.Deque against collections.deque, compared after every call
    (result incl. type of returned elements, exception class, list(d) incl. element types);
  * handle events (reopen / copy / pickle) inside the histories: the contents persist;
  * producers/consumers under the deterministic scheduler: pure accounting of appended/popped/remaining items.
Correspondence (model vs implementation) is `correspondence()`, filled in by the Coq side; it consumes the history
dicts built by `run_history` (format documented there).
"""
import collections
import operator
import os
import pickle
import shutil
import sys
import tempfile
import threading

import fw
import sched
from instr import core, diskcache

ID = 'C11'
COQ_PROP = 'C11'
LEVEL = 'proof'
TRANSLATE = ['persistent', 'sql', 'disk', 'fanout', 'django']
TRUSTED = [
    'collections.deque (CPython) is the oracle of the differential monitor: results, exception classes and contents of Deque are compared with it after every call',
    'the abstract queue cache of model/QCache.v stands for Cache.push/pull/peek/get/set/del/iterkeys on integer queue keys (what C10/C03 establish for Cache with eviction_policy none and no expiry); tied to the implementation by comparing results, contents AND the integer queue keys after every call of every generated history',
    'tools/emit_persistent.py templates: every Deque/Index method body is matched against a source template, the holes (guards, delegated calls with side/default/retry, exception translations, constructor settings, __getstate__, _make_compare) are compiled to Gen_Persistent.v and pinned by proofs/PersistentBridge.v',
    'the value encoding of the correspondence (Python values -> integers, equal values equal ids, order-preserving within numbers/str/bytes); comparisons of incomparable elements (TypeError on both sides) are not sent to the model',
    'value identity is Python == plus type() (recursively through tuples); the monitor does not look inside the stored bytes',
    'contention: a raw sqlite3 connection executing BEGIN IMMEDIATE on the deque\'s cache.db stands for another client holding the write lock; it is '
    'released (and re-taken) from a sched.Tracer hook on the BEGIN statements of the calling thread, the handle under test has SQLite timeout 0 so '
    'that a busy BEGIN fails at once (Contention)',
]
ASSUMPTIONS = [
    'the maxlen setter is given a non-negative integer (d.maxlen = None raises TypeError after storing None and leaves the handle unusable for append; outside the compared vocabulary, reported separately)',
    'fewer than 5*10^14 pushes per side (queue key range)',
    'no other writer stores into the deque directory',
    'reopen uses the maxlen the handle had (maxlen is kept in the object and its pickle, not on disk)',
    'values are compared with Python ==; iterators are consumed immediately',
    'a constructor whose iterable raises: the reference for the directory\'s contents is collections.deque(maxlen=m).extend(iterable), i.e. the items '
    'consumed before the exception (Deque(iterable, directory) appends the items of its iterable to the deque stored in the directory)',
    'contended histories contain no copy/pickle events (they build a handle with the default 60 s SQLite timeout, which would wait inside SQLite '
    'for a lock that the same thread releases) and handle events are not contended (Cache.__init__ retries its settings statements by sleeping)',
    'handle races: the client that creates a handle (reopen / copy / unpickle) does not write through it until the other client is done; the other '
    'client\'s calls run as whole calls between two statements of the creation (a copy / unpickled handle has the default 60 s SQLite timeout, so it is '
    'never made to wait for a lock held by a parked thread); the virtual clock is frozen (Cache.__init__ retries its settings statements by sleeping)',
    'blocks: all-or-nothing of `with d.transact():` is property C06 / the documented use of Deque.transact; here it fixes the reference: '
    'collections.deque is left untouched by a block that raised or whose process died; a call that raises inside a block (IndexError of a pop on an '
    'empty deque) is caught by the program inside the block, which goes on; blocks are not nested and hold no reopen / copy / pickle events',
    'concurrent clause: each Deque call is one atomic step (one write transaction of the underlying Cache, C05/C06); C11_exactly_once is stated over all interleavings of atomic append/popleft (appendleft/pop) calls with maxlen None; on every scheduled run the calls are linearised by their COMMITs and replayed through the model',
]

Deque = diskcache.Deque

VALUES = [1, 1.0, True, 0, 2, 3, 2.5, 'a', 'b', b'x', (1, 2), (1, 'a'), None]
# 'r\r\nq\rz...': text with carriage returns, kept in a file by the 'filebacked' kind (text files are opened with newline='')
LONG_VALUES = ['a' * 40, b'y' * 40, tuple(range(12)), 'r\r\nq\rz' * 8]
KINDS = ['plain', 'filebacked', 'fanout', 'django']
STREAMS = ['valid', 'malformed']
CMP_OPS = ['eq', 'ne', 'lt', 'gt', 'le', 'ge']
HANDLE_EVENTS = ('reopen', 'copy', 'pickle')
MUTATING = {'append', 'appendleft', 'extend', 'extendleft', 'iadd', 'pop', 'popleft', 'setitem', 'delitem', 'rotate',
            'reverse', 'remove', 'clear', 'set_maxlen', 'extend_failing', 'extendleft_failing', 'iadd_failing', 'block', 'rotate_idiom'}
ADDING = {'append', 'appendleft', 'extend', 'extendleft', 'iadd'}
INDEXED = {'getitem', 'setitem', 'delitem'}
FILE_MIN = 8            # disk_min_file_size of the 'filebacked' kind
# values at and above the DEFAULT file threshold (32 KiB): file-backed in a plain Deque and in FanoutCache.deque / DjangoCache.deque
BIG_VALUES = ['L' * 32768, 'm' * 40000, b'N' * 33000, ('big', 'o' * 33000), 'c\r\nd\re' * 7000]
# kinds 'fanout+<policy>' / 'django+<policy>': the parent FanoutCache / DjangoCache is CONSTRUCTED with that eviction policy and this
# size limit (two shards; one shard's share is a little above the volume of an empty cache)
POLICIES = ['least-recently-stored', 'least-recently-used', 'least-frequently-used', 'none']
SMALL_PARENT_LIMIT = 2 * (32768 + 8192)
FANOUT_NAME = 'q/x'
DJANGO_NAME = 'q'

# `d.maxlen = None` is not generated: the setter stores None and then raises TypeError (len(cache) > None) and every later
# append raises too.  collections.deque has no maxlen setter at all and the Deque.maxlen getter spells the constructor's
# None as float('inf'), so the property text does not fix what assigning None means.  The executor still understands
# set_maxlen [None] literally (hand-made replays); set the flag to generate it.
SET_MAXLEN_NONE = False


# ---------------------------------------------------------------------------
# values


def same_typed(a, b):
    """Equal as values AND as types (recursively through tuples/lists): 1, 1.0 and True are three values."""
    if type(a) is not type(b):
        return False
    if isinstance(a, (tuple, list)):
        return len(a) == len(b) and all(same_typed(x, y) for x, y in zip(a, b))
    return a == b


def same_typed_list(xs, ys):
    return len(xs) == len(ys) and all(same_typed(x, y) for x, y in zip(xs, ys))


def loose_equal_list(xs, ys):
    try:
        return len(xs) == len(ys) and all(x == y for x, y in zip(xs, ys))
    except Exception:
        return False


def goes_to_file(v):
    """Does Disk.store put this value into a file when disk_min_file_size == FILE_MIN?"""
    t = type(v)
    if t is int or t is float:
        return False
    if t is str or t is bytes:
        return len(v) >= FILE_MIN
    return len(pickle.dumps(v, protocol=pickle.HIGHEST_PROTOCOL)) >= FILE_MIN


EVAL_ENV = {'__builtins__': {}, 'True': True, 'False': False, 'None': None, 'inf': float('inf')}


def unrepr(s):
    return eval(s, dict(EVAL_ENV))


# ---------------------------------------------------------------------------
# handles: one deque under test and the way to obtain a fresh handle on the same storage


def _django_cache_class():
    from django.conf import settings
    if not settings.configured:
        settings.configure()
    from diskcache.djangocache import DjangoCache
    return DjangoCache


class Handle:
    def __init__(self, kind, directory, maxlen, init=(), raw_init=False):
        self.kind = kind
        self.dir = directory
        self.maxlen = maxlen        # None | int: what the reference deque has
        self.closers = []
        try:
            # raw_init: the iterable is handed to the constructor as it is (a generator that may raise part-way)
            self.d = self._open(init if raw_init else list(init))
        except BaseException:
            self.close()
            raise

    def _open(self, init):
        kind, m = self.kind, self.maxlen
        if kind == 'plain':
            d = Deque(init, directory=self.dir, maxlen=m)
            self.closers.append(d.cache.close)
            return d
        if kind in ('filebacked', 'contended'):
            # 'contended': the handle of a client that never waits inside SQLite (timeout 0), so that a busy write lock is
            # seen at once; the Deque methods themselves must wait (retry) -- see Contention
            kw = {'timeout': 0} if kind == 'contended' else {}
            c = diskcache.Cache(self.dir, disk_min_file_size=FILE_MIN, eviction_policy='none', **kw)
            self.closers.append(c.close)
            return Deque.fromcache(c, init, maxlen=m)
        # FanoutCache.deque / DjangoCache.deque take no iterable: the initial items are extended right after creation,
        # which is what Deque.__init__ / fromcache do themselves (self._extend(iterable)).
        base, _, policy = kind.partition('+')
        opts = {'eviction_policy': policy, 'size_limit': SMALL_PARENT_LIMIT} if policy else {}
        if base == 'fanout':
            parent = diskcache.FanoutCache(self.dir, shards=2, **opts)
            d = parent.deque(FANOUT_NAME, maxlen=m)
        elif base == 'django':
            parent = _django_cache_class()(self.dir, dict({'SHARDS': 2}, **({'OPTIONS': opts} if opts else {})))
            d = parent.deque(DJANGO_NAME, maxlen=m)
        else:
            raise ValueError(kind)
        # FanoutCache.close() closes the shards and forgets its deques but does not close the deque's own Cache
        self.closers.append(d.cache.close)
        self.closers.append(parent.close)
        if not isinstance(init, list) or init:
            d.extend(init)
        return d

    def _swap(self, make):
        old, self.closers = self.closers, []
        try:
            self.d = make()
        finally:
            for c in old:
                try:
                    c()
                except Exception:
                    pass

    def reopen(self):
        """New handle on the same directory with the SAME maxlen.  plain: type(d)(directory=..., maxlen=...);
        filebacked: fromcache on a new Cache with the same settings; fanout/django: a fresh parent object (the parent
        caches its deques per name) and .deque(name, maxlen) again."""
        if self.kind == 'plain':
            def make():
                d = type(self.d)(directory=self.d.directory, maxlen=self.maxlen)
                self.closers.append(d.cache.close)
                return d
            self._swap(make)
        else:
            self._swap(lambda: self._open([]))

    def copy(self):
        """plain: d.copy().  fanout/django: d.copy() on the Deque object itself works (it yields a plain Deque on the
        sub-directory; the parent uses the default Disk class, and Cache settings live in the Settings table).
        filebacked: copy() would build Cache(directory, eviction_policy='none') without the explicit settings of the
        fromcache handle, so the equivalent Deque.fromcache on a new Cache of the same directory is used instead."""
        if self.kind in ('filebacked', 'contended'):
            self._swap(lambda: self._open([]))
            return self.d.maxlen
        old = self.d

        def make():
            d = old.copy()
            self.closers.append(d.cache.close)
            return d
        self._swap(make)
        return self.d.maxlen

    def pickle(self):
        """d = pickle.loads(pickle.dumps(d)) on the Deque object itself, for every kind: the state is
        (directory, maxlen) and __setstate__ runs Deque.__init__, i.e. the result is a plain Deque on the (sub-)directory.
        (For fromcache kinds the persisted Settings table keeps disk_min_file_size etc.)"""
        old = self.d

        def make():
            d = pickle.loads(pickle.dumps(old))
            self.closers.append(d.cache.close)
            return d
        self._swap(make)
        return self.d.maxlen

    def close(self):
        old, self.closers = self.closers, []
        for c in old:
            try:
                c()
            except Exception:
                pass


class Boom(Exception):
    """An exception of the caller's own, raised by a source iterable part-way."""


class BoomBase(BaseException):
    """An exception that is not an Exception (KeyboardInterrupt, SystemExit, GeneratorExit are of this kind)."""


FAIL_EXC = {'Boom': Boom, 'ZeroDivisionError': ZeroDivisionError, 'KeyError': KeyError}
FAILING = {'extend_failing': 'extend', 'extendleft_failing': 'extendleft', 'iadd_failing': 'iadd'}


def failing(values, k, exc):
    """An iterable that yields values[:k] and then raises exc (k == len(values): after the last item)."""
    for i, v in enumerate(values):
        if i == k:
            raise FAIL_EXC[exc]('source iterable failed after %d item(s)' % k)
        yield v
    if k >= len(values):
        raise FAIL_EXC[exc]('source iterable failed after %d item(s)' % len(values))


class Contention:
    """Another client of the deque directory that holds the write lock while a call of the handle under test runs.

    The handle under test is opened with SQLite timeout 0 (kind 'contended'), so a BEGIN IMMEDIATE that meets the lock fails
    at once; every such attempt is an event of sched.Tracer, and the hook releases the lock just before the (k+1)-th
    attempt of the call (k attempts fail).  `again` = (gap, k2): the lock is taken once more `gap` BEGINs later (between two
    transactions of a multi-transaction call) and released after k2 further failed attempts.  Everything happens in one
    thread, deterministically.  Calls that need no write transaction run with the lock held throughout."""

    BUDGET = 3000

    def __init__(self):
        self.tracer = sched.Tracer(before=self._before)
        self.con = None
        self.held = False
        self.n = 0
        self.release_at = None
        self.takes = {}
        self.failed = 0
        self.total_failed = 0
        self.calls = 0
        self.calls_that_waited = 0
        self.gave_up = False

    def __enter__(self):
        self.tracer.__enter__()
        return self

    def __exit__(self, *a):
        self.stop()
        self.tracer.__exit__(*a)

    def attach(self, directory):
        import os
        import sqlite3
        self.con = sqlite3.connect(os.path.join(directory, 'cache.db'), timeout=0, isolation_level=None)

    def stop(self):
        self._release()
        if self.con is not None:
            self.con.close()
            self.con = None

    def _take(self):
        if not self.held:
            try:
                self.con.execute('BEGIN IMMEDIATE')
            except Exception:
                return      # the handle under test is inside a transaction of its own right now: this client has to wait
            self.held = True

    def _release(self):
        if self.held:
            self.con.execute('ROLLBACK')
            self.held = False

    def _before(self, ev):
        if ev.kind != 'sql' or ev.what != 'BEGIN':
            return
        self.n += 1
        if self.held and self.release_at is not None and self.n >= self.release_at:
            self._release()
        elif not self.held and self.n in self.takes:
            self._take()
            self.release_at = self.n + self.takes.pop(self.n)
        if self.held:
            self.failed += 1
            if self.failed > self.BUDGET:
                self.gave_up = True
                self._release()

    def call(self, k, again, fn):
        """Run fn() with the lock held from the start until its (k+1)-th BEGIN."""
        self.n, self.failed, self.gave_up = 0, 0, False
        self.release_at = k + 1
        self.takes = {k + 1 + again[0]: again[1]} if again else {}
        self._take()
        self.tracer.enable(True)
        try:
            return fn()
        finally:
            self.tracer.enable(False)
            self._release()
            self.calls += 1
            self.total_failed += self.failed
            self.calls_that_waited += 1 if self.failed else 0


def attr_maxlen(m):
    """What Deque.maxlen reports for the reference maxlen m."""
    return float('inf') if m is None else m


# ---------------------------------------------------------------------------
# one operation on the reference and on the implementation


class Ref:
    def __init__(self, init, maxlen):
        self.q = collections.deque(init, maxlen=maxlen)


def _raise(e):
    return ('raise', type(e).__name__)


def apply_ref(r, op, args):
    q = r.q
    try:
        if op == 'append':
            q.append(args[0])
        elif op == 'appendleft':
            q.appendleft(args[0])
        elif op == 'extend':
            q.extend(list(args[0]))
        elif op == 'extendleft':
            q.extendleft(list(args[0]))
        elif op == 'iadd':
            q += list(args[0])
        elif op == 'extend_failing':
            q.extend(failing(*args))
        elif op == 'extendleft_failing':
            q.extendleft(failing(*args))
        elif op == 'iadd_failing':
            q += failing(*args)
        elif op == 'pop':
            return ('val', q.pop())
        elif op == 'popleft':
            return ('val', q.popleft())
        elif op == 'peek':
            return ('val', q[-1])
        elif op == 'peekleft':
            return ('val', q[0])
        elif op == 'getitem':
            return ('val', q[args[0]])
        elif op == 'setitem':
            q[args[0]] = args[1]
        elif op == 'delitem':
            del q[args[0]]
        elif op == 'rotate':
            q.rotate(*args)
        elif op == 'reverse':
            q.reverse()
        elif op == 'remove':
            q.remove(args[0])
        elif op == 'count':
            return ('int', q.count(args[0]))
        elif op == 'compare':
            return _tag_cmp(getattr(operator, args[0])(q, collections.deque(args[1])))
        elif op == 'iter':
            return ('list', list(q))
        elif op == 'reversed':
            return ('list', list(reversed(q)))
        elif op == 'len':
            return ('int', len(q))
        elif op == 'clear':
            q.clear()
        elif op == 'set_maxlen':
            r.q = collections.deque(q, maxlen=args[0])
        elif op == 'contains':
            return ('bool', args[0] in q)
        elif op == 'rotate_idiom':
            # the documented atomic rotation: take an item from one end and put it at the other
            if args[0] > 0:
                q.appendleft(q.pop())
            else:
                q.append(q.popleft())
        elif op == 'block':
            # `with d.transact(): <inner calls>; [raise]`: the calls see the block's own effects; a block that does not commit
            # (exception, or the process dies before COMMIT) leaves the deque as it was
            end, inner = args
            saved = collections.deque(q, maxlen=q.maxlen)
            out = [apply_ref(r, iop, iargs) for iop, iargs in inner]
            if end != 'commit':
                r.q = saved
            return ('none',) if end == 'die' else ('list', out)
        elif op in HANDLE_EVENTS:
            pass
        else:
            raise AssertionError('unknown op ' + op)
    except AssertionError:
        raise
    except Exception as e:
        return _raise(e)
    return ('none',)


def _tag_cmp(x):
    return ('bool', x) if type(x) is bool else ('val', x)


def _tag_int(x):
    return ('int', x) if type(x) is int else ('val', x)


def die_block(h, inner):
    """`with d.transact(): <inner calls>` in another process (own handle of the same kind on the directory) that dies inside the
    block, before its COMMIT.  The handle of this process is closed before and obtained again afterwards."""
    h.close()
    sys.stdout.flush()
    sys.stderr.flush()
    pid = os.fork()
    if pid == 0:
        try:
            h2 = Handle(h.kind, h.dir, h.maxlen, [])
            with h2.d.transact():
                for iop, iargs in inner:
                    apply_impl(h2, iop, iargs)
                os._exit(0)
        finally:
            os._exit(1)
    os.waitpid(pid, 0)
    h.d = h._open([])


def apply_impl(h, op, args):
    """Returns (result, persist_note).  persist_note is None or a string describing a wrong maxlen after a handle event."""
    d = h.d
    note = None
    try:
        if op == 'append':
            d.append(args[0])
        elif op == 'appendleft':
            d.appendleft(args[0])
        elif op == 'extend':
            d.extend(list(args[0]))
        elif op == 'extendleft':
            d.extendleft(list(args[0]))
        elif op == 'iadd':
            d += list(args[0])
            if d is not h.d:
                return ('val', d), None
        elif op == 'extend_failing':
            d.extend(failing(*args))
        elif op == 'extendleft_failing':
            d.extendleft(failing(*args))
        elif op == 'iadd_failing':
            d += failing(*args)
        elif op == 'pop':
            return ('val', d.pop()), None
        elif op == 'popleft':
            return ('val', d.popleft()), None
        elif op == 'peek':
            return ('val', d.peek()), None
        elif op == 'peekleft':
            return ('val', d.peekleft()), None
        elif op == 'getitem':
            return ('val', d[args[0]]), None
        elif op == 'setitem':
            d[args[0]] = args[1]
        elif op == 'delitem':
            del d[args[0]]
        elif op == 'rotate':
            d.rotate(*args)         # args == [] is the default call rotate(); recorded as rotate(1)
        elif op == 'reverse':
            d.reverse()
        elif op == 'remove':
            d.remove(args[0])
        elif op == 'count':
            return _tag_int(d.count(args[0])), None
        elif op == 'compare':
            return _tag_cmp(getattr(operator, args[0])(d, collections.deque(args[1]))), None
        elif op == 'iter':
            return ('list', list(d)), None
        elif op == 'reversed':
            return ('list', list(reversed(d))), None
        elif op == 'len':
            return _tag_int(len(d)), None
        elif op == 'clear':
            d.clear()
        elif op == 'set_maxlen':
            d.maxlen = args[0]
            h.maxlen = args[0]
        elif op == 'contains':
            return ('bool', args[0] in d), None
        elif op == 'rotate_idiom':
            if args[0] > 0:
                d.appendleft(d.pop())
            else:
                d.append(d.popleft())
        elif op == 'block':
            end, inner = args
            if end == 'die':
                die_block(h, inner)
                return ('none',), None
            out = []
            try:
                with d.transact():
                    for iop, iargs in inner:
                        out.append(apply_impl(h, iop, iargs)[0])
                    if end == 'abort':
                        raise Boom('the block is left by an exception')
                    if end == 'abort_base':
                        raise BoomBase('the block is left by an exception that is not an Exception')
            except (Boom, BoomBase):
                pass
            return ('list', out), None
        elif op == 'reopen':
            h.reopen()
            if h.d.maxlen != attr_maxlen(h.maxlen):
                note = 'maxlen %r after reopen, expected %r' % (h.d.maxlen, attr_maxlen(h.maxlen))
        elif op == 'copy':
            got = h.copy()
            if got != attr_maxlen(h.maxlen):
                note = 'maxlen %r after copy, expected %r' % (got, attr_maxlen(h.maxlen))
        elif op == 'pickle':
            got = h.pickle()
            if got != attr_maxlen(h.maxlen):
                note = 'maxlen %r after pickle, expected %r' % (got, attr_maxlen(h.maxlen))
        else:
            raise AssertionError('unknown op ' + op)
    except AssertionError:
        raise
    except Exception as e:
        return _raise(e), None
    return ('none',), note


def results_agree(exp, obs):
    """(agree, only_the_type_differs)"""
    if exp[0] != obs[0]:
        return False, False
    tag = exp[0]
    if tag == 'none':
        return True, False
    if tag == 'val':
        if same_typed(exp[1], obs[1]):
            return True, False
        try:
            return False, bool(exp[1] == obs[1])
        except Exception:
            return False, False
    if tag == 'list':
        if same_typed_list(exp[1], obs[1]):
            return True, False
        return False, loose_equal_list(exp[1], obs[1])
    return exp[1] == obs[1] and type(exp[1]) is type(obs[1]), False


def show_res(r):
    return crepr(tuple(r))


# ---------------------------------------------------------------------------
# executing a history


def norm_args(op, args):
    """Arguments as recorded in the events: rotate() is recorded as rotate(1)."""
    if op == 'rotate' and not args:
        return [1]
    return list(args)


def run_history(spec, ops, mkdir, stats=None, res=None):
    """Execute `ops` ([(op, args)]) on a fresh deque of spec = {id, kind, stream, maxlen, init} and on collections.deque.

    Returns (history, divergence).  history is
      {'id', 'kind', 'stream', 'maxlen', 'init', 'events': [{'op', 'args', 'res', 'contents', 'keys'}]}
    with res one of ('none',) | ('val', v) | ('int', n) | ('bool', b) | ('list', [..]) | ('raise', 'IndexError') as produced by
    the IMPLEMENTATION, contents = list(d) and keys = list(d.cache.iterkeys()) after the call.
    divergence is None or {'index', 'sig', 'desc', 'expected', 'observed'}; execution stops at the first divergence (the
    events recorded so far, including the diverging one, stay in the history).
    """
    kind, maxlen, init = spec['kind'], spec['maxlen'], list(spec['init'])
    hist = {'id': spec.get('id', 0), 'kind': kind, 'stream': spec.get('stream', 'valid'), 'maxlen': maxlen,
            'init': list(init), 'events': []}
    directory = mkdir()
    # init_fail = [k, exception name]: the initial iterable raises after k items.  The constructor appends the items of its
    # iterable to the deque of that directory, so what a handle opened afterwards must hold is what collections.deque holds
    # after extend() with the same iterable: the k items consumed (the last maxlen of them).
    init_fail = spec.get('init_fail')
    r = Ref(init if init_fail is None else init[:init_fail[0]], maxlen)
    h = None
    div = None
    cont = Contention() if spec.get('contend') else None
    try:
        if cont is not None:
            cont.__enter__()
        if init_fail is not None:
            try:
                Handle(kind, directory, maxlen, failing(init, init_fail[0], init_fail[1]), raw_init=True).close()
                obs0 = ('none',)
            except Exception as e:
                obs0 = _raise(e)
            if obs0 != ('raise', init_fail[1]):
                div = {'index': -1, 'sig': 'deque_result_init_failing', 'desc': 'construction from an iterable that raises %s after %d item(s)'
                       % (init_fail[1], init_fail[0]), 'expected': show_res(('raise', init_fail[1])), 'observed': show_res(obs0)}
            h = Handle(kind, directory, maxlen, [])
        else:
            h = Handle(kind, directory, maxlen, init)
        if cont is not None:
            cont.attach(h.d.directory)
        first = list(h.d)
        if div is None and not same_typed_list(first, list(r.q)):
            div = {'index': -1, 'sig': 'deque_contents_init' + ('_failing' if init_fail is not None else ''),
                   'desc': 'contents after construction from the initial iterable' +
                           ('' if init_fail is None else ' that raised %s after %d item(s)' % (init_fail[1], init_fail[0])),
                   'expected': crepr(list(r.q)), 'observed': crepr(first)}
        if div is None and kind == 'plain' and h.d.cache.eviction_policy != 'none':
            div = {'index': -1, 'sig': 'deque_contents_init', 'desc': 'a plain Deque must use eviction_policy none',
                   'expected': "'none'", 'observed': repr(h.d.cache.eviction_policy)}
        if stats is not None and kind == 'filebacked':
            stats['filebacked_values_stored'] += sum(1 for v in list(r.q) if goes_to_file(v))
        for i, (op, args) in enumerate(ops):
            if div is not None:
                break
            len_before = len(r.q)
            ref_maxlen = r.q.maxlen
            exp = apply_ref(r, op, args)
            if cont is not None and op not in HANDLE_EVENTS:
                k, again = spec['contend'][i % len(spec['contend'])]
                obs, note = cont.call(k, again, lambda: apply_impl(h, op, args))
                if cont.gave_up:
                    div = {'index': i, 'sig': 'deque_never_returns_' + op, 'desc': '%s was still retrying after %d failed BEGIN attempts '
                           'although the lock was to be released after %d' % (op, cont.BUDGET, k), 'expected': show_res(exp), 'observed': 'spinning'}
            else:
                obs, note = apply_impl(h, op, args)
            try:
                contents = list(h.d)
                cerr = None
            except Exception as e:      # the monitor itself must not die on a broken implementation
                contents, cerr = [], e
            try:
                keys = list(h.d.cache.iterkeys())
            except Exception:
                keys = []
            hist['events'].append({'op': op, 'args': norm_args(op, args), 'res': obs, 'contents': contents, 'keys': keys})
            want = list(r.q)
            if stats is not None:
                account(stats, spec, op, args, exp, len_before, ref_maxlen)
            if res is not None:
                res.count(['seq', kind, spec.get('stream'), repr(maxlen), op, repr(norm_args(op, args)), len_before],
                          nontrivial=(len_before > 0 or op in MUTATING))
            if div is not None:
                break
            agree, type_only = results_agree(exp, obs)
            if op in HANDLE_EVENTS:
                if not agree or note is not None:
                    div = {'index': i, 'sig': 'deque_persist_' + op, 'desc': note or 'handle event %s failed' % op,
                           'expected': show_res(exp) if note is None else repr(attr_maxlen(h.maxlen)),
                           'observed': show_res(obs) if note is None else note}
                elif cerr is not None or not same_typed_list(contents, want):
                    div = {'index': i, 'sig': 'deque_persist_' + op,
                           'desc': 'contents after %s differ from the contents before' % op,
                           'expected': crepr(want), 'observed': crepr(contents) if cerr is None else 'raise ' + repr(cerr)}
                continue
            if not agree:
                div = {'index': i, 'sig': ('deque_type_' if type_only else 'deque_result_') + op,
                       'desc': ('%s returned a value of another type than was stored' if type_only else
                                '%s: result/exception differs from collections.deque') % op,
                       'expected': show_res(exp), 'observed': show_res(obs)}
            elif cerr is not None:
                div = {'index': i, 'sig': 'deque_contents_' + op, 'desc': 'list(d) raised after %s' % op,
                       'expected': crepr(want), 'observed': 'raise ' + repr(cerr)}
            elif not same_typed_list(contents, want):
                type_only = loose_equal_list(contents, want)
                div = {'index': i, 'sig': ('deque_type_' if type_only else 'deque_contents_') + op,
                       'desc': ('after %s an element has another type than was stored' if type_only else
                                'contents after %s differ from collections.deque') % op,
                       'expected': crepr(want), 'observed': crepr(contents)}
    finally:
        if cont is not None:
            cont.__exit__(None, None, None)
            if stats is not None:
                stats['contended_calls'] = stats.get('contended_calls', 0) + cont.calls
                stats['contended_calls_that_waited'] = stats.get('contended_calls_that_waited', 0) + cont.calls_that_waited
                stats['contended_failed_begin_attempts'] = stats.get('contended_failed_begin_attempts', 0) + cont.total_failed
        if h is not None:
            h.close()
        shutil.rmtree(directory, ignore_errors=True)
    if div is not None and cont is not None and not div['sig'].startswith('deque_contended_'):
        # the same comparison with collections.deque, made while another client held the write lock
        div['sig'] = 'deque_contended_' + div['sig'][len('deque_'):]
        div['desc'] += ' (another client held the write lock of the deque when the call started and released it after %r failed attempt(s))' % (
            spec['contend'][div['index'] % len(spec['contend'])][0] if div['index'] >= 0 else 0,)
    return hist, div


def new_stats():
    return {'op_histogram': {}, 'ops': 0, 'errors': 0, 'histories': 0, 'histories_crossing_maxlen': 0,
            'histories_with_reopen': 0, 'histories_with_pickle': 0, 'histories_with_copy': 0,
            'histories_by_kind': {}, 'histories_by_stream': {}, 'filebacked_values_stored': 0,
            'index_boundary_hits': {'-len-1': 0, '-len': 0, '-1': 0, '0': 0, 'len-1': 0, 'len': 0},
            'crossed': set(), 'suppressed_repeats': {}}


def account(stats, spec, op, args, exp, len_before, ref_maxlen):
    if op in FAILING:
        stats['failing_iterables'] = stats.get('failing_iterables', 0) + 1
        if ref_maxlen is not None and len_before + args[1] > ref_maxlen:
            stats['failing_iterables_displacing'] = stats.get('failing_iterables_displacing', 0) + 1
        op, args = FAILING[op], [args[0][:args[1]]]
    stats['ops'] += 1
    stats['op_histogram'][op] = stats['op_histogram'].get(op, 0) + 1
    if exp[0] == 'raise':
        stats['errors'] += 1
    if op in ADDING and ref_maxlen is not None:
        added = 1 if op in ('append', 'appendleft') else len(args[0])
        if added > 0 and len_before + added > ref_maxlen:
            stats['crossed'].add(spec.get('id'))
    if op in INDEXED and type(args[0]) is int:
        i, n = args[0], len_before
        hits = stats['index_boundary_hits']
        for name, b in (('-len-1', -n - 1), ('-len', -n), ('-1', -1), ('0', 0), ('len-1', n - 1), ('len', n)):
            if i == b:
                hits[name] += 1
    if spec['kind'] == 'filebacked' and exp[0] != 'raise':
        if op in ('append', 'appendleft'):
            stats['filebacked_values_stored'] += 1 if goes_to_file(args[0]) else 0
        elif op in ('extend', 'extendleft', 'iadd'):
            stats['filebacked_values_stored'] += sum(1 for v in args[0] if goes_to_file(v))
        elif op == 'setitem':
            stats['filebacked_values_stored'] += 1 if goes_to_file(args[1]) else 0


# ---------------------------------------------------------------------------
# generators


def pick_maxlen(rng):
    x = rng.random()
    if x < 0.33:
        return None
    if x < 0.63:
        return 3
    if x < 0.78:
        return 1
    if x < 0.86:
        return 0
    if x < 0.93:
        return 2
    return 5


def pick_value(rng, kind):
    if kind in ('filebacked', 'contended') and rng.random() < 0.3:
        return rng.choice(LONG_VALUES)
    return rng.choice(VALUES)


def pick_values(rng, kind, lo=0, hi=4):
    return [pick_value(rng, kind) for _ in range(rng.randint(lo, hi))]


def gen_index(rng, n, valid):
    bounds = [-n - 1, -n, -1, 0, n - 1, n]
    if valid and n > 0:
        x = rng.random()
        if x < 0.4:
            return rng.choice([-n, -1, 0, n - 1])
        if x < 0.88:
            return rng.randrange(-n, n)
    if rng.random() < 0.5:
        return rng.choice(bounds)
    return rng.randint(-n - 2, n + 2)


def gen_out_of_range(rng, n):
    return rng.choice([-n - 1, n, -n - 2, n + 1, n + 2])


def gen_that(rng, kind, cur):
    cur = list(cur)
    x = rng.random()
    if x < 0.2:
        return cur
    if x < 0.35 and cur:
        return cur[:-1]
    if x < 0.5:
        return cur + [pick_value(rng, kind)]
    if x < 0.8 and cur:
        i = rng.randrange(len(cur))
        v = cur[i]
        if type(v) in (int, float):
            nv = v + rng.choice([-1, 1])
        elif type(v) is str:
            nv = rng.choice(['a', 'b', 'c', ''])
        elif type(v) is tuple:
            nv = rng.choice([(1, 2), (1, 3), (0, 9), (1, 'a'), (1, 'b')])
        else:
            nv = pick_value(rng, kind)
        return cur[:i] + [nv] + cur[i + 1:]
    return pick_values(rng, kind, 0, 4)


VALID_WEIGHTS = [
    ('append', 10), ('appendleft', 8), ('extend', 5), ('extendleft', 4), ('iadd', 3), ('pop', 6), ('popleft', 6),
    ('peek', 3), ('peekleft', 3), ('getitem', 9), ('setitem', 7), ('delitem', 6), ('rotate', 7), ('reverse', 2),
    ('remove', 4), ('count', 3), ('compare', 5), ('iter', 2), ('reversed', 3), ('len', 2), ('clear', 1),
    ('set_maxlen', 2), ('contains', 3), ('reopen', 3), ('copy', 1), ('pickle', 2),
]
MALFORMED_WEIGHTS = [
    ('append', 6), ('appendleft', 5), ('extend', 3), ('extendleft', 2), ('iadd', 1), ('pop', 8), ('popleft', 8),
    ('peek', 5), ('peekleft', 5), ('getitem', 10), ('setitem', 8), ('delitem', 8), ('rotate', 8), ('reverse', 1),
    ('remove', 7), ('count', 2), ('compare', 4), ('iter', 1), ('reversed', 1), ('len', 1), ('clear', 2),
    ('set_maxlen', 2), ('contains', 2), ('reopen', 2), ('copy', 1), ('pickle', 1),
]


def weighted(rng, table):
    total = sum(w for _, w in table)
    x = rng.randrange(total)
    for name, w in table:
        if x < w:
            return name
        x -= w
    return table[-1][0]


def gen_op(rng, q, kind, stream):
    """One operation for the current reference contents q."""
    valid = stream == 'valid'
    n = len(q)
    op = weighted(rng, VALID_WEIGHTS if valid else MALFORMED_WEIGHTS)
    if valid:
        # keep the deque populated: pops/peeks/indexing of an empty deque become appends most of the time
        if n == 0 and op in ('pop', 'popleft', 'peek', 'peekleft', 'getitem', 'setitem', 'delitem', 'remove') \
                and rng.random() < 0.9:
            op = rng.choice(['append', 'appendleft', 'extend', 'extendleft'])
        if n <= 2 and op in ('pop', 'popleft', 'delitem', 'clear', 'remove') and rng.random() < 0.4:
            op = rng.choice(['append', 'appendleft', 'extend'])
    else:
        # drain the deque now and then so that pop/peek meet an empty deque
        if n > 0 and op in ('append', 'appendleft', 'extend') and rng.random() < 0.25:
            op = rng.choice(['clear', 'pop', 'popleft'])
    if op in ('append', 'appendleft'):
        return op, [pick_value(rng, kind)]
    if op in ('extend', 'extendleft', 'iadd'):
        return op, [pick_values(rng, kind, 0, 4)]
    if op in ('pop', 'popleft', 'peek', 'peekleft', 'reverse', 'iter', 'reversed', 'len', 'clear') or op in HANDLE_EVENTS:
        return op, []
    if op in ('getitem', 'delitem'):
        i = gen_index(rng, n, valid) if (valid or rng.random() < 0.45) else gen_out_of_range(rng, n)
        return op, [i]
    if op == 'setitem':
        i = gen_index(rng, n, valid) if (valid or rng.random() < 0.45) else gen_out_of_range(rng, n)
        return op, [i, pick_value(rng, kind)]
    if op == 'rotate':
        if not valid and rng.random() < 0.4:
            return op, [rng.choice(['x', 1.5, None])]
        x = rng.random()
        if x < 0.1:
            return op, []                  # rotate() -- default 1
        if x < 0.2:
            return op, [rng.choice([10 ** 6 + 3, -(10 ** 6) - 3])]
        if x < 0.3:
            return op, [rng.choice([-1, 1, -n, n, -n - 1, n + 1])]
        return op, [rng.randint(-2 * n - 2, 2 * n + 2)]
    if op in ('remove', 'count', 'contains'):
        present = n > 0 and (rng.random() < (0.9 if valid else 0.3) or op != 'remove' and rng.random() < 0.5)
        if present:
            return op, [rng.choice(list(q))]
        if op == 'remove' and not valid:
            absent = [v for v in VALUES + ['zz', 99] if v not in q]
            if absent:
                return op, [rng.choice(absent)]
        return op, [pick_value(rng, kind)]
    if op == 'compare':
        return op, [rng.choice(CMP_OPS), gen_that(rng, kind, q)]
    if op == 'set_maxlen':
        choices = [0, 1, 2, 3, 3, 5] + ([None] if SET_MAXLEN_NONE else [])
        return op, [rng.choice(choices)]
    raise AssertionError(op)


def gen_history(rng, hid, kind, stream):
    maxlen = pick_maxlen(rng)
    init = [] if rng.random() < 0.45 else pick_values(rng, kind, 1, 5)
    spec = {'id': hid, 'kind': kind, 'stream': stream, 'maxlen': maxlen, 'init': init}
    r = Ref(init, maxlen)
    ops = []
    for _ in range(rng.randint(10, 40)):
        op, args = gen_op(rng, r.q, kind, stream)
        ops.append((op, args))
        apply_ref(r, op, args)
    return spec, ops


# ---------------------------------------------------------------------------
# violations: shrinking and cases


def crepr(x):
    """repr, except that long runs of one character are written as a product (still evaluable by unrepr): 'L' * 32768"""
    s = repr(x)
    if len(s) < 400:
        return s
    if isinstance(x, (str, bytes)) and len(set(x)) == 1:
        return '%r * %d' % (x[:1], len(x))
    if type(x) is tuple:
        return '(' + ', '.join(crepr(y) for y in x) + (',)' if len(x) == 1 else ')')
    if type(x) is list:
        return '[' + ', '.join(crepr(y) for y in x) + ']'
    return s


def case_of(spec, ops, div):
    return {'check': 'deque_history', 'kind': spec['kind'], 'stream': spec.get('stream'), 'maxlen': spec['maxlen'],
            'init': [crepr(v) for v in spec['init']],
            'ops': [[op, [crepr(a) for a in args]] for op, args in ops],
            'failing_op': (ops[div['index']][0] if 0 <= div['index'] < len(ops) else 'init'),
            'init_fail': spec.get('init_fail'), 'contend': spec.get('contend'),
            'sig': div['sig'], 'expected': div['expected'], 'observed': div['observed']}


def diverges_at_end(spec, ops, sig, mkdir):
    """Does the history diverge exactly at its last op (or at construction, for ops == []) with signature sig?"""
    _, div = run_history(spec, ops, mkdir)
    if div is None or div['sig'] != sig:
        return None
    if div['index'] != len(ops) - 1:
        return None
    return div


def shrink(spec, ops, div, mkdir, budget=160):
    """Greedy: delete earlier ops (and initial items) while the divergence at the last op persists (fresh directories)."""
    ops = list(ops[:div['index'] + 1])
    spec = dict(spec)
    sig = div['sig']
    runs = 0
    if len(ops) > 1:
        # 1. all earlier ops at once
        runs += 1
        d2 = diverges_at_end(spec, ops[-1:], sig, mkdir)
        if d2 is not None:
            ops, div = ops[-1:], d2
    if len(ops) > 1:
        # 2. replace the prefix by its effect: a deque constructed from the contents (and maxlen) reached before the last op
        r = Ref(spec['init'] if not spec.get('init_fail') else spec['init'][:spec['init_fail'][0]], spec['maxlen'])
        for op, args in ops[:-1]:
            apply_ref(r, op, args)
        s2 = dict(spec)
        s2['init'], s2['maxlen'] = list(r.q), r.q.maxlen
        s2.pop('init_fail', None)
        runs += 1
        d2 = diverges_at_end(s2, ops[-1:], sig, mkdir)
        if d2 is not None:
            spec, ops, div = s2, ops[-1:], d2
    changed = True
    while changed and runs < budget:
        changed = False
        i = len(ops) - 2
        while i >= 0 and runs < budget:
            cand = ops[:i] + ops[i + 1:]
            runs += 1
            d2 = diverges_at_end(spec, cand, sig, mkdir)
            if d2 is not None:
                ops, div = cand, d2
                changed = True
            i -= 1
        j = len(spec['init']) - 1
        while j >= 0 and runs < budget:
            s2 = dict(spec)
            s2['init'] = spec['init'][:j] + spec['init'][j + 1:]
            runs += 1
            d2 = diverges_at_end(s2, ops, sig, mkdir)
            if d2 is not None:
                spec, div = s2, d2
                changed = True
            j -= 1
        if not changed and 2 < len(ops) <= 14:
            # single deletions are stuck (e.g. the length must stay the same): try pairs of earlier ops
            for a in range(len(ops) - 2):
                for b in range(a + 1, len(ops) - 1):
                    if runs >= budget or changed:
                        break
                    cand = ops[:a] + ops[a + 1:b] + ops[b + 1:]
                    runs += 1
                    d2 = diverges_at_end(spec, cand, sig, mkdir)
                    if d2 is not None:
                        ops, div = cand, d2
                        changed = True
    return spec, ops, div


def report_divergence(res, stats, spec, ops, div, mkdir):
    seen = stats['suppressed_repeats']
    if div['sig'] in seen:
        seen[div['sig']] += 1        # one shrunk witness per signature; repeats are only counted
        return
    seen[div['sig']] = 0
    if div['index'] >= 0:
        spec, ops, div = shrink(spec, ops, div, mkdir)
    else:
        ops = []
    res.violations.append(fw.Violation(div['sig'], 'Deque differs from collections.deque: ' + div['desc'],
                                       case_of(spec, ops, div)))


def sequential(ctx, res, nhist, stats, histories, first_id=0):
    mkdir = lambda: ctx.scratch('c11')        # noqa: E731
    for k in range(nhist):
        hid = first_id + k
        kind = KINDS[hid % len(KINDS)]
        stream = STREAMS[(hid // len(KINDS)) % 2]
        spec, ops = gen_history(ctx.rng, hid, kind, stream)
        hist, div = run_history(spec, ops, mkdir, stats=stats, res=res)
        histories.append(hist)
        stats['histories'] += 1
        stats['histories_by_kind'][kind] = stats['histories_by_kind'].get(kind, 0) + 1
        stats['histories_by_stream'][stream] = stats['histories_by_stream'].get(stream, 0) + 1
        evs = set(e['op'] for e in hist['events'])
        stats['histories_with_reopen'] += 'reopen' in evs
        stats['histories_with_pickle'] += 'pickle' in evs
        stats['histories_with_copy'] += 'copy' in evs
        if div is not None:
            report_divergence(res, stats, spec, ops, div, mkdir)
        if k < 3:
            res.sample({'history': hid, 'kind': kind, 'stream': stream, 'maxlen': repr(spec['maxlen']),
                        'init': [repr(v) for v in spec['init']],
                        'first_events': [[e['op'], [repr(a) for a in e['args']], repr(e['res']), repr(e['contents'])]
                                         for e in hist['events'][:6]]}, limit=3)


def gen_failing_history(rng, hid, kind):
    """A short history in which extend / extendleft / += (and, where the kind has one, the constructor) are given a source
    iterable that raises after k of its n items (k = 0..n), followed by reads, reopen events and ordinary calls."""
    maxlen = rng.choice([None, None, 0, 1, 2, 3, 5])
    init = pick_values(rng, kind, 0, 5)
    spec = {'id': hid, 'kind': kind, 'stream': 'failing', 'maxlen': maxlen, 'init': init}
    if kind in ('plain', 'filebacked') and rng.random() < 0.4:
        spec['init_fail'] = [rng.randint(0, len(init)), rng.choice(sorted(FAIL_EXC))]
        init = init[:spec['init_fail'][0]]
    r = Ref(init, maxlen)
    ops = []
    for _ in range(rng.randint(3, 10)):
        x = rng.random()
        if x < 0.5:
            vals = pick_values(rng, kind, 0, 5)
            ops.append((rng.choice(sorted(FAILING)), [vals, rng.randint(0, len(vals)), rng.choice(sorted(FAIL_EXC))]))
            if rng.random() < 0.5:
                ops.append((rng.choice(['reopen', 'reopen', 'pickle', 'copy']), []))
        elif x < 0.6:
            ops.append(('reopen', []))
        else:
            ops.append(gen_op(rng, r.q, kind, 'valid'))
    for op, args in ops:
        apply_ref(r, op, args)
    return spec, ops


def gen_contended_history(rng, hid):
    """A valid-stream history for a handle with SQLite timeout 0; spec['contend'] gives, per call (cyclically), the number of
    BEGIN attempts that fail before the other client lets the lock go, and optionally a second episode later in the call."""
    spec, ops = gen_history(rng, hid, 'contended', 'valid')
    # copy / pickle build a Deque with the default 60 s SQLite timeout: not a handle that can be contended in one thread
    ops = [(('reopen', []) if op in ('copy', 'pickle') else (op, args)) for op, args in ops]
    spec['stream'] = 'contended'
    spec['contend'] = [[rng.choice([1, 1, 2, 3]), (None if rng.random() < 0.6 else [rng.choice([1, 2]), rng.choice([1, 2])])]
                       for _ in range(7)]
    return spec, ops


def extra_histories(ctx, res, stats, nfailing, ncontended, first_id=200000):
    """Monitor-only histories (not sent to the Coq model): failing source iterables; calls made while another client holds
    the write lock."""
    mkdir = lambda: ctx.scratch('c11x')        # noqa: E731
    plan = [('failing', KINDS[k % len(KINDS)]) for k in range(nfailing)] + [('contended', 'contended')] * ncontended
    for k, (what, kind) in enumerate(plan):
        hid = first_id + k
        spec, ops = gen_failing_history(ctx.rng, hid, kind) if what == 'failing' else gen_contended_history(ctx.rng, hid)
        hist, div = run_history(spec, ops, mkdir, stats=stats, res=res)
        stats['histories_' + what] = stats.get('histories_' + what, 0) + 1
        if div is not None:
            report_divergence(res, stats, spec, ops, div, mkdir)


# ---------------------------------------------------------------------------
# blocks that do not commit; deques of parents configured to evict (monitor only)


def pick_block_value(rng, kind):
    """mostly values that live in a file for this kind of deque"""
    if rng.random() < 0.25:
        return rng.choice(VALUES)
    return rng.choice(LONG_VALUES if kind == 'filebacked' else BIG_VALUES)


def gen_inner_ops(rng, q, kind):
    """1-4 calls for the inside of a `with d.transact():` block, generated against a scratch copy of the reference"""
    r = Ref(q, q.maxlen)
    out = []
    for _ in range(rng.randint(1, 4)):
        n = len(r.q)
        op = weighted(rng, [('pop', 4), ('popleft', 4), ('rotate_idiom', 5), ('append', 3), ('appendleft', 3), ('setitem', 1), ('delitem', 1),
                            ('rotate', 1), ('peek', 1), ('peekleft', 1), ('getitem', 1), ('len', 1), ('iter', 1), ('extend', 1)])
        if op in ('append', 'appendleft'):
            args = [pick_block_value(rng, kind)]
        elif op == 'extend':
            args = [[pick_block_value(rng, kind) for _ in range(rng.randint(1, 2))]]
        elif op == 'rotate_idiom':
            args = [rng.choice([1, -1])]
        elif op in ('getitem', 'delitem'):
            args = [gen_index(rng, n, True)]
        elif op == 'setitem':
            args = [gen_index(rng, n, True), pick_block_value(rng, kind)]
        elif op == 'rotate':
            args = [rng.randint(-n - 1, n + 1)]
        else:
            args = []
        out.append([op, args])
        apply_ref(r, op, args)
    return out


def gen_block_history(rng, hid, kind):
    """Calls on a deque of file-backed (and a few inline) values; about half of them are `with d.transact():` blocks of 1-4 calls
    (pops from both ends, the atomic rotation idiom pop + appendleft, appends that displace on a full bounded deque, ...) that end in
    COMMIT, in an exception, in an exception that is not an Exception, or with the death of the process inside the block; between them
    ordinary calls and reopen / copy / pickle events."""
    maxlen = rng.choice([None, None, None, 3, 4, 5])
    init = [pick_block_value(rng, kind) for _ in range(rng.randint(2, 5))]
    spec = {'id': hid, 'kind': kind, 'stream': 'blocks', 'maxlen': maxlen, 'init': init}
    r = Ref(init, maxlen)
    ops = []
    for _ in range(rng.randint(5, 11)):
        x = rng.random()
        if x < 0.5:
            end = rng.choice(['abort', 'abort', 'abort_base', 'die', 'die', 'commit'])
            op, args = 'block', [end, gen_inner_ops(rng, r.q, kind)]
        elif x < 0.65:
            op, args = rng.choice(['reopen', 'reopen', 'pickle', 'copy']), []
        elif x < 0.8:
            op, args = rng.choice(['append', 'appendleft']), [pick_block_value(rng, kind)]
        elif x < 0.9:
            op, args = rng.choice([('getitem', [0]), ('getitem', [-1]), ('iter', []), ('len', []), ('peek', []), ('peekleft', [])])
        else:
            op, args = rng.choice([('pop', []), ('popleft', []), ('rotate_idiom', [1]), ('rotate', [1])])
        ops.append((op, args))
        apply_ref(r, op, args)
    ops.append(('reopen', []))
    ops.append(('iter', []))
    return spec, ops


def gen_evicting_parent_history(rng, hid, kind):
    """A Deque obtained from a FanoutCache / DjangoCache that was constructed with an eviction policy and a small size limit, filled
    far beyond one shard's share of that limit (inline values of 200-900 characters), read, obtained again, filled further."""
    maxlen = rng.choice([None, None, None, 150])
    spec = {'id': hid, 'kind': kind, 'stream': 'evicting-parent', 'maxlen': maxlen, 'init': []}
    ops = []
    n = 0

    def vals(k):
        nonlocal n
        out = []
        for _ in range(k):
            n += 1
            out.append(('item-%04d-' % n) + chr(97 + n % 26) * rng.choice([200, 400, 900]))
        return out
    for rnd in range(rng.randint(3, 4)):
        ops.append((rng.choice(['extend', 'extend', 'extendleft', 'iadd']), [vals(rng.randint(25, 40))]))
        for v in vals(rng.randint(1, 3)):
            ops.append((rng.choice(['append', 'appendleft']), [v]))
        ops.append(rng.choice([('len', []), ('getitem', [0]), ('getitem', [-1]), ('peekleft', []), ('popleft', []), ('pop', [])]))
        if rnd == 1:
            ops.append((rng.choice(['reopen', 'reopen', 'pickle']), []))
    ops.append(('reopen', []))
    ops.append(('iter', []))
    return spec, ops


BLOCK_KINDS = ['filebacked', 'plain', 'filebacked', 'fanout', 'filebacked', 'django']


def block_histories(ctx, res, stats, nblocks, nevicting, first_id=400000):
    """Monitor-only histories with their own random stream: transaction blocks that do not commit, and deques whose parent cache evicts."""
    import random
    rng = random.Random('C11-blocks-%d-%d' % (ctx.seed, first_id))
    mkdir = lambda: ctx.scratch('c11b')        # noqa: E731
    evk = ['%s+%s' % (b, p) for p in POLICIES for b in ('fanout', 'django')]
    plan = [('blocks', BLOCK_KINDS[k % len(BLOCK_KINDS)]) for k in range(nblocks)] + [('evicting_parent', evk[k % len(evk)]) for k in range(nevicting)]
    for k, (what, kind) in enumerate(plan):
        hid = first_id + k
        spec, ops = gen_block_history(rng, hid, kind) if what == 'blocks' else gen_evicting_parent_history(rng, hid, kind)
        hist, div = run_history(spec, ops, mkdir, stats=stats, res=res)
        stats['histories_' + what] = stats.get('histories_' + what, 0) + 1
        for op, args in ops:
            if op == 'block':
                stats['blocks_' + args[0]] = stats.get('blocks_' + args[0], 0) + 1
        if div is not None:
            report_divergence(res, stats, spec, ops, div, mkdir)


def publish_stats(res, stats):
    for k in ('histories_failing', 'histories_contended', 'failing_iterables', 'failing_iterables_displacing', 'contended_calls',
              'contended_calls_that_waited', 'contended_failed_begin_attempts', 'histories_blocks', 'histories_evicting_parent', 'blocks_abort',
              'blocks_abort_base', 'blocks_die', 'blocks_commit'):
        if k in stats:
            res.extra[k] = stats[k]
    stats['histories_crossing_maxlen'] = len(stats['crossed'])
    for k in ('op_histogram', 'histories', 'histories_crossing_maxlen', 'histories_with_reopen', 'histories_with_pickle',
              'histories_with_copy', 'histories_by_kind', 'histories_by_stream', 'filebacked_values_stored',
              'index_boundary_hits'):
        res.extra[k] = stats[k]
    res.extra['error_fraction'] = round(stats['errors'] / float(stats['ops']), 4) if stats['ops'] else 0.0
    res.extra['ops_executed'] = stats['ops']
    if any(stats['suppressed_repeats'].values()):
        res.extra['repeated_divergences_not_listed'] = dict(stats['suppressed_repeats'])


# ---------------------------------------------------------------------------
# (b) model vs implementation


class Unencodable(Exception):
    pass


class Encoder:
    """Python values -> integer ids for the Coq model: equal values (==) get equal ids; within numbers, strings and
    bytes the ids are order-preserving, so that the sequence comparisons of the model (integer order) mean the same."""

    def __init__(self, values):
        self.strs = sorted(set(v for v in values if isinstance(v, str)))
        self.byts = sorted(set(v for v in values if isinstance(v, bytes)))
        tups = []
        for v in values:
            if isinstance(v, tuple) and not any(v == t for t in tups):
                tups.append(v)
        try:
            tups.sort()
            self.tuples_ordered = True
        except TypeError:
            tups.sort(key=repr)
            self.tuples_ordered = False
        self.tups = tups

    def klass(self, v):
        if isinstance(v, (bool, int, float)):
            return 'num'
        if v is None:
            return 'none'
        for t, n in ((str, 'str'), (bytes, 'bytes'), (tuple, 'tuple')):
            if isinstance(v, t):
                return n
        raise Unencodable(repr(v))

    def id(self, v):
        k = self.klass(v)
        if k == 'num':
            x = 2 * v
            if x != int(x) or abs(x) > 10 ** 6:
                raise Unencodable(repr(v))
            return int(x)
        if k == 'none':
            return 10000000
        if k == 'str':
            return 20000000 + self.strs.index(v)
        if k == 'bytes':
            return 30000000 + self.byts.index(v)
        for i, t in enumerate(self.tups):
            if t == v:
                return 40000000 + i
        raise Unencodable(repr(v))

    def ids(self, vs):
        return fw.czlist([self.id(v) for v in vs])

    def order_meaningful(self, a, b):
        """May the model be asked for a < b?  (a != b)"""
        ka, kb = self.klass(a), self.klass(b)
        if ka != kb or ka == 'none':
            return False
        return ka != 'tuple' or self.tuples_ordered


def history_values(h):
    vals = list(h['init'])
    for e in h['events']:
        op, args = e['op'], e['args']
        if op in ('append', 'appendleft', 'remove', 'count', 'contains'):
            vals += args[:1]
        elif op in ('extend', 'extendleft', 'iadd'):
            vals += list(args[0])
        elif op == 'setitem':
            vals += args[1:2]
        elif op == 'compare':
            vals += list(args[1])
        vals += list(e['contents'])
        r = e['res']
        if r[0] == 'val':
            vals.append(r[1])
        elif r[0] == 'list':
            vals += list(r[1])
    return vals


COQ_EXN = ('IndexError', 'KeyError', 'ValueError', 'TypeError')
SEQOP = {'eq': 'OpEq', 'ne': 'OpNe', 'lt': 'OpLt', 'gt': 'OpGt', 'le': 'OpLe', 'ge': 'OpGe'}


def is_index(x):
    return isinstance(x, int) and not isinstance(x, bool)


def coq_event(enc, e, before, maxlen):
    """Coq term of one event, or None when the call is outside the model's vocabulary AND leaves the deque unchanged
    (wrong-typed arguments, `in`, comparisons of incomparable elements): such calls are dropped from the model run."""
    op, a = e['op'], e['args']
    if op == 'append':
        return 'EOp (OAppend %s)' % fw.cz(enc.id(a[0]))
    if op == 'appendleft':
        return 'EOp (OAppendLeft %s)' % fw.cz(enc.id(a[0]))
    if op == 'extend':
        return 'EOp (OExtend %s)' % enc.ids(a[0])
    if op == 'extendleft':
        return 'EOp (OExtendLeft %s)' % enc.ids(a[0])
    if op == 'iadd':
        return 'EOp (OIadd %s)' % enc.ids(a[0])
    if op in ('pop', 'popleft', 'peek', 'peekleft', 'reverse', 'iter', 'reversed', 'len', 'clear'):
        return 'EOp %s' % {'pop': 'OPop', 'popleft': 'OPopLeft', 'peek': 'OPeek', 'peekleft': 'OPeekLeft', 'reverse': 'OReverse',
                          'iter': 'OIter', 'reversed': 'OReversed', 'len': 'OLen', 'clear': 'OClear'}[op]
    if op == 'getitem':
        return 'EOp (OGet %s)' % fw.cz(a[0]) if is_index(a[0]) else None
    if op == 'setitem':
        return 'EOp (OSet %s %s)' % (fw.cz(a[0]), fw.cz(enc.id(a[1]))) if is_index(a[0]) else None
    if op == 'delitem':
        return 'EOp (ODel %s)' % fw.cz(a[0]) if is_index(a[0]) else None
    if op == 'rotate':
        return 'EOp (ORotate %s)' % fw.cz(a[0]) if is_index(a[0]) else None
    if op == 'remove':
        return 'EOp (ORemove %s)' % fw.cz(enc.id(a[0]))
    if op == 'count':
        return 'EOp (OCount %s)' % fw.cz(enc.id(a[0]))
    if op == 'compare':
        name, that = a[0], list(a[1])
        if name not in ('eq', 'ne'):
            for x, y in zip(before, that):
                if x != y:
                    if not enc.order_meaningful(x, y):
                        return None
                    break
        return 'EOp (OCompare %s %s)' % (SEQOP[name], enc.ids(that))
    if op == 'set_maxlen':
        if is_index(a[0]) and a[0] >= 0:
            return 'EOp (OSetMaxlen %d%%nat)' % a[0]
        return None
    if op == 'reopen':
        return 'EReopen %s' % fw.copt(maxlen)
    if op == 'copy':
        return 'ECopy'
    if op == 'pickle':
        return 'EPickle'
    return None


def coq_res(enc, r):
    k = r[0]
    if k == 'none':
        return 'RNone'
    if k == 'val':
        return '(RVal %s)' % fw.cz(enc.id(r[1]))
    if k == 'int':
        return '(RInt %s)' % fw.cz(r[1])
    if k == 'bool':
        return '(RBool %s)' % fw.cbool(r[1])
    if k == 'list':
        return '(RList %s)' % enc.ids(r[1])
    if k == 'raise' and r[1] in COQ_EXN:
        return '(RRaise %s)' % r[1]
    raise Unencodable(repr(r))


def coq_history(h, upto=None):
    """(check term, number of calls kept, indices of the kept events) or None if the history cannot be expressed in the
    model.  upto: only the first `upto` kept calls."""
    try:
        enc = Encoder(history_values(h))
        maxlen = h['maxlen']
        if maxlen is not None and not (is_index(maxlen) and maxlen >= 0):
            return None
        events, exp_model, exp_spec, kept = [], [], [], []
        before = list(collections.deque(h['init'], maxlen=maxlen))
        for idx, e in enumerate(h['events']):
            if upto is not None and len(events) >= upto:
                break
            t = coq_event(enc, e, before, maxlen)
            if t is None:
                # dropped: only sound if the call left the deque as it was
                if not same_typed_list(list(e['contents']), before):
                    return None
                continue
            if e['op'] == 'set_maxlen':
                maxlen = e['args'][0]
            events.append(t)
            kept.append(idx)
            r = coq_res(enc, e['res'])
            exp_model.append('(%s, %s, %s)' % (r, enc.ids(e['contents']), fw.czlist(e['keys'])))
            exp_spec.append('(%s, %s)' % (r, enc.ids(e['contents'])))
            before = list(e['contents'])
        m0 = h['maxlen']
        term = 'dq_check %s %s %s %s && ldq_check %s %s %s %s' % (
            fw.copt(m0), enc.ids(h['init']), fw.clist(events), fw.clist(exp_model),
            'None' if m0 is None else '(Some %d%%nat)' % m0, enc.ids(h['init']), fw.clist(events), fw.clist(exp_spec))
        return term, len(events), kept
    except Unencodable:
        return None


def history_case(h, upto=None):
    evs = h['events'] if upto is None else h['events'][:upto]
    return {'check': 'deque_model', 'kind': h['kind'], 'stream': h.get('stream'), 'maxlen': h['maxlen'],
            'init': [repr(v) for v in h['init']],
            'ops': [[e['op'], [repr(x) for x in e['args']]] for e in evs],
            'impl_results': [repr(e['res']) for e in evs], 'impl_contents': [repr(e['contents']) for e in evs][-3:]}


COQ_IMPORTS = ['DCPrelude', 'PersistentBase', 'Gen_Persistent', 'QCache', 'Deque']


def correspondence(ctx, res, histories, limit):
    """Model vs implementation: every history is run through the Coq model of Deque (model/Deque.v, which calls the
    definitions generated from persistent.py) and through the list specification; results, contents and the integer queue
    keys after every call must equal what the implementation produced.  `limit` bounds the number of calls shipped to Coq."""
    chosen, total, skipped = [], 0, 0
    order = list(range(len(histories)))
    ctx.rng.shuffle(order)
    for i in order:
        h = histories[i]
        if not h['events']:
            continue
        t = coq_history(h)
        if t is None:
            skipped += 1
            continue
        if total + t[1] > limit and chosen:
            break
        chosen.append((h, t[0]))
        total += t[1]
    res.extra['model_histories'] = len(chosen)
    res.extra['model_calls'] = total
    res.extra['model_histories_not_expressible'] = skipped
    if not chosen:
        return
    # the model must run even when a proof is broken (model/ holds no proofs): make sure its .vo files exist
    fw.coq_make(['model/Deque.vo'], jobs=4, timeout=900)
    checks = [t for _, t in chosen]
    bad, errors = fw.coq_mismatches('c11', COQ_IMPORTS, '', checks, chunk=60)
    res.traces_validated += len(checks) - len(bad)
    for e in errors:
        res.disagreements.append(fw.Violation('model-eval', 'model evaluation failed: ' + e[-400:], {}, 'correspondence'))
    for i in bad[:3]:
        h, term = chosen[i]
        # which call?  check every prefix of the history
        n = coq_history(h)[1]
        prefixes = [coq_history(h, k) for k in range(1, n + 1)]
        bad2, _ = fw.coq_mismatches('c11p', COQ_IMPORTS, '', [p[0] for p in prefixes], chunk=60)
        upto = None
        where = ''
        if bad2:
            first = prefixes[min(bad2)]
            upto = first[2][-1] + 1
            e = h['events'][upto - 1]
            where = ': first disagreement at call %d, %s(%s) -> implementation %r, contents %r' % (
                upto, e['op'], ', '.join(repr(x) for x in e['args']), e['res'], e['contents'])
        res.disagreements.append(fw.Violation(
            'deque_model', 'the Coq model of Deque (or the list specification) disagrees with diskcache.Deque' + where,
            history_case(h, upto), 'correspondence'))
    res.sample({'model_check_example': checks[0][:300]})


# ---------------------------------------------------------------------------
# (c) producers / consumers under the deterministic scheduler

# name -> (style, producers, consumers).  Style A: append / popleft.  Style B: appendleft / pop.  Both are FIFO queues.
SCENARIOS = {
    'A_1p1c': ('A', 1, 1), 'A_2p1c': ('A', 2, 1), 'A_1p2c': ('A', 1, 2),
    'B_1p1c': ('B', 1, 1), 'B_2p1c': ('B', 2, 1), 'B_1p2c': ('B', 1, 2),
}
SCENARIO_ORDER = ['A_2p1c', 'B_2p1c', 'A_1p1c', 'B_1p1c', 'A_1p2c', 'B_1p2c']


def conc_run(scenario, items, attempts, schedule, mkdir, max_steps=20000):
    """One scheduled run.  items[p] = number of items of producer p, attempts[c] = bound on consumer c's pop calls.
    Returns dict(overflow, steps, schedule_used, problems=[(sig, desc)], appended, popped, remaining, empties)."""
    style, nprod, ncons = SCENARIOS[scenario]
    n = nprod + ncons
    directory = mkdir()
    # the directory is initialised by the harness; the clients only open it (warm-ups run unscheduled, so they are serialised)
    diskcache.Cache(directory, eviction_policy='none').close()
    deques = [None] * n
    wlock = threading.Lock()
    appended = [[] for _ in range(nprod)]
    got = [[] for _ in range(ncons)]
    calls = [[] for _ in range(ncons)]       # outcome of every pop call in call order: the item, or None for IndexError
    empties = [0] * ncons
    total = sum(items)

    def warm(i):
        def w():
            with wlock:
                deques[i] = Deque.fromcache(diskcache.Cache(directory, timeout=0, eviction_policy='none'), maxlen=None)
                len(deques[i])
        return w

    def producer(p):
        def prog():
            d = deques[p]
            try:
                for s in range(items[p]):
                    if style == 'A':
                        d.append((p, s))
                    else:
                        d.appendleft((p, s))
                    appended[p].append((p, s))
            finally:
                d.cache.close()
            return len(appended[p])
        return prog

    def consumer(c):
        def prog():
            d = deques[nprod + c]
            try:
                for _ in range(attempts[c]):
                    if len(got[c]) >= total:
                        break
                    try:
                        v = d.popleft() if style == 'A' else d.pop()
                    except IndexError:
                        empties[c] += 1         # empty right now: the expected outcome, retry (bounded)
                        calls[c].append(None)
                        continue
                    got[c].append(v)
                    calls[c].append(v)
            finally:
                d.cache.close()
            return len(got[c])
        return prog

    programs = [producer(p) for p in range(nprod)] + [consumer(c) for c in range(ncons)]
    s = sched.Scheduler(max_steps=max_steps)
    out = s.run(programs, list(schedule), warmups=[warm(i) for i in range(n)])
    result = {'overflow': bool(out['overflow']), 'steps': out['steps'], 'schedule_used': list(out['schedule_used']),
              'problems': [], 'appended': appended, 'popped': got, 'remaining': None, 'empties': sum(empties)}
    if out['overflow']:
        shutil.rmtree(directory, ignore_errors=True)
        return result
    problems = result['problems']
    for cid, e in enumerate(out['errors']):
        if e is not None:
            problems.append(('deque_conc_error', 'client %d (%s) raised %r' % (cid, 'producer' if cid < nprod else 'consumer', e)))
    # what is left, read by the harness through its own handle
    try:
        own = Deque.fromcache(diskcache.Cache(directory, eviction_policy='none'), maxlen=None)
        remaining = list(own)
        own.cache.close()
    except Exception as e:
        remaining = []
        problems.append(('deque_conc_error', 'reading the remaining items raised %r' % (e,)))
    result['remaining'] = remaining
    shutil.rmtree(directory, ignore_errors=True)
    # global order of the successful pops = order of the DELETE statements of the consumers in the scheduler log
    # (a pull is BEGIN IMMEDIATE / SELECT / DELETE / COMMIT; an empty pull has no DELETE).  If the log does not match
    # the number of successful pops, only the per-consumer orders are checked.
    order, idx, usable = [], [0] * ncons, True
    for cid, what, _detail in out['log']:
        if cid >= nprod and what == 'sql:DELETE':
            c = cid - nprod
            if idx[c] < len(got[c]):
                order.append(got[c][idx[c]])
                idx[c] += 1
            else:
                usable = False
    if any(idx[c] != len(got[c]) for c in range(ncons)):
        usable = False
    result['global_order'] = usable
    problems += conc_monitor(style, nprod, appended, got, remaining, order if usable else None)
    result['atomic_term'] = atomic_term(style, nprod, out['log'], appended, calls, remaining)
    return result


def atomic_term(style, nprod, log, appended, calls, remaining):
    """Correspondence of the atomic-operation layer (C11_exactly_once is stated over it): every Deque call is one write
    transaction, so the calls are linearised by their COMMITs.  The Coq model is run on that sequence of atomic calls and must
    produce the result of every call and the remaining contents.  Returns a Coq boolean term, or None if the log does not have
    one COMMIT per call (then nothing is claimed)."""
    ident = lambda it: it[0] * 1000 + it[1]       # noqa: E731
    nxt = {}
    events, results = [], []
    for cid, what, _d in log:
        if what != 'sql:COMMIT':
            continue
        k = nxt.get(cid, 0)
        nxt[cid] = k + 1
        if cid < nprod:
            if k >= len(appended[cid]):
                return None
            events.append('EOp (%s %d)' % ('OAppend' if style == 'A' else 'OAppendLeft', ident(appended[cid][k])))
            results.append('RNone')
        else:
            c = cid - nprod
            if k >= len(calls[c]):
                return None
            events.append('EOp %s' % ('OPopLeft' if style == 'A' else 'OPop'))
            v = calls[c][k]
            results.append('RRaise IndexError' if v is None else '(RVal %d)' % ident(v))
    if any(nxt.get(p, 0) != len(appended[p]) for p in range(nprod)) or \
            any(nxt.get(nprod + c, 0) != len(calls[c]) for c in range(len(calls))):
        return None
    return ('let t := dq_trace (dq_new None []) %s in list_eqb res_eqb (map (fun o => fst (fst o)) t) %s && '
            'zlist_eqb (match rev t with (_, v, _) :: _ => v | [] => [] end) %s'
            % (fw.clist(events), fw.clist(results), fw.czlist([ident(x) for x in remaining])))


def conc_monitor(style, nprod, appended, got, remaining, order):
    """Pure accounting; must hold under every interleaving."""
    problems = []
    app = collections.Counter(x for l in appended for x in l)
    popped = [x for l in got for x in l]
    for x in popped + list(remaining):
        if not (isinstance(x, tuple) and len(x) == 2):
            problems.append(('deque_conc_duplicate', 'item %r was never appended' % (x,)))
            return problems
    out = collections.Counter(popped) + collections.Counter(remaining)
    lost = sorted((app - out).elements())
    extra = sorted((out - app).elements())
    if lost:
        problems.append(('deque_conc_lost', 'appended but neither popped nor left in the deque: %r' % (lost[:6],)))
    if extra:
        twice = [x for x in extra if collections.Counter(popped)[x] > 1]
        problems.append(('deque_conc_duplicate', ('popped twice: %r' % (twice[:6],)) if twice else
                         'more copies popped/left than were appended: %r' % (extra[:6],)))
    # FIFO per producer
    seqs = [order] if order is not None else list(got)
    for p in range(nprod):
        for seq in seqs:
            mine = [s for (q, s) in seq if q == p]
            if any(a >= b for a, b in zip(mine, mine[1:])):
                problems.append(('deque_conc_order', 'items of producer %d were popped in the order %r' % (p, mine)))
                break
        left = [s for (q, s) in remaining if q == p]
        good = all(a < b for a, b in zip(left, left[1:])) if style == 'A' else all(a > b for a, b in zip(left, left[1:]))
        if not good:
            problems.append(('deque_conc_order', 'items of producer %d are left in the order %r' % (p, left)))
        mine = [s for (q, s) in popped if q == p]
        if mine and left and min(left) < max(mine):
            problems.append(('deque_conc_order', 'producer %d: item %d was popped before the older item %d that is still queued'
                             % (p, max(mine), min(left))))
    return problems


def conc_case(scenario, items, attempts, schedule_used, r, sig, desc):
    return {'check': 'deque_conc', 'scenario': scenario, 'clients': sum(SCENARIOS[scenario][1:]), 'items': list(items),
            'attempts': list(attempts), 'schedule_used': list(schedule_used), 'sig': sig, 'observed': desc,
            'popped': [[repr(x) for x in l] for l in r['popped']],
            'remaining': [repr(x) for x in (r['remaining'] or [])]}


def concurrent(ctx, res, nruns):
    mkdir = lambda: ctx.scratch('c11c')       # noqa: E731
    ex = res.extra
    for k in ('conc_runs', 'conc_steps', 'conc_overflow', 'conc_pops', 'conc_empty_pops', 'conc_runs_with_items_left'):
        ex.setdefault(k, 0)
    ex.setdefault('conc_by_scenario', {})
    seen = set()
    atomic = []
    for k in range(nruns):
        scenario = SCENARIO_ORDER[k % len(SCENARIO_ORDER)]
        style, nprod, ncons = SCENARIOS[scenario]
        n = nprod + ncons
        items = [ctx.rng.randint(2, 6) for _ in range(nprod)]
        total = sum(items)
        attempts = [max(1, total // ncons + ctx.rng.randint(-2, 6)) for _ in range(ncons)]
        length = ctx.rng.randint(50, 300)
        if ctx.rng.random() < 0.3:
            # bursty schedule: one client keeps the processor for a while
            schedule = []
            while len(schedule) < length:
                schedule += [ctx.rng.randrange(n)] * ctx.rng.randint(1, 12)
            schedule = schedule[:length]
        else:
            schedule = [ctx.rng.randrange(n) for _ in range(length)]
        r = conc_run(scenario, items, attempts, schedule, mkdir)
        if r['overflow']:
            ex['conc_overflow'] += 1
            continue
        ex['conc_runs'] += 1
        ex['conc_steps'] += r['steps']
        ex['conc_pops'] += sum(len(l) for l in r['popped'])
        ex['conc_empty_pops'] += r['empties']
        ex['conc_runs_with_items_left'] += 1 if r['remaining'] else 0
        ex['conc_by_scenario'][scenario] = ex['conc_by_scenario'].get(scenario, 0) + 1
        res.count(['conc', scenario, items, attempts, ''.join(map(str, r['schedule_used']))],
                  nontrivial=any(r['popped']))
        for sig, desc in r['problems']:
            if sig in seen:
                continue
            seen.add(sig)
            res.violations.append(fw.Violation(sig, 'concurrent producers/consumers (%s): %s' % (scenario, desc),
                                               conc_case(scenario, items, attempts, r['schedule_used'], r, sig, desc)))
        if r.get('atomic_term') and not r['problems']:
            atomic.append((r['atomic_term'], conc_case(scenario, items, attempts, r['schedule_used'], r, 'deque_atomic_model',
                                                       'model on the COMMIT-ordered calls')))
        if k == 0:
            res.sample({'conc_scenario': scenario, 'items': items, 'attempts': attempts, 'steps': r['steps'],
                        'popped': [[repr(x) for x in l] for l in r['popped']],
                        'remaining': [repr(x) for x in r['remaining']]}, limit=4)
    ex['conc_runs_linearised_for_model'] = ex.get('conc_runs_linearised_for_model', 0) + len(atomic)
    if atomic and not ctx.search_mode:
        bad, errors = fw.coq_mismatches('c11a', COQ_IMPORTS, '', [t for t, _ in atomic], chunk=100)
        res.traces_validated += len(atomic) - len(bad)
        for e in errors:
            res.disagreements.append(fw.Violation('model-eval', 'model evaluation failed: ' + e[-400:], {}, 'correspondence'))
        for i in bad[:2]:
            res.disagreements.append(fw.Violation(
                'deque_atomic_model', 'the Deque model run on the COMMIT-ordered sequence of calls disagrees with the results the '
                'concurrent clients saw', atomic[i][1], 'correspondence'))


# ---------------------------------------------------------------------------
# entry points

RULE = ('differential histories of 10-40 calls (valid and malformed streams; maxlen None/0/1/3, sometimes 2/5; plain, file-backed, '
        'FanoutCache.deque and DjangoCache.deque deques; reopen/copy/pickle events) executed on diskcache.Deque and on '
        'collections.deque and compared after every call (result with element types, exception class, list(d)); '
        'producer/consumer programs on 2-3 connections under random schedules of the deterministic scheduler with exact '
        'accounting of appended/popped/remaining items.  evaluation = one executed call or one scheduled run; non-trivial = '
        'the deque is non-empty or the call mutates / at least one item was popped; distinct = distinct (kind, stream, maxlen, '
        'op, args, length before) or distinct schedule.  Failing sources (monitor only): histories of 3-10 calls on every kind in which extend / '
        'extendleft / += -- and, for plain and fromcache deques, the constructor -- are given an iterable of n = 0..5 inline and file-backed values '
        'that raises after k = 0..n items (three exception classes), maxlen None/0/1/2/3/5, followed by reads and reopen/copy/pickle events: '
        'collections.deque keeps (and lets displace) every item consumed before the exception.  Contention (monitor only): valid-stream histories on '
        'Deque.fromcache(Cache(dir, timeout=0)); every call starts while a second connection holds the write lock, which is released just before the '
        'call\'s (k+1)-th BEGIN attempt (k = 1..3, sometimes taken again between two transactions of the call): every method must wait and return what '
        'collections.deque returns, never Timeout.  Handle races (monitor only): one client creates a handle on the directory (Deque(directory=...), '
        'copy(), pickle round trip; the statements of Cache.__init__ are scheduled events) while another client appends / pops through its own handle, '
        'its calls placed as one burst or two after every i-th statement of the creation (quick: every second i); afterwards, through the new handle, the '
        'other client\'s handle and a fresh one: len(d) == number of items == what collections.deque(maxlen) holds, d[i] for i within bounds, '
        'IndexError beyond, and further appends keep a bounded deque at its bound.  Blocks that do not commit (monitor only, own random stream): '
        'histories on plain, fromcache (file threshold 8), FanoutCache.deque and DjangoCache.deque deques holding file-backed values (at and above '
        'the file threshold of the kind: 32 KiB by default) and a few inline ones, maxlen None/3/4/5, in which about half of the calls are '
        '`with d.transact():` blocks of 1-4 calls (pop, popleft, the documented atomic rotation pop + appendleft / popleft + append, appends that displace '
        'on a full bounded deque, extend, setitem, delitem, rotate, reads) ending in COMMIT, in an exception, in an exception that is not an Exception, or '
        'with the death of the process inside the block (a forked process with its own handle, os._exit before COMMIT), between ordinary calls and reopen / '
        'copy / pickle events: inside the block every call returns what collections.deque returns, after a block that did not commit the deque is what it '
        'was before the block (list(d), and later d[i], pops, reopen).  Evicting parents (monitor only): a Deque from FanoutCache.deque / DjangoCache.deque '
        'of a parent CONSTRUCTED with each eviction policy and size_limit %d (two shards), filled with 80-170 inline values of 200-900 characters by '
        'extend / extendleft / += / append, read, obtained again: nothing is lost.' % SMALL_PARENT_LIMIT)


def bounded_concurrent(ctx, res, nrandom):
    """A FULL bounded deque under concurrent clients: append / appendleft discard from the other end in the SAME atomic step,
    so every run must be explainable by executing the calls one at a time (collections.deque(maxlen=m) semantics) in an
    order that respects real-time precedence.  Uses the schedule driver and the linearizability search of C05."""
    import concdrv
    from props import c05
    st = {'runs': 0, 'by_maxlen': {}, 'overflow': 0}
    seen = set()

    def one(programs, setup, maxlen, schedule, mode, label):
        settings = {'disk_min_file_size': 8, 'maxlen': maxlen}
        r = concdrv.run_program(ctx, programs, schedule, mode=mode, settings=settings, setup=setup, kind='deque', max_steps=6000)
        st['runs'] += 1
        st['by_maxlen'][str(maxlen)] = st['by_maxlen'].get(str(maxlen), 0) + 1
        if r['overflow']:
            st['overflow'] += 1
        init = c05.RefDeque(maxlen=maxlen)
        for c_ in setup:
            init.apply(c_)
        viol = c05.check_run(r, programs, setup, 'deque', None, init=init)
        res.count(['bounded-conc', programs, setup, maxlen, r['schedule_used'], mode], nontrivial=True)
        for sig, desc in viol[:2]:
            sig = 'deque_bounded_' + sig
            if sig not in seen:
                seen.add(sig)
                res.violations.append(fw.Violation(sig, 'bounded deque (maxlen %d) under concurrent clients: %s [%s]' % (maxlen, desc, label),
                                                   {'check': 'deque_bounded_conc', 'programs': programs, 'setup': setup, 'maxlen': maxlen,
                                                    'schedule': r['schedule_used'], 'mode': mode}))
        shutil.rmtree(r['dir'], ignore_errors=True)
        return viol
    big = 'BIG' + 'x' * 20
    # systematic: a producer appending to a full deque against one consumer call, every placement of the consumer inside the producer's call
    for maxlen in (1, 2, 3):
        setup = [{'op': 'append', 'value': 'old%d' % i if i else big} for i in range(maxlen)]
        for padd, ppop in (('append', 'popleft'), ('appendleft', 'pop'), ('append', 'pop'), ('appendleft', 'popleft')):
            programs = [[{'op': padd, 'value': 'new'}, {'op': 'len'}], [{'op': ppop}, {'op': 'len'}]]
            seqs = concdrv.solo_events(ctx, programs, settings={'disk_min_file_size': 8, 'maxlen': maxlen}, setup=setup, kind='deque')
            for i in range(0, len(seqs[0]) + 1):
                one(programs, setup, maxlen, [0] * i + [1] * 200 + [0] * 200, 'own', 'systematic:%s/%s:%d' % (padd, ppop, i))
                if seen:
                    break
    for k in range(nrandom):
        rng = ctx.rng
        maxlen = rng.choice([1, 2, 2, 3])
        setup = [{'op': 'append', 'value': rng.choice([k * 10 + i, big + str(i)])} for i in range(rng.choice([maxlen, maxlen, max(0, maxlen - 1)]))]
        n = rng.choice([2, 2, 3])
        programs = []
        for c_ in range(n):
            prog = []
            for j in range(rng.choice([1, 2, 2, 3])):
                op = rng.choice(['append', 'append', 'appendleft', 'popleft', 'pop', 'len', 'popleft'])
                call = {'op': op}
                if op in ('append', 'appendleft'):
                    call['value'] = 'v%d.%d.%d' % (k, c_, j) if rng.random() < 0.6 else big + '%d.%d.%d' % (k, c_, j)
                prog.append(call)
            programs.append(prog)
        total = [14 * len(p) + 4 for p in programs]
        schedule = []
        left = list(total)
        while any(left):
            c_ = rng.choice([i for i, x in enumerate(left) if x])
            x = min(left[c_], rng.randrange(1, 6))
            schedule += [c_] * x
            left[c_] -= x
        one(programs, setup, maxlen, schedule, rng.choice(['own', 'shared']), 'random:%d' % k)
    res.extra['bounded_deque_concurrency'] = st


# ---------------------------------------------------------------------------
# (d) a handle created (reopen / copy / unpickle) WHILE another client appends and pops


HANDLE_WAYS = ('reopen', 'copy', 'pickle')


def _wval(v):
    return ('F' + str(v)) * 6 if isinstance(v, str) else v


def handle_race_run(case, mkdir, max_steps=20000):
    """Client 0 creates a NEW handle on the deque's directory (Deque(directory=...), d.copy(), pickle.loads(pickle.dumps(d))): the
    statements of Cache.__init__ are its scheduled events.  Client 1 appends / pops through its own handle.  schedule = client 0's
    first i events, then whole calls of client 1, ...  Decided when both are done, through the new handle, the old handle and a
    fresh one: len(d) == number of items, the items are what collections.deque(maxlen) holds after client 1's calls, d[i] works for
    every i within bounds, and a further append keeps a bounded deque at its bound.  Returns dict(problems, nevents, ...)."""
    import instr
    directory = mkdir()
    maxlen, way = case['maxlen'], case['way']
    init = [unrepr(x) if isinstance(x, str) and x.startswith('!') else x for x in case['init']]
    clock = instr.Clock(1000.0)
    problems = []
    out_info = {'problems': problems, 'overflow': False}
    with instr.Installed(clock):
        c0 = diskcache.Cache(directory, eviction_policy='none', disk_min_file_size=case.get('min_file_size', 32768))
        d_init = Deque.fromcache(c0, maxlen=maxlen)
        for v in init:
            d_init.append(_wval(v))
        c0.close()
        ref = collections.deque([_wval(v) for v in init], maxlen)
        allowed_len = [len(ref)]
        for op, v in case['writer']:
            if op in ('append', 'appendleft'):
                getattr(ref, op)(_wval(v))
            elif ref:
                getattr(ref, op)()
            allowed_len.append(len(ref))
        handles = [None, None]
        made = {}
        seen_len = {}
        wcalls = []          # client 1's event counter after each of its calls
        wlock = threading.Lock()

        def warm(i):
            def w():
                with wlock:
                    handles[i] = Deque.fromcache(diskcache.Cache(directory, timeout=0, eviction_policy='none'), maxlen=maxlen)
                    len(handles[i])
            return w
        s = sched.Scheduler(clock, max_steps=max_steps, sleep_advances=False)

        def opener():
            d = handles[0]
            try:
                if way == 'reopen':
                    new = Deque(directory=directory, maxlen=maxlen)
                elif way == 'copy':
                    new = d.copy()
                else:
                    new = pickle.loads(pickle.dumps(d))
                made['new'] = new
                seen_len['new'] = len(new)
                new.cache.close()
            finally:
                d.cache.close()
            return 'opened'

        def writer():
            d = handles[1]
            results = []
            try:
                for op, v in case['writer']:
                    try:
                        results.append(getattr(d, op)(_wval(v)) if op in ('append', 'appendleft') else getattr(d, op)())
                    except IndexError:
                        results.append('IndexError')
                    wcalls.append(s.nevents[1])
            finally:
                d.cache.close()
            return results
        out = s.run([opener, writer], list(case['schedule']), warmups=[warm(0), warm(1)])
        out_info.update({'overflow': bool(out['overflow']), 'steps': out['steps'], 'schedule_used': list(out['schedule_used']),
                         'events': [sum(1 for c, _, _ in out['log'] if c == i) for i in (0, 1)], 'writer_call_events': list(wcalls),
                         'log': [(c, w) for c, w, _ in out['log']]})
        if out['overflow']:
            shutil.rmtree(directory, ignore_errors=True)
            return out_info
        for cid, e in enumerate(out['errors']):
            if e is not None:
                problems.append(('deque_handle_race:error', 'client %d (%s) raised %r' % (cid, 'creating the handle' if cid == 0 else 'appending / popping', e)))
        if not problems:
            want = list(ref)
            if seen_len.get('new') not in allowed_len:
                problems.append(('deque_handle_race:len', 'len() of the handle just created by %s returned %r; the deque held %r items before, between and after '
                                 'the other client\'s calls' % (way, seen_len.get('new'), allowed_len)))
            fresh = Deque.fromcache(diskcache.Cache(directory, eviction_policy='none'), maxlen=maxlen)
            views = [('the new handle (%s)' % way, made['new']), ('the handle of the appending client', handles[1]), ('a handle opened afterwards', fresh)]
            try:
                for label, d in views:
                    items = list(d)
                    n = len(d)
                    if not same_typed_list(items, want):
                        problems.append(('deque_handle_race:contents', '%s holds %r, collections.deque(maxlen=%r) after the same calls holds %r' % (label, items, maxlen, want)))
                        break
                    if n != len(items):
                        problems.append(('deque_handle_race:len', 'len(%s) == %d but it holds %d items %r' % (label, n, len(items), items)))
                        break
                    for i in sorted(set([0, len(want) - 1, -1, -len(want)])) if want else []:
                        try:
                            got = d[i]
                        except IndexError as e:
                            problems.append(('deque_handle_race:index', '%s[%d] raised %r although it holds %d items' % (label, i, e, len(items))))
                            break
                        if not same_typed(got, want[i]):
                            problems.append(('deque_handle_race:index', '%s[%d] == %r, expected %r' % (label, i, got, want[i])))
                            break
                    try:
                        d[len(want)]
                        problems.append(('deque_handle_race:index', '%s[%d] did not raise IndexError although it holds %d items' % (label, len(want), len(want))))
                    except IndexError:
                        pass
                    if problems:
                        break
                if not problems:
                    # further appends through the new handle: a bounded deque stays at its bound and discards nothing below it
                    d = made['new']
                    for j in range(2):
                        x = 'after%d' % j
                        d.append(x) if j % 2 == 0 else d.appendleft(x)
                        ref.append(x) if j % 2 == 0 else ref.appendleft(x)
                        items = list(d)
                        if not same_typed_list(items, list(ref)) or len(d) != len(ref):
                            problems.append(('deque_handle_race:bound' if maxlen is not None and len(items) != len(ref) else 'deque_handle_race:contents',
                                             'after one more %s through the new handle it holds %r (len() %d); collections.deque(maxlen=%r) holds %r'
                                             % ('append' if j % 2 == 0 else 'appendleft', items, len(d), maxlen, list(ref))))
                            break
            finally:
                for _, d in views:
                    try:
                        d.cache.close()
                    except Exception:  # noqa
                        pass
    shutil.rmtree(directory, ignore_errors=True)
    return out_info


def handle_races(ctx, res, thorough):
    """Every placement of the other client's calls (as one burst, and split in two bursts) inside the creation of a handle."""
    import concdrv
    mkdir = lambda: concdrv.scratch(ctx, 'c11h')       # noqa: E731  (tmpfs when available: every run opens and closes five handles)
    st = {'runs': 0, 'overflow': 0, 'by_way': {}}
    seen = set()
    rng = ctx.rng
    variants = []
    for wi, way in enumerate(HANDLE_WAYS):
        for maxlen in (None, 4, 3):
            variants.append((way, maxlen))
    for vi, (way, maxlen) in enumerate(variants):
        if not thorough and vi % 3 != (ctx.seed % 3) and maxlen == 3:
            continue
        filey = (vi % 2 == 1)
        init = ['a', 'b', 'c'] if not filey else ['a', 1, 'c']
        pool = [[('append', 'd')], [('append', 'd'), ('append', 'e')], [('popleft', None), ('append', 'd'), ('appendleft', 'z')],
                [('pop', None), ('pop', None)], [('appendleft', 'z'), ('popleft', None), ('append', 'd'), ('append', 'e')]]
        wr = pool[vi % len(pool)] if not thorough else None
        for writer in ([wr] if wr else pool):
            base = {'check': 'deque_handle_race', 'way': way, 'maxlen': maxlen, 'init': init, 'writer': [list(x) for x in writer],
                    'min_file_size': 8 if filey else 32768}
            solo = handle_race_run(dict(base, schedule=[0] * 5000), mkdir)
            if solo['overflow'] or solo['problems']:
                for sig, desc in solo['problems'][:1]:
                    if sig not in seen:
                        seen.add(sig)
                        res.violations.append(fw.Violation(sig, 'a handle created while nobody else writes: ' + desc, dict(base, schedule=[0] * 5000)))
                continue
            n0 = solo['events'][0]
            cuts = solo['writer_call_events']
            step = 1 if thorough else 2
            off = 0 if thorough else (vi + ctx.seed) % step
            scheds = [[0] * i + [1] * 3000 + [0] * 5000 for i in range(off, n0 + 1, step)]
            if len(cuts) > 1:
                a = cuts[(len(cuts) - 1) // 2]
                for i in range(off, n0 + 1, step * 3):
                    for k in (3, 9):
                        scheds.append([0] * i + [1] * a + [0] * k + [1] * 3000 + [0] * 5000)
            for schedule in scheds:
                case = dict(base, schedule=schedule)
                r = handle_race_run(case, mkdir)
                st['runs'] += 1
                st['by_way'][way] = st['by_way'].get(way, 0) + 1
                if r['overflow']:
                    st['overflow'] += 1
                    continue
                res.count(['handle-race', way, maxlen, writer, ''.join(map(str, r['schedule_used']))], nontrivial=True)
                for sig, desc in r['problems'][:2]:
                    if sig in seen:
                        continue
                    seen.add(sig)
                    case['schedule'] = r['schedule_used']
                    res.violations.append(fw.Violation(sig, 'a Deque handle created by %s (maxlen %r) while another client runs %s (placed after %d of the %d '
                                                       'statements of the creation): %s' % (way, maxlen, ' '.join(op for op, _ in writer),
                                                                                            (schedule.index(1) if 1 in schedule else len(schedule)), n0, desc), case))
                if len(seen) >= 3:
                    break
            if len(seen) >= 3:
                break
        if len(seen) >= 3:
            break
    res.extra['deque_handle_races'] = st


def run(ctx):
    res = fw.Result()
    res.rule = RULE
    stats = new_stats()
    histories = []
    sequential(ctx, res, 250 if ctx.quick else 2500, stats, histories)
    extra_histories(ctx, res, stats, 80 if ctx.quick else 800, 40 if ctx.quick else 400)
    block_histories(ctx, res, stats, 60 if ctx.quick else 600, 8 if ctx.quick else 64)
    publish_stats(res, stats)
    correspondence(ctx, res, histories, 7000 if ctx.quick else 100000)
    concurrent(ctx, res, 40 if ctx.quick else 400)
    bounded_concurrent(ctx, res, 120 if ctx.quick else 1500)
    handle_races(ctx, res, not ctx.quick)
    return res


def search(ctx, broken):
    res = fw.Result()
    stats = new_stats()
    histories = []
    sequential(ctx, res, 750, stats, histories, first_id=100000)
    extra_histories(ctx, res, stats, 240, 120, first_id=300000)
    block_histories(ctx, res, stats, 120, 16, first_id=500000)
    concurrent(ctx, res, 120)
    bounded_concurrent(ctx, res, 400)
    handle_races(ctx, res, False)
    return res


def replay(payload):
    if payload.get('kind') == 'broken-obligation':
        # no failing input was found by the monitors; re-run the histories attached to broken correspondences (if any)
        ok = True
        for ob in payload.get('obligations', []):
            print('broken obligation: %s -- %s' % (ob.get('name'), str(ob.get('detail'))[:300]))
            if isinstance(ob.get('case'), dict) and ob['case'].get('check'):
                ok = replay({'case': ob['case']}) and ok
        return ok
    case = payload.get('case', {})
    check = case.get('check')
    if check in ('deque_history', 'deque_model'):
        spec = {'id': 0, 'kind': case['kind'], 'stream': case.get('stream') or 'valid', 'maxlen': case['maxlen'],
                'init': [unrepr(x) for x in case['init']]}
        if case.get('init_fail'):
            spec['init_fail'] = case['init_fail']
        if case.get('contend'):
            spec['contend'] = case['contend']
            print('every call below runs while another connection holds the write lock (released after k failed BEGIN attempts; [k, again]): %r' % (case['contend'],))
        ops = [(op, [unrepr(a) for a in args]) for op, args in case['ops']]
        hist, div = run_history(spec, ops, lambda: tempfile.mkdtemp(prefix='c11r-'))
        print('Deque kind=%s maxlen=%r init=%r' % (spec['kind'], spec['maxlen'], spec['init']))
        for e in hist['events']:
            print('  %s%r -> %r   contents %r' % (e['op'], tuple(e['args']), e['res'], e['contents']))
        if div is None:
            print('no divergence from collections.deque')
            return True
        where = 'construction' if div['index'] < 0 else 'op #%d %s' % (div['index'], ops[div['index']][0])
        print('DIVERGENCE (%s) at %s: %s' % (div['sig'], where, div['desc']))
        print('  expected (collections.deque): %s' % div['expected'])
        print('  observed (diskcache.Deque):   %s' % div['observed'])
        return False
    if check == 'deque_handle_race':
        r = handle_race_run(case, lambda: tempfile.mkdtemp(prefix='c11r-'))
        if r['overflow']:
            print('scheduler step bound exceeded; run discarded')
            return True
        print('Deque maxlen=%r init=%r; client 0 creates a handle by %s, client 1 runs %r' % (case['maxlen'], case['init'], case['way'], case['writer']))
        print('  log:', ' '.join('%d:%s' % (c, w) for c, w in r['log']))
        for sig, desc in r['problems']:
            print('  %s: %s' % (sig, desc))
        return not r['problems']
    if check == 'deque_conc':
        r = conc_run(case['scenario'], case['items'], case['attempts'], case['schedule_used'],
                     lambda: tempfile.mkdtemp(prefix='c11r-'))
        if r['overflow']:
            print('scheduler step bound exceeded; run discarded')
            return True
        print('scenario %s items=%r attempts=%r steps=%d' % (case['scenario'], case['items'], case['attempts'], r['steps']))
        print('  appended :', r['appended'])
        print('  popped   :', r['popped'])
        print('  remaining:', r['remaining'])
        for sig, desc in r['problems']:
            print('  %s: %s' % (sig, desc))
        return not r['problems']
    print('replay payload:', payload)
    return True
