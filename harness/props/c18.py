"""C18 -- data and settings persist and are shared by every handle on the directory; the released format stays readable.

MONITOR (reference dictionary written here, independent of the Coq model): histories of
set/add/incr/delete/touch (+ push/pull on Cache; append/appendleft/pop/popleft on Deque; set/delete/pop on Index)
with ttls under the virtual clock, inline and file-backed values, on Cache, FanoutCache, Deque, Index and
DjangoCache, created with non-default settings and with both Disk classes.  At random points one of
  close / reopen (new object) / pickle-unpickle / copy / other thread / fork (child reads everything, writes,
  exits; parent continues) / new process (subprocess importing diskcache from fw.REPO)
happens; after each, every key is read through the (new) handle and compared with the reference, and the
settings seen through the handle are compared with the creation settings (size_limit of a FanoutCache: the share
of a shard; the former finding C18-F1 / D17 -- a reopen reset it to the default share -- is repaired, its witness
stays in the settings-merge monitor as a regression input).
GOLDEN DIRECTORY: fixtures/golden-5.6.3 (written once by the pinned release) is copied to a scratch directory
and read with the current code: every recorded item (all key and value representations, expire time, tag),
the settings, the queue keys, the shard of every FanoutCache key, the Deque and the Index; then a write.
SUSPENDED ITERATORS: a handle whose key iterator is partially consumed (iter / reversed / iterkeys / Index views; Cache,
FanoutCache, Index, Deque) must still see at once what another handle, thread, process or forked child commits, and its
own writes must succeed (suspended_iterators).
CORRESPONDENCE: the settings-merge model (model/Open.v over gen/Gen_Format.v) against Cache / FanoutCache
opened with random stored and given settings: settings seen and Settings table afterwards (fw.coq_mismatches).
"""
import copy
import json
import os
import pickle
import shutil
import sqlite3
import subprocess
import sys
import tempfile
import threading

import fw
import instr
import val
from instr import core, diskcache

ID = 'C18'
COQ_PROP = 'C18'
LEVEL = 'proof'
TRANSLATE = ['format', 'disk', 'fanout', 'persistent', 'sql']
TRUSTED = [
    'coq/model/Format_5_6_3.v: hand copy of the released on-disk format (schema, settings, file layout, queue keys, shard naming, key/value/lookup/routing decision trees) made once from git revision 5a4f96f; the golden directory fixtures/golden-5.6.3 written by that revision is read back on every run',
    'coq/model/Open.v: dictionaries as assignment sequences (last pair wins), INSERT OR REPLACE / INSERT OR IGNORE of the Settings table; compared with Cache / FanoutCache on random stored and given settings on every run',
    'tools/emit_format.py templates of Cache.__init__, FanoutCache.__init__, Disk.filename, __getstate__/__setstate__ (AST equality outside the holes)',
    'visibility across threads, processes and fork, thread-local connections and the pid check of Cache._con are runtime behaviour of SQLite and CPython: exercised by the monitor of this check, not proved',
]
ASSUMPTIONS = [
    'a handle is reopened with the same disk class (the disk class is part of the handle, not of the directory)',
    'no eviction during the histories (size_limit far above the data; culling of expired items is invisible to lookups)',
    'clock and ttl values on the 2^-10 grid; a lookup never happens exactly at an expiry time',
    'Deque/Index are always opened with eviction_policy none (persistent.py passes it on every open)',
    'POSIX',
    'sub-containers of a FanoutCache / DjangoCache: the second handle on the sub-directory is opened with the Disk class of the parent (settings: the stored ones); '
    'a Deque over JSONDisk cannot be iterated or indexed even through one handle (JSONDisk.get is applied to the integer queue keys), so there its length and both ends '
    'are compared after every step and the whole sequence when it is taken out item by item at the end',
    'settings histories: resets complete one after another (no two writers of one setting at the same time); a handle that does not reload keeps '
    'the value it loaded (documented: settings attributes are loaded lazily, reset(key) refreshes them), so only handles that (re)load are compared; '
    'size_limit of a FanoutCache is the share of a shard at creation (total / shards) and whatever reset(size_limit, v) stored afterwards '
    '(FanoutCache.reset stores v in every shard undivided)',
    'suspended iterators: writers run one after another (no lock is held when the handle with the suspended iterator reads or writes), so a '
    'Timeout or a missing item there cannot be excused by contention; a write that makes no progress for 3 s is reported as blocked',
]

IMPORTS = ['DCPrelude', 'FormatBase', 'Gen_Format', 'Open']
GOLDEN = os.path.join(fw.VERIF, 'fixtures', 'golden-5.6.3')
HARNESS = os.path.dirname(os.path.dirname(os.path.abspath(__file__)))

KEYS = ['a', 'b', 'k\xe9', 'long-key-' + 'x' * 40, -7, 2 ** 60]      # numeric keys outside the queue range (0, 999999999999999)
VALUES = [0, 5, -3, 2.5, 'v', 'text ' * 30, b'by', b'B' * 300, (1, 'x'), {'d': [1, 2, 3] * 20}, None, 'line\nline\n' * 10]
JVALUES = [0, 5, 'v', 'text ' * 30, [1, 'x'], {'d': [1, 2, 3] * 20}, None]
KINDS = ['cache', 'fanout', 'deque', 'index', 'django']
EVENTS = ['close', 'reopen', 'pickle', 'copy', 'thread', 'fork', 'process']
SHARDS = 2


def default_settings():
    return dict(core.DEFAULT_SETTINGS)


# ---------------------------------------------------------------------------
# handles


def make_handle(kind, d, disk, settings, create=True):
    """settings are passed only at creation; a reopen passes the handle parameters (disk class) only"""
    dk = getattr(diskcache, disk)
    kw = dict(settings) if create else {}
    if kind == 'cache':
        return diskcache.Cache(d, disk=dk, **kw)
    if kind == 'fanout':
        return diskcache.FanoutCache(d, shards=SHARDS, timeout=5, disk=dk, **kw)     # generous timeout: no false Timeout under load
    if kind == 'deque':
        if create:
            return diskcache.Deque.fromcache(diskcache.Cache(d, disk=dk, **dict(kw, eviction_policy='none')))
        return diskcache.Deque(directory=d)
    if kind == 'index':
        if create:
            return diskcache.Index.fromcache(diskcache.Cache(d, disk=dk, **dict(kw, eviction_policy='none')))
        return diskcache.Index(d)
    if kind == 'django':
        from django.conf import settings as dj
        if not dj.configured:
            dj.configure()
        from diskcache.djangocache import DjangoCache
        # Django builds the backend from its configuration on every start: OPTIONS are the creation settings
        return DjangoCache(d, {'SHARDS': SHARDS, 'DATABASE_TIMEOUT': 5, 'OPTIONS': dict(settings, disk=dk) if create else {'disk': dk}})
    raise ValueError(kind)


def inner(kind, h):
    """the object carrying the settings attributes"""
    if kind in ('deque', 'index'):
        return h.cache
    if kind == 'django':
        return h._cache
    return h


def close_handle(kind, h):
    try:
        if kind in ('deque', 'index'):
            h.cache.close()
        else:
            h.close()
    except Exception:
        pass


def seen_settings(kind, h):
    c = inner(kind, h)
    return {k: getattr(c, k) for k in core.DEFAULT_SETTINGS}


def expected_settings(kind, settings):
    s = default_settings()
    s.update(settings)
    if kind in ('deque', 'index'):
        s['eviction_policy'] = 'none'
    if kind in ('fanout', 'django'):
        s['size_limit'] = s['size_limit'] / SHARDS
    return s


# ---------------------------------------------------------------------------
# reference


class Ref:
    def __init__(self, kind):
        self.kind = kind
        self.items = {}      # key -> [value, expire_time or None]
        self.queue = []      # Cache queue without prefix: [(key, value)]
        self.seq = []        # deque
        self.pairs = []      # index: ordered (key, value)

    def live(self, k, now):
        it = self.items.get(k)
        return it is not None and (it[1] is None or it[1] > now)


def apply_op(kind, h, ref, op, clock):
    """Applies op to the handle and to the reference; returns a description of a wrong result or None."""
    now = clock.now
    name = op[0]
    if kind in ('cache', 'fanout', 'django'):
        dj = kind == 'django'
        if name == 'set':
            _, k, v, ttl = op
            r = h.set(k, v, ttl) if dj else h.set(k, v, expire=ttl)
            ref.items[k] = [v, None if ttl is None else now + ttl]
            return None if r else 'set returned %r' % (r,)
        if name == 'add':
            _, k, v, ttl = op
            r = h.add(k, v, ttl) if dj else h.add(k, v, expire=ttl)
            want = not ref.live(k, now)
            if want:
                ref.items[k] = [v, None if ttl is None else now + ttl]
            return None if bool(r) == want else 'add returned %r, expected %r' % (r, want)
        if name == 'incr':
            _, k, delta = op
            if ref.live(k, now):
                if type(ref.items[k][0]) is not int:
                    return None
                want = ref.items[k][0] + delta
                ref.items[k][0] = want
            else:
                if dj:
                    return None          # ValueError by contract (C19)
                want = delta
                ref.items[k] = [want, None]
            r = h.incr(k, delta)
            return None if r == want else 'incr returned %r, expected %r' % (r, want)
        if name == 'delete':
            _, k = op
            want = ref.live(k, now)
            ref.items.pop(k, None)
            r = h.delete(k)
            return None if bool(r) == want else 'delete returned %r, expected %r' % (r, want)
        if name == 'touch':
            _, k, ttl = op
            want = ref.live(k, now)
            if want:
                ref.items[k][1] = None if ttl is None else now + ttl
            r = h.touch(k, ttl) if dj else h.touch(k, expire=ttl)
            return None if bool(r) == want else 'touch returned %r, expected %r' % (r, want)
        if name == 'push' and kind == 'cache':
            _, v = op
            key = ref.queue[-1][0] + 1 if ref.queue else 500000000000000
            ref.queue.append((key, v))
            r = h.push(v)
            return None if r == key else 'push returned key %r, expected %r' % (r, key)
        if name == 'pull' and kind == 'cache':
            want = ref.queue.pop(0) if ref.queue else (None, None)
            r = h.pull()
            return None if (r[0] == want[0] and val.same(r[1], want[1])) else 'pull returned %r, expected %r' % (r, want)
        return None
    if kind == 'deque':
        if name == 'append':
            h.append(op[1])
            ref.seq.append(op[1])
        elif name == 'appendleft':
            h.appendleft(op[1])
            ref.seq.insert(0, op[1])
        elif name in ('pop', 'popleft'):
            if not ref.seq:
                return None
            want = ref.seq.pop() if name == 'pop' else ref.seq.pop(0)
            r = h.pop() if name == 'pop' else h.popleft()
            return None if val.same(r, want) else '%s returned %r, expected %r' % (name, r, want)
        return None
    if kind == 'index':
        if name == 'set':
            _, k, v, _ttl = op
            h[k] = v
            for i, (kk, _) in enumerate(ref.pairs):
                if kk == k and type(kk) is type(k):
                    ref.pairs[i] = (k, v)
                    break
            else:
                ref.pairs.append((k, v))
        elif name == 'delete':
            _, k = op
            present = [i for i, (kk, _) in enumerate(ref.pairs) if kk == k]
            if present:
                del h[k]
                del ref.pairs[present[0]]
        return None
    return None


def read_all(kind, h, ref, clock):
    """Reads everything through h; returns list of discrepancies against the reference."""
    bad = []
    now = clock.now
    if kind in ('cache', 'fanout', 'django'):
        for k in KEYS + [x for x in ref.items if x not in KEYS]:
            got = h.get(k)
            want = ref.items[k][0] if ref.live(k, now) else None
            if not val.same(got, want):
                bad.append('get(%r) = %r, reference %r' % (k, short(got), short(want)))
        if kind == 'cache':
            got = h.peek()
            want = ref.queue[0] if ref.queue else (None, None)
            if not (got[0] == want[0] and val.same(got[1], want[1])):
                bad.append('peek() = %r, reference %r' % (short(got), short(want)))
    elif kind == 'deque':
        got = list(h)
        if not val.same(got, ref.seq):
            bad.append('list(deque) = %r, reference %r' % (short(got), short(ref.seq)))
    elif kind == 'index':
        got = list(h.items())
        if not val.same(got, ref.pairs):
            bad.append('list(index.items()) = %r, reference %r' % (short(got), short(ref.pairs)))
    return bad


def short(v):
    r = repr(v)
    return r if len(r) < 70 else r[:50] + '...(%d chars)' % len(r)


# ---------------------------------------------------------------------------
# the subprocess side


def worker_main():
    """stdin: JSON {kind, dir, disk, now, write}; stdout: JSON {reads: pickle hex, settings: pickle hex}"""
    req = json.load(sys.stdin)
    clock = instr.Clock(req['now'])
    with instr.Installed(clock):
        h = make_handle(req['kind'], req['dir'], req['disk'], req.get('settings', {}), create=(req['kind'] == 'django'))
        kind = req['kind']
        out = {}
        if kind in ('cache', 'fanout', 'django'):
            keys = pickle.loads(bytes.fromhex(req['keys']))
            out['reads'] = pickle.dumps([(k, h.get(k)) for k in keys], protocol=2).hex()
            k, v = pickle.loads(bytes.fromhex(req['write']))
            h.set(k, v)
        elif kind == 'deque':
            out['reads'] = pickle.dumps(list(h), protocol=2).hex()
            h.append(pickle.loads(bytes.fromhex(req['write']))[1])
        else:
            out['reads'] = pickle.dumps(list(h.items()), protocol=2).hex()
            k, v = pickle.loads(bytes.fromhex(req['write']))
            h[k] = v
        out['settings'] = pickle.dumps(seen_settings(kind, h), protocol=2).hex()
        close_handle(kind, h)
    json.dump(out, sys.stdout)


def in_process(kind, d, disk, ref, clock, tagn, settings):
    env = dict(os.environ)
    env['VERIF_REPO'] = fw.REPO
    env['PYTHONPATH'] = os.pathsep.join([fw.REPO, HARNESS])
    env['PYTHONHASHSEED'] = '0'
    env['PYTHONDONTWRITEBYTECODE'] = '1'
    wkey, wval = 'proc-%d' % tagn, 'written by process %d' % tagn
    req = {'kind': kind, 'dir': d, 'disk': disk, 'now': clock.now, 'settings': settings,
           'keys': pickle.dumps(KEYS + [x for x in ref.items if x not in KEYS], protocol=2).hex(),
           'write': pickle.dumps((wkey, wval), protocol=2).hex()}
    p = subprocess.run([fw.PY, os.path.abspath(__file__), 'worker'], input=json.dumps(req), capture_output=True, text=True, env=env, timeout=120)
    if p.returncode != 0:
        return ['subprocess failed: ' + p.stderr[-300:]], None
    out = json.loads(p.stdout)
    bad = []
    reads = pickle.loads(bytes.fromhex(out['reads']))
    if kind in ('cache', 'fanout', 'django'):
        for k, got in reads:
            want = ref.items[k][0] if ref.live(k, clock.now) else None
            if not val.same(got, want):
                bad.append('in a new process get(%r) = %s, reference %s' % (k, short(got), short(want)))
        ref.items[wkey] = [wval, None]
    elif kind == 'deque':
        if not val.same(reads, ref.seq):
            bad.append('in a new process list(deque) = %s, reference %s' % (short(reads), short(ref.seq)))
        ref.seq.append(wval)
    else:
        if not val.same(reads, ref.pairs):
            bad.append('in a new process items = %s, reference %s' % (short(reads), short(ref.pairs)))
        ref.pairs.append((wkey, wval))
    return bad, pickle.loads(bytes.fromhex(out['settings']))


def in_fork(kind, h, ref, clock, tagn):
    """child: read everything, write one item, report; parent: wait, account for the write, continue"""
    r, w = os.pipe()
    wkey, wval = 'fork-%d' % tagn, 'written by forked child %d' % tagn
    pid = os.fork()
    if pid == 0:
        code = 1
        try:
            os.close(r)
            bad = read_all(kind, h, ref, clock)
            if kind in ('cache', 'fanout', 'django'):
                h.set(wkey, wval)
            elif kind == 'deque':
                h.append(wval)
            else:
                h[wkey] = wval
            os.write(w, json.dumps({'bad': bad, 'settings': pickle.dumps(seen_settings(kind, h), protocol=2).hex()}).encode())
            os.close(w)
            code = 0
        finally:
            os._exit(code)
    os.close(w)
    data = b''
    while True:
        chunk = os.read(r, 65536)
        if not chunk:
            break
        data += chunk
    os.close(r)
    _, status = os.waitpid(pid, 0)
    if status != 0 or not data:
        return ['forked child failed (status %r)' % status], None
    out = json.loads(data.decode())
    if kind in ('cache', 'fanout', 'django'):
        ref.items[wkey] = [wval, None]
    elif kind == 'deque':
        ref.seq.append(wval)
    else:
        ref.pairs.append((wkey, wval))
    return ['in the forked child ' + b for b in out['bad']], pickle.loads(bytes.fromhex(out['settings']))


# ---------------------------------------------------------------------------
# histories


def gen_history(rng, kind, disk, n):
    vals = JVALUES if disk == 'JSONDisk' else VALUES
    steps = []
    for _ in range(n):
        x = rng.random()
        if x < 0.22:
            steps.append(['ev', rng.choice(EVENTS)])
        elif x < 0.34:
            steps.append(['tick', rng.choice([2, 4, 8])])
        else:
            k = rng.randrange(len(KEYS))
            v = rng.randrange(len(vals))
            ttl = rng.choice([None, None, 5.25, 21.25])
            if kind in ('cache', 'fanout', 'django'):
                names = ['set', 'set', 'add', 'delete', 'touch']
                if disk == 'Disk':
                    names.append('incr')
                if kind == 'cache':
                    names += ['push', 'pull']
                nm = rng.choice(names)
                if kind == 'django' and type(KEYS[k]) is not str:
                    k = 0
                steps.append({'set': ['set', k, v, ttl], 'add': ['add', k, v, ttl], 'incr': ['incr', k, rng.choice([1, -2, 10])],
                              'delete': ['delete', k], 'touch': ['touch', k, ttl], 'push': ['push', v], 'pull': ['pull']}[nm])
            elif kind == 'deque':
                nm = rng.choice(['append', 'append', 'appendleft', 'pop', 'popleft'])
                steps.append([nm, v] if nm.startswith('app') else [nm])
            else:
                nm = rng.choice(['set', 'set', 'delete'])
                steps.append(['set', k, v, None] if nm == 'set' else ['delete', k])
    return steps


def gen_settings(rng, kind):
    s = {}
    if rng.random() < 0.8:
        s['eviction_policy'] = rng.choice(['least-recently-stored', 'least-recently-used', 'least-frequently-used', 'none'])
    if rng.random() < 0.6:
        s['cull_limit'] = rng.choice([0, 10, 3])
    if rng.random() < 0.5:
        s['statistics'] = 1
    if rng.random() < 0.5:
        s['tag_index'] = 1
    if s.get('cull_limit') == 0 and rng.random() < 0.6:
        # with cull_limit 0 no call evicts, so a directory may legitimately stay ABOVE its size limit (an empty database file is
        # already larger than these): everything written must still be there for every handle opened later
        s['size_limit'] = rng.choice([1, 4096, 40000])
    s['disk_min_file_size'] = rng.choice([0, 8, 100, 2 ** 15])
    if rng.random() < 0.6:
        s['disk_pickle_protocol'] = rng.choice([0, 2, pickle.HIGHEST_PROTOCOL])
    return s


def decode_step(step, disk):
    vals = JVALUES if disk == 'JSONDisk' else VALUES
    nm = step[0]
    if nm in ('set', 'add'):
        return (nm, KEYS[step[1]], vals[step[2]], step[3])
    if nm == 'incr':
        return (nm, KEYS[step[1]], step[2])
    if nm == 'delete':
        return (nm, KEYS[step[1]])
    if nm == 'touch':
        return (nm, KEYS[step[1]], step[2])
    if nm in ('push', 'append', 'appendleft'):
        return (nm, vals[step[1]])
    return (nm,)


def settings_diff(kind, want, got):
    return sorted(k for k in core.DEFAULT_SETTINGS if not (type(got.get(k)) in (int, float, str) and got.get(k) == want[k]))


def run_history(ctx_scratch, case):
    """Executes one history.  Returns list of (sig, description)."""
    kind, disk, settings, steps = case['kind'], case['disk'], case['settings'], case['steps']
    d = os.path.join(ctx_scratch, 'dir')
    out = []
    clock = instr.Clock(1000.0)
    want = expected_settings(kind, settings)
    with instr.Installed(clock):
        h = make_handle(kind, d, disk, settings, create=True)
        ref = Ref(kind)
        tagn = 0

        def check_settings(label, got):
            diff = settings_diff(kind, want, got)
            if diff:
                out.append(('settings_changed:%s' % '+'.join(diff), 'after %s the handle shows %r, created with %r'
                            % (label, {k: got.get(k) for k in diff}, {k: want[k] for k in diff})))
        check_settings('creation', seen_settings(kind, h))
        for si, step in enumerate(steps):
            where = 'step %d %r' % (si, step)
            try:
                if step[0] == 'tick':
                    clock.advance(step[1] + 0.5)
                    continue
                if step[0] == 'ev':
                    ev = step[1]
                    tagn += 1
                    got_settings = None
                    bad = []
                    if ev == 'close':
                        close_handle(kind, h)
                    elif ev == 'reopen':
                        old = h
                        h = make_handle(kind, d, disk, settings, create=(kind == 'django'))
                        close_handle(kind, old)
                        got_settings = seen_settings(kind, h)
                    elif ev in ('pickle', 'copy'):
                        if kind == 'django' or (ev == 'copy' and kind in ('deque', 'index')):
                            continue        # DjangoCache is built from configuration; Deque.copy / Index copy make a NEW directory
                        h2 = pickle.loads(pickle.dumps(h)) if ev == 'pickle' else copy.copy(h)
                        if type(inner(kind, h2).disk) is not type(inner(kind, h).disk):
                            out.append(('handle_lost_disk_class', 'after %s the handle uses %s instead of %s'
                                        % (ev, type(inner(kind, h2).disk).__name__, type(inner(kind, h).disk).__name__)))
                        close_handle(kind, h)
                        h = h2
                        got_settings = seen_settings(kind, h)
                    elif ev == 'thread':
                        box = []

                        def body():
                            try:
                                box.append(read_all(kind, h, ref, clock))
                                if kind in ('cache', 'fanout', 'django'):
                                    h.set('thread-%d' % tagn, tagn)
                                    ref.items['thread-%d' % tagn] = [tagn, None]
                                close_handle(kind, h)       # closes this thread's connection only
                            except Exception as e:  # noqa
                                box.append(['thread raised %r' % e])
                        t = threading.Thread(target=body)
                        t.start()
                        t.join()
                        bad += ['in another thread ' + b for b in (box[0] if box else ['no result'])]
                    elif ev == 'fork':
                        b, got_settings = in_fork(kind, h, ref, clock, tagn)
                        bad += b
                    elif ev == 'process':
                        b, got_settings = in_process(kind, d, disk, ref, clock, tagn, settings)
                        bad += b
                    if got_settings is not None:
                        check_settings(ev, got_settings)
                    bad += read_all(kind, h, ref, clock)
                    for b in bad[:3]:
                        out.append(('lost_or_altered:%s' % ev, 'after %s (%s): %s' % (ev, where, b)))
                    if bad:
                        break
                    continue
                r = apply_op(kind, h, ref, decode_step(step, disk), clock)
                if r:
                    out.append(('wrong_result:%s' % step[0], '%s: %s' % (where, r)))
                    break
            except Exception as e:  # noqa
                import traceback
                out.append(('raised:%s' % type(e).__name__, '%s raised %s' % (where, traceback.format_exc()[-500:])))
                break
        else:
            bad = read_all(kind, h, ref, clock)
            for b in bad[:3]:
                out.append(('lost_or_altered:final', 'at the end: %s' % b))
        close_handle(kind, h)
    return out


def histories(ctx, res, n_hist, n_steps):
    rng = ctx.rng
    ev_hist = {e: 0 for e in EVENTS}
    kind_hist = {}
    op_hist = {}
    for hi in range(n_hist):
        kind = KINDS[hi % len(KINDS)]
        disk = 'JSONDisk' if (kind in ('cache', 'fanout') and rng.random() < 0.3) else 'Disk'
        settings = gen_settings(rng, kind)
        if kind in ('cache', 'fanout', 'django') and rng.random() < 0.5:
            s_l = rng.choice([2 ** 25, 2 ** 27])
            settings['size_limit'] = s_l
        if disk == 'JSONDisk':
            settings['disk_compress_level'] = rng.choice([1, 6])
        case = {'check': 'history', 'kind': kind, 'disk': disk, 'settings': settings, 'steps': gen_history(rng, kind, disk, n_steps)}
        for s in case['steps']:
            if s[0] == 'ev':
                ev_hist[s[1]] += 1
            else:
                op_hist[s[0]] = op_hist.get(s[0], 0) + 1
        kind_hist[kind + '/' + disk] = kind_hist.get(kind + '/' + disk, 0) + 1
        wd = ctx.scratch('c18h')
        found = run_history(wd, case)
        shutil.rmtree(wd, ignore_errors=True)
        res.count(['history', kind, disk, sorted(settings.items()), case['steps']], nontrivial=any(s[0] == 'ev' for s in case['steps']))
        for sig, desc in found:
            res.violations.append(fw.Violation(sig, desc, case))
        if hi < 3:
            res.sample({'kind': kind, 'disk': disk, 'settings': settings, 'steps': case['steps'][:25]})
    res.extra.update({'handle_events': ev_hist, 'histories_by_kind_and_disk': kind_hist, 'operations': op_hist})


# ---------------------------------------------------------------------------
# golden directory


def golden(ctx, res):
    work = ctx.scratch('c18gold')
    d = os.path.join(work, 'g')
    shutil.copytree(GOLDEN, d)
    with open(os.path.join(d, 'contents.json')) as f:
        doc = json.load(f)
    n = 0

    def schema(path):
        con = sqlite3.connect(path)
        try:
            return sorted((t, nm, ' '.join(sql.split())) for t, nm, sql in con.execute('SELECT type, name, sql FROM sqlite_master WHERE sql IS NOT NULL'))
        finally:
            con.close()
    released_schema = schema(os.path.join(d, 'cache', 'cache.db'))      # the scratch copy, before anything opens it
    res.extra['golden_schema_objects'] = len(released_schema)

    def bad(sig, desc, **extra):
        res.violations.append(fw.Violation(sig, desc, dict({'check': 'golden'}, **extra)))
    fresh = diskcache.Cache(os.path.join(work, 'fresh'), **{k: doc['cache_settings'][k] for k in ('tag_index', 'eviction_policy')})
    fresh.close()
    now_schema = schema(os.path.join(work, 'fresh', core.DBNAME))
    if now_schema != released_schema:
        diff = [x for x in now_schema if x not in released_schema] + [x for x in released_schema if x not in now_schema]
        bad('golden_schema', 'a cache created by the current code has another schema than the released one: %r' % (diff[:2],))
    c = diskcache.Cache(os.path.join(d, 'cache'))
    f = diskcache.FanoutCache(os.path.join(d, 'fanout'), shards=3)
    try:
        for it in doc['items']:
            key = pickle.loads(bytes.fromhex(it['key']))
            value = pickle.loads(bytes.fromhex(it['value']))
            h = c if it['where'] == 'cache' else f
            n += 1
            res.count(['golden', it['where'], it['key_repr']], nontrivial=True)
            try:
                got = h.get(key, default='<missing>', expire_time=True, tag=True)
            except Exception as e:  # noqa
                bad('golden_unreadable:%s' % it['where'], 'reading key %s of the released-format directory raised %r' % (it['key_repr'], e), key=it['key_repr'])
                continue
            if not (val.same(got[0], value) and got[1] == it['expire_time'] and got[2] == it['tag']):
                bad('golden_unreadable:%s' % it['where'], 'key %s of the released-format directory reads %s (expire %r, tag %r), recorded %s (expire %r, tag %r)'
                    % (it['key_repr'], short(got[0]), got[1], got[2], short(value), it['expire_time'], it['tag']), key=it['key_repr'])
        got = {k: getattr(c, k) for k in core.DEFAULT_SETTINGS}
        if got != doc['cache_settings']:
            bad('golden_settings', 'settings of the released-format cache read %r, recorded %r'
                % ({k: v for k, v in got.items() if doc['cache_settings'].get(k) != v}, {k: v for k, v in doc['cache_settings'].items() if got.get(k) != v}))
        if len(c) != doc['cache_rows'] or len(f) != doc['fanout_len']:
            bad('golden_count', 'len() of the released-format caches is %d / %d, recorded %d / %d' % (len(c), len(f), doc['cache_rows'], doc['fanout_len']))
        for khex, shard in doc['fanout_shard_of'].items():
            key = pickle.loads(bytes.fromhex(khex))
            n += 1
            res.count(['golden-route', khex], nontrivial=True)
            now_shard = f._hash(key) % 3
            sc = diskcache.Cache(os.path.join(d, 'fanout', '%03d' % shard))
            present = key in sc
            sc.close()
            if now_shard != shard or not present:
                bad('golden_routing', 'key %r was stored in shard %d by the release; the current code routes it to %d (present in the recorded shard: %s)'
                    % (key, shard, now_shard, present), key=repr(key))
        qk = [pickle.loads(bytes.fromhex(x)) for x in doc['queue_keys']]
        # numeric keys of the fixture inside (0, 999999999999999) are queue members by design: look the pushed items up by key
        looked = [c.get(k) for k in qk[:3]] + [c.pull(prefix='pre') for _ in range(2)]
        if looked != ['q0', 'q1', 'q2', (qk[3], 'p0'), (qk[4], 'p1')] or c.peek(side='back')[0] != qk[2]:
            bad('golden_queue', 'queue items of the released-format cache read %r (back of the queue %r), recorded keys %r' % (looked, c.peek(side='back'), qk))
        # a write still works, and the directory is consistent
        c['new-key'] = 'new value ' * 20
        f['new-key'] = b'n' * 200
        if c['new-key'] != 'new value ' * 20 or f['new-key'] != b'n' * 200 or c.push('x') != qk[2] + 1 or c.push('y', prefix='fresh') != 'fresh-500000000000000':
            bad('golden_write', 'writing into the released-format directory does not read back')
        import warnings as _w
        with _w.catch_warnings():
            _w.simplefilter('always')
            ws = [str(w.message) for w in c.check()] + [str(w.message) for w in f.check()]
        if ws:
            bad('golden_check', 'check() on the released-format directory reports %r' % ws[:3])
    except Exception as e:  # noqa
        import traceback
        bad('golden_unreadable:cache', 'reading the released-format directory raised %s' % traceback.format_exc()[-400:])
    finally:
        c.close()
        f.close()

    def guarded(part, fn):
        try:
            fn()
        except Exception as e:  # noqa
            import traceback
            bad('golden_unreadable:%s' % part, 'reading the released-format %s raised %s' % (part, traceback.format_exc()[-400:]))

    def deque_part():
        dq = diskcache.Deque(directory=os.path.join(d, 'deque'))
        try:
            want = pickle.loads(bytes.fromhex(doc['deque']))
            got = list(dq)
            if not val.same(got, want):
                bad('golden_unreadable:deque', 'released-format Deque reads %s, recorded %s' % (short(got), short(want)))
            dq.append('more')
            if list(dq)[-1:] != ['more']:
                bad('golden_write', 'appending to the released-format Deque does not read back')
        finally:
            dq.cache.close()

    def index_part():
        ix = diskcache.Index(os.path.join(d, 'index'))
        try:
            want = pickle.loads(bytes.fromhex(doc['index']))
            got = list(ix.items())
            if not val.same(got, want):
                bad('golden_unreadable:index', 'released-format Index reads %s, recorded %s' % (short(got), short(want)))
            for k, v in want:
                if not val.same(ix[k], v):
                    bad('golden_unreadable:index', 'released-format Index[%r] reads %s, recorded %s' % (k, short(ix[k]), short(v)))
        finally:
            ix.cache.close()
    guarded('deque', deque_part)
    guarded('index', index_part)
    res.extra['golden_items_read'] = n


# ---------------------------------------------------------------------------
# correspondence: the settings merge


def code_of(v, table):
    if isinstance(v, (int, float)) and not isinstance(v, bool) and v == int(v):
        return int(v)
    key = (type(v).__name__, repr(v))
    if key not in table:
        table[key] = 10 ** 12 + len(table)
    return table[key]


def cdict(pairs, table):
    return fw.clist(['(%s, %s)' % (fw.cstr(k), fw.cz(code_of(v, table))) for k, v in pairs])


def settings_table(d):
    con = sqlite3.connect(os.path.join(d, core.DBNAME))
    try:
        return con.execute('SELECT key, value FROM Settings ORDER BY rowid').fetchall()
    finally:
        con.close()


def merge_want(fan, shards, gd, prev):
    """What a handle opened with the arguments gd must show, from the documentation alone: what is given now (size_limit of a
    FanoutCache: the share of one shard); everything else is what the open before showed; on a new directory the default
    (size_limit of a FanoutCache: the default total / shards)."""
    want = {}
    for k in core.DEFAULT_SETTINGS:
        share = fan and k == 'size_limit'
        if k in gd:
            want[k] = gd[k] / shards if share else gd[k]
        elif prev is not None:
            want[k] = prev[k]
        else:
            want[k] = core.DEFAULT_SETTINGS[k] / shards if share else core.DEFAULT_SETTINGS[k]
    return want


def merge_run(d, fan, shards, opens):
    """Opens the directory d once per element of `opens` (lists of (key, value) arguments).  -> (first violation or None,
    records): a record holds the Settings table of shard 000 (of the Cache) before and after the open and what the handle showed."""
    sub = os.path.join(d, '000') if fan else d
    prev, viol, recs = None, None, []
    for oi, given in enumerate(opens):
        before = settings_table(sub) if oi else []
        gd = dict(given)
        h = diskcache.FanoutCache(d, shards=shards, **gd) if fan else diskcache.Cache(d, **gd)
        seen = [(k, getattr(h, k)) for k in core.DEFAULT_SETTINGS]
        per = [{k: getattr(c, k) for k in core.DEFAULT_SETTINGS} for c in h._shards] if fan else []
        h.close()
        after = settings_table(sub)
        # monitor (implementation only): what is given now is seen; everything else is what earlier opens left
        want = merge_want(fan, shards, gd, prev)
        case = {'check': 'merge', 'fanout': fan, 'shards': shards, 'opens': [[list(x) for x in g] for g in opens[:oi + 1]]}
        for who, shown in [('the handle', dict(seen))] + [('shard %03d' % i, p_) for i, p_ in enumerate(per)]:
            bad = [k for k in core.DEFAULT_SETTINGS if not (type(shown[k]) in (int, float, str) and shown[k] == want[k])]
            if bad and viol is None:
                k = bad[0]
                viol = ('given_setting_ignored' if k in gd else 'stored_setting_lost',
                        'open number %d of a %s with %r: %s shows %s = %r, expected %r'
                        % (oi + 1, 'FanoutCache(shards=%d)' % shards if fan else 'Cache', gd, who, k, shown[k], want[k]), case)
        prev = dict(seen)
        recs.append({'existed': oi > 0, 'before': before, 'given': list(given), 'seen': seen, 'after': after})
    return viol, recs


# regression input: the witness of the former finding C18-F1 / D17 (FanoutCache(d, shards=2, size_limit=1000).size_limit -> 500.0;
# close; FanoutCache(d, shards=2).size_limit -> 536870912.0 before the repair, 500.0 since); a plain Cache kept its 1000
WITNESS_D17 = [[('size_limit', 1000)], []]


def witness_d17(res):
    d = tempfile.mkdtemp(prefix='c18wit-')
    try:
        for fan, shards, name in ((True, 2, 'f'), (False, 1, 'c')):
            viol, recs = merge_run(os.path.join(d, name), fan, shards, WITNESS_D17)
            res.count(['merge-witness', fan, shards, repr(WITNESS_D17)], nontrivial=True)
            if viol is not None:
                sig, desc, case = viol
                res.violations.append(fw.Violation(sig, desc + ' [regression input: witness of the former finding C18-F1]', case))
            if fan:
                res.extra['regression_witness_C18_F1'] = {'shown_at_creation': dict(recs[0]['seen'])['size_limit'],
                                                         'shown_after_reopen': dict(recs[1]['seen'])['size_limit'], 'passes': viol is None}
    finally:
        shutil.rmtree(d, ignore_errors=True)


def merge_cases(ctx, res, n, model=True):
    rng = ctx.rng
    checks, cases = [], []
    table = {}
    keys = list(core.DEFAULT_SETTINGS) + list(core.METADATA)
    pool = {'statistics': [0, 1], 'tag_index': [0, 1], 'eviction_policy': ['least-recently-stored', 'least-recently-used', 'none'],
            'size_limit': [2 ** 20, 2 ** 24, 2 ** 30], 'cull_limit': [0, 5, 10], 'sqlite_cache_size': [2 ** 10, 2 ** 13],
            'disk_min_file_size': [0, 64, 2 ** 15], 'disk_pickle_protocol': [0, 2, 4], 'sqlite_synchronous': [1, 2]}

    def rand_given():
        ks = rng.sample(sorted(pool), rng.randrange(0, 5))
        return [(k, rng.choice(pool[k])) for k in ks]
    for ci in range(n):
        fan = ci % 3 == 2
        shards = rng.choice([1, 2, 4]) if fan else 1
        d = os.path.join(ctx.scratch('c18m'), 'c')
        opens = [rand_given() for _ in range(rng.randrange(1, 4))]
        if ci < 9:          # directed: the witness of the former finding C18-F1; a plain reopen and one giving another setting; size_limit given late
            opens = [WITNESS_D17, [[('size_limit', 2 ** 20)], [], [('cull_limit', 5)]], [[], [], [('size_limit', 2 ** 24)], []]][ci // 3]
        viol, recs = merge_run(d, fan, shards, opens)
        if viol is not None:
            res.violations.append(fw.Violation(*viol))
        for rec in recs:
            before, given, seen, after = rec['before'], rec['given'], rec['seen'], rec['after']
            D = cdict(list(core.DEFAULT_SETTINGS.items()), table)
            M = cdict(list(core.METADATA.items()), table)
            S = cdict(before, table)
            G = cdict(given, table)
            ks = fw.clist([fw.cstr(k) for k in keys])
            if fan:
                # `existed`: the shard's database file was there before this open (every open after the first)
                ex = 'true' if rec['existed'] else 'false'
                t = ('let dv := fun v : Z => v / %d in same_on %s (fanout_open_settings dv %s %s %s %s) %s && same_on %s (fanout_stored_after dv %s %s %s %s %s) %s'
                     % (shards, ks, ex, D, S, G, cdict(seen, table), ks, ex, M, D, S, G, cdict(after, table)))
            else:
                t = ('same_on %s (open_settings %s %s %s) %s && same_on %s (stored_after %s %s %s %s) %s'
                     % (ks, D, S, G, cdict(seen, table), ks, M, D, S, G, cdict(after, table)))
            checks.append(t)
            cases.append({'fanout': fan, 'shards': shards, 'existed': rec['existed'], 'stored': [[k, repr(v)] for k, v in before],
                          'given': [[k, repr(v)] for k, v in given], 'seen': [[k, repr(v)] for k, v in seen]})
            res.count(['merge', fan, shards, repr(before), repr(given)], nontrivial=bool(given) or bool(before))
    if not model:
        return
    bad, errors = fw.coq_mismatches('c18', IMPORTS, '', checks, chunk=60)
    res.traces_validated += len(checks) - len(bad)
    for e in errors:
        res.disagreements.append(fw.Violation('model-eval', 'model evaluation failed: ' + e[-400:], {}, 'correspondence'))
    for i in bad[:4]:
        res.disagreements.append(fw.Violation('settings_merge', 'model open_settings/stored_after disagrees with %s.__init__'
                                              % ('FanoutCache' if cases[i]['fanout'] else 'Cache'), dict(cases[i], model_check=checks[i][:1200]), 'correspondence'))
    res.extra['model_cases'] = len(checks)
    if checks:
        res.sample({'merge_case': cases[-1], 'model_check': checks[-1][:400]})


# ---------------------------------------------------------------------------


# ---------------------------------------------------------------------------
# a handle with a SUSPENDED key iterator is still a handle: it sees at once what other handles, threads and processes
# commit, and its own writes succeed


class IterStuck(Exception):
    pass


IT_ITERS = {
    'cache': ['iter', 'reversed', 'iterkeys', 'iterkeys_reverse'],
    'fanout': ['iter', 'reversed'],
    'index': ['iter', 'reversed', 'keys', 'values', 'items'],
    'deque': ['iter', 'reversed'],
}
IT_WRITERS = ['handle', 'thread', 'thread_same_object', 'process', 'fork']
IT_BIG = 'F' * 33000          # above the default file threshold


def it_open(kind, d):
    if kind == 'cache':
        return diskcache.Cache(d, timeout=2)
    if kind == 'fanout':
        return diskcache.FanoutCache(d, shards=SHARDS, timeout=2)
    if kind == 'index':
        return diskcache.Index(d)
    return diskcache.Deque(directory=d)


def it_make(kind, h, how):
    if how == 'iter':
        return iter(h)
    if how == 'reversed':
        return reversed(h)
    if how == 'iterkeys':
        return h.iterkeys()
    if how == 'iterkeys_reverse':
        return h.iterkeys(reverse=True)
    return iter(getattr(h, how)())        # Index views: keys / values / items


def it_write(kind, h, items, retry=True):
    """items: [(key, value)]; Deque appends the values"""
    for k, v in items:
        if kind in ('cache', 'fanout'):
            if h.set(k, v, retry=retry) is not True:
                raise RuntimeError('set(%r) returned a false value' % (k,))
        elif kind == 'index':
            h[k] = v
        else:
            h.append(v)


def it_items(writer, j):
    vals = ['written by %s' % writer, ('pickled', writer, j), IT_BIG + writer]
    return [('w-%s-%d-%d' % (writer, j, i), v) for i, v in enumerate(vals)]


def iterworker_main():
    """persistent writer process: one JSON request per line {kind, dir, items(pickle hex)} -> {ok} / {error}"""
    for line in sys.stdin:
        line = line.strip()
        if not line:
            continue
        try:
            req = json.loads(line)
            h = it_open(req['kind'], req['dir'])
            it_write(req['kind'], h, pickle.loads(bytes.fromhex(req['items'])))
            close_handle(req['kind'], h)
            out = {'ok': True}
        except Exception as e:  # noqa
            out = {'error': repr(e)}
        sys.stdout.write(json.dumps(out) + '\n')
        sys.stdout.flush()


class IterWorker:
    def __init__(self):
        env = dict(os.environ)
        env['VERIF_REPO'] = fw.REPO
        env['PYTHONPATH'] = os.pathsep.join([fw.REPO, HARNESS])
        env['PYTHONHASHSEED'] = '0'
        env['PYTHONDONTWRITEBYTECODE'] = '1'
        self.p = subprocess.Popen([fw.PY, os.path.abspath(__file__), 'iterworker'], stdin=subprocess.PIPE, stdout=subprocess.PIPE,
                                  text=True, env=env, bufsize=1)

    def write(self, kind, d, items):
        self.p.stdin.write(json.dumps({'kind': kind, 'dir': d, 'items': pickle.dumps(items, protocol=2).hex()}) + '\n')
        self.p.stdin.flush()
        line = self.p.stdout.readline()
        if not line:
            return 'writer process died (exit %r)' % self.p.poll()
        return json.loads(line).get('error')

    def close(self):
        try:
            self.p.stdin.close()
            self.p.wait(10)
        except Exception:
            self.p.kill()


def it_guard(seconds, f):
    """run f() in this thread; a call that never returns (a retry loop that cannot make progress) is interrupted"""
    import signal
    if threading.current_thread() is not threading.main_thread():
        return f()

    def on_alarm(signum, frame):
        raise IterStuck('no progress for %d s' % seconds)
    old = signal.signal(signal.SIGALRM, on_alarm)
    signal.alarm(seconds)
    try:
        return f()
    finally:
        signal.alarm(0)
        signal.signal(signal.SIGALRM, old)


def it_visible(kind, a, expected_new, total, seq):
    """what handle `a` shows, against what has been committed so far; returns a list of complaints"""
    bad = []
    if kind == 'deque':
        n = len(a)
        if n != len(seq):
            bad.append('len = %d, committed %d' % (n, len(seq)))
        else:
            for i in range(max(0, len(seq) - 3), len(seq)):
                got = a[i]
                if not val.same(got, seq[i]):
                    bad.append('[%d] = %s, committed %s' % (i, short(got), short(seq[i])))
        again = list(a)
        if not val.same(again, seq):
            bad.append('a second, complete iteration gives %d items, committed %d' % (len(again), len(seq)))
        return bad
    for k, v in expected_new:
        try:
            got = a.get(k, '<absent>') if kind != 'index' else a.get(k, '<absent>')
        except Exception as e:  # noqa
            got = '<raised %r>' % e
        if not val.same(got, v):
            bad.append('get(%r) = %s, committed %s' % (k, short(got), short(v)))
        if k not in a:
            bad.append('%r in handle is False' % (k,))
        try:
            got = a[k]
            if not val.same(got, v):
                bad.append('[%r] = %s, committed %s' % (k, short(got), short(v)))
        except KeyError:
            bad.append('[%r] raises KeyError' % (k,))
    n = len(a)
    if n != total:
        bad.append('len = %d, committed %d' % (n, total))
    keys_again = set(a)
    missing = [k for k, _ in expected_new if k not in keys_again]
    if missing:
        bad.append('a second, complete iteration misses %s' % short(missing))
    return bad


def suspended_iterator_case(scratch, case, worker):
    """One scenario.  Returns [(sig, description)]."""
    kind, how, n, consumed, writers = case['kind'], case['iter'], case['n'], case['consumed'], case['writers']
    d = os.path.join(scratch, 'it')
    found = []
    a = it_open(kind, d)
    b = None
    it = None
    try:
        init = [((i if i % 2 == 0 else 'k%d' % i), 'item-%d' % i) for i in range(n)]
        it_write(kind, a, init)
        b = it_open(kind, d)
        seq = [v for _, v in init]
        total = n
        it = it_make(kind, a, how)
        for _ in range(consumed):
            next(it)
        # the iterator of handle a is now suspended
        for j, w in enumerate(writers):
            items = it_items(w, j)
            err = None
            try:
                if w == 'handle':
                    it_write(kind, b, items)
                elif w in ('thread', 'thread_same_object'):
                    box = {}
                    target = b if w == 'thread' else a

                    def job():
                        try:
                            it_write(kind, target, items)
                        except Exception as e:  # noqa
                            box['e'] = repr(e)
                    t = threading.Thread(target=job)
                    t.start()
                    t.join(60)
                    err = box.get('e') or ('thread still running' if t.is_alive() else None)
                elif w == 'process':
                    err = worker.write(kind, d, items)
                elif w == 'fork':
                    pid = os.fork()
                    if pid == 0:
                        code = 1
                        try:
                            h = it_open(kind, d)
                            it_write(kind, h, items)
                            close_handle(kind, h)
                            code = 0
                        finally:
                            os._exit(code)
                    _, status = os.waitpid(pid, 0)
                    err = None if status == 0 else 'forked writer exited with status %r' % status
            except Exception as e:  # noqa
                err = repr(e)
            if err:
                found.append(('suspended_iter:%s:other_writer_failed' % kind,
                              'while an iterator (%s) of another handle is suspended, the write by %s failed: %s' % (how, w, err)))
                continue
            seq += [v for _, v in items]
            total += len(items)
            try:
                bad = it_guard(10, lambda: it_visible(kind, a, items, total, seq))
            except Exception as e:  # noqa
                bad = ['looking up raised %r' % e]
            if bad:
                found.append(('suspended_iter:%s:stale_read' % kind,
                              'handle with a suspended %s iterator (%d of %d keys consumed) does not show what %s committed: %s'
                              % (how, consumed, n, w, '; '.join(bad[:4]))))
        # the handle's own write
        own = it_items('own', 99)
        try:
            it_guard(3, lambda: it_write(kind, a, own, retry=False))      # nobody else holds a lock: no retry needed
            seq += [v for _, v in own]
            total += len(own)
            try:
                bad = it_visible(kind, b, own, total, seq)
            except Exception as e:  # noqa
                bad = ['looking up raised %r' % e]
            if bad:
                found.append(('suspended_iter:%s:own_write_invisible' % kind,
                              'a write through the handle with a suspended %s iterator is not seen by another handle: %s' % (how, '; '.join(bad[:4]))))
        except Exception as e:  # noqa
            found.append(('suspended_iter:%s:own_write_blocked' % kind,
                          'a write through the handle with a suspended %s iterator (%d of %d keys consumed, no transaction open anywhere) '
                          'failed: %r' % (how, consumed, n, e)))
        try:
            for _ in it:
                pass
        except Exception as e:  # noqa
            found.append(('suspended_iter:%s:resume_failed' % kind, 'resuming the suspended %s iterator raised %r' % (how, e)))
    finally:
        it = None
        close_handle(kind, a)
        if b is not None:
            close_handle(kind, b)
        shutil.rmtree(d, ignore_errors=True)
    return found


def suspended_iterators(ctx, res, thorough):
    worker = IterWorker()
    n_run = 0
    try:
        shapes = [(6, 1), (6, 5), (130, 101)] + ([(6, 3), (130, 1), (130, 129), (230, 200)] if thorough else [])
        for kind in ('cache', 'fanout', 'index', 'deque'):
            for hi, how in enumerate(IT_ITERS[kind]):
                for si, (n, consumed) in enumerate(shapes):
                    r = (ctx.seed + hi + si) % len(IT_WRITERS)
                    orders = [IT_WRITERS[r:] + IT_WRITERS[:r]]
                    if thorough:
                        orders.append(list(reversed(orders[0])))
                    for writers in orders:
                        case = {'check': 'suspended_iterator', 'kind': kind, 'iter': how, 'n': n, 'consumed': consumed, 'writers': writers}
                        found = suspended_iterator_case(ctx.scratch('c18it'), case, worker)
                        n_run += 1
                        res.count(['suspended_iterator', kind, how, n, consumed, writers], nontrivial=True)
                        for sig, desc in found:
                            res.violations.append(fw.Violation(sig, desc, case))
    finally:
        worker.close()
    res.extra['suspended_iterator_scenarios'] = n_run


# ---------------------------------------------------------------------------
# settings changed after creation, seen through several handles: the value stored by the last completed
# reset(key, value) -- whoever made it -- is what every handle sees that loads settings afterwards


SH_DOMAIN = {
    'statistics': [0, 1], 'tag_index': [0, 1], 'cull_limit': [0, 5, 10, 50], 'size_limit': [1000, 2 ** 20, 2 ** 30],
    'eviction_policy': ['none', 'least-recently-stored', 'least-recently-used'], 'disk_min_file_size': [0, 64, 2 ** 15],
    'disk_pickle_protocol': [0, 2, 4], 'sqlite_cache_size': [2 ** 10, 2 ** 13], 'sqlite_synchronous': [1, 2],
}
SH_EVENTS = ['reopen', 'close', 'pickle', 'copy', 'fresh', 'fresh', 'process_read', 'fork_read']


def sh_keys(kind):
    return sorted(SH_DOMAIN)


class SettingsRef:
    """stored: what the last completed reset(key, value) / creation left for everybody; mem[h]: what handle h holds
    (loaded when it was opened / unpickled / copied, refreshed per key by reset(key), overwritten by its own reset(key, value))."""

    def __init__(self, kind, init, nh, shards=1):
        self.stored = default_settings()
        self.stored.update(init)
        if kind == 'fanout':
            # creation divides the (given or default) total among the shards: every shard stores, and the handle shows, the share.
            # reset('size_limit', v) afterwards stores v itself in every shard
            self.stored['size_limit'] = self.stored['size_limit'] / shards
        self.mem = [dict(self.stored) for _ in range(nh)]

    def reset(self, h, key, value):
        self.stored[key] = value
        if h is not None:
            self.mem[h][key] = value

    def reload(self, h, key):
        self.mem[h][key] = self.stored[key]

    def load(self, h):
        self.mem[h] = dict(self.stored)


def gen_settings_history(rng, kind, nsteps):
    keys = sh_keys(kind)
    init = {k: rng.choice(SH_DOMAIN[k]) for k in rng.sample(keys, rng.randrange(0, 4))}
    nh = rng.choice([2, 2, 3])
    shards = rng.choice([1, 2, 3]) if kind == 'fanout' else 1
    ref = SettingsRef(kind, init, nh, shards)
    steps = []
    for _ in range(nsteps):
        h = rng.randrange(nh)
        x = rng.random()
        if x < 0.45:
            key = rng.choice(keys)
            # a third of the resets put back the value this handle holds (e.g. undoing what another client changed meanwhile)
            value = ref.mem[h][key] if (rng.random() < 0.35 and ref.mem[h][key] in SH_DOMAIN[key]) else rng.choice(SH_DOMAIN[key])
            how = rng.choice(['reset', 'reset', 'reset', 'thread_reset', 'fork_reset', 'process_reset'])
            if key == 'statistics' and how == 'reset' and rng.random() < 0.5:
                steps.append(['stats', h, value])
            else:
                steps.append([how, h, key, value])
            ref.reset(None if how in ('process_reset', 'fork_reset') else h, key, value)
        elif x < 0.6:
            key = rng.choice(keys)
            steps.append(['reload', h, key])
            ref.reload(h, key)
        else:
            ev = rng.choice(SH_EVENTS)
            steps.append([ev, h])
            if ev in ('reopen', 'pickle', 'copy'):
                ref.load(h)
    return {'check': 'settings_history', 'kind': kind, 'shards': shards, 'init': init, 'handles': nh, 'steps': steps}


def sh_open(kind, d, shards, settings=None):
    kw = dict(settings or {})
    if kind == 'fanout':
        return diskcache.FanoutCache(d, shards=shards, timeout=5, **kw)
    return diskcache.Cache(d, **kw)


def sh_seen(kind, h, d=None, shards=1):
    out = {k: getattr(h, k) for k in sh_keys(kind)}
    return out


def sh_shards_seen(kind, d, shards):
    """the settings of every shard directory, each opened as the Cache it is"""
    per = []
    for i in range(shards):
        c = diskcache.Cache(os.path.join(d, '%03d' % i))
        try:
            per.append({k: getattr(c, k) for k in sh_keys(kind)})
        finally:
            c.close()
    return per


def setworker_main():
    """persistent separate process: one JSON request per line {kind, dir, shards, op: read|reset, key, value} -> {settings} / {error}"""
    for line in sys.stdin:
        line = line.strip()
        if not line:
            continue
        try:
            req = json.loads(line)
            h = sh_open(req['kind'], req['dir'], req['shards'])
            try:
                if req['op'] == 'reset':
                    h.reset(req['key'], req['value'])
                out = {'settings': sh_seen(req['kind'], h)}
            finally:
                h.close()
        except Exception as e:  # noqa
            out = {'error': repr(e)}
        sys.stdout.write(json.dumps(out) + '\n')
        sys.stdout.flush()


class SetWorker:
    def __init__(self):
        env = dict(os.environ)
        env['VERIF_REPO'] = fw.REPO
        env['PYTHONPATH'] = os.pathsep.join([fw.REPO, HARNESS])
        env['PYTHONHASHSEED'] = '0'
        env['PYTHONDONTWRITEBYTECODE'] = '1'
        self.p = subprocess.Popen([fw.PY, os.path.abspath(__file__), 'setworker'], stdin=subprocess.PIPE, stdout=subprocess.PIPE,
                                  text=True, env=env, bufsize=1)

    def ask(self, req):
        self.p.stdin.write(json.dumps(req) + '\n')
        self.p.stdin.flush()
        line = self.p.stdout.readline()
        if not line:
            return {'error': 'settings worker process died (exit %r)' % self.p.poll()}
        return json.loads(line)

    def close(self):
        try:
            self.p.stdin.close()
            self.p.wait(10)
        except Exception:
            self.p.kill()


def sh_fork(f):
    """run f() in a forked child, return its JSON-able result"""
    r, w = os.pipe()
    pid = os.fork()
    if pid == 0:
        code = 1
        try:
            os.close(r)
            os.write(w, json.dumps(f()).encode())
            os.close(w)
            code = 0
        finally:
            os._exit(code)
    os.close(w)
    data = b''
    while True:
        chunk = os.read(r, 65536)
        if not chunk:
            break
        data += chunk
    os.close(r)
    _, status = os.waitpid(pid, 0)
    if status != 0 or not data:
        return {'error': 'forked child failed (status %r)' % status}
    return json.loads(data.decode())


def sh_same(got, want):
    return type(got) in (int, float, str, bool) and got == want


def run_settings_history(scratch, case, worker):
    """-> [(sig, description)]"""
    kind, shards, nh = case['kind'], case.get('shards', 1), case['handles']
    d = os.path.join(scratch, 'sh')
    found = []
    ref = SettingsRef(kind, case['init'], nh, shards)
    keys = sh_keys(kind)
    hs = [sh_open(kind, d, shards, case['init'])]
    hs += [sh_open(kind, d, shards) for _ in range(nh - 1)]

    def compare(event, where, seen, who):
        diff = [k for k in keys if not sh_same(seen.get(k), ref.stored[k])]
        if diff:
            found.append(('settings_shared:%s' % event, '%s: %s shows %r; the values stored last (creation / the last completed reset) are %r' % (
                where, who, {k: seen.get(k) for k in diff}, {k: ref.stored[k] for k in diff})))
        return bool(diff)
    try:
        for si, step in enumerate(case['steps']):
            where = 'step %d %r' % (si, step)
            name, h = step[0], step[1]
            c = hs[h]
            try:
                if name in ('reset', 'thread_reset', 'stats', 'fork_reset', 'process_reset'):
                    key, value = ('statistics', step[2]) if name == 'stats' else (step[2], step[3])
                    ret = value
                    if name == 'reset':
                        ret = c.reset(key, value)
                    elif name == 'stats':
                        c.stats(enable=bool(value))
                    elif name == 'thread_reset':
                        box = {}

                        def job():
                            try:
                                box['r'] = c.reset(key, value)
                            except Exception as e:  # noqa
                                box['e'] = repr(e)
                        t = threading.Thread(target=job)
                        t.start()
                        t.join(60)
                        if 'e' in box:
                            raise RuntimeError('reset in another thread raised ' + box['e'])
                        ret = box.get('r')
                    elif name == 'fork_reset':
                        out = sh_fork(lambda: {'ret': c.reset(key, value)})
                        if 'error' in out:
                            raise RuntimeError(out['error'])
                        ret = out['ret']
                    else:
                        out = worker.ask({'kind': kind, 'dir': d, 'shards': shards, 'op': 'reset', 'key': key, 'value': value})
                        if 'error' in out:
                            raise RuntimeError('reset in another process: ' + out['error'])
                    ref.reset(None if name in ('fork_reset', 'process_reset') else h, key, value)
                    if name in ('reset', 'thread_reset', 'stats'):
                        got = getattr(c, key)
                        if not (sh_same(got, value) and (name == 'stats' or sh_same(ret, value))):
                            found.append(('settings_shared:reset', '%s: reset returned %r and the handle then shows %s = %r' % (where, ret, key, got)))
                            break
                elif name == 'reload':
                    key = step[2]
                    ret = c.reset(key)
                    ref.reload(h, key)
                    got = getattr(c, key)
                    if not (sh_same(ret, ref.stored[key]) and sh_same(got, ref.stored[key])):
                        found.append(('settings_shared:reload', '%s: reset(%r) returned %r and the handle then shows %r; the value stored last is %r' % (
                            where, key, ret, got, ref.stored[key])))
                        break
                elif name == 'close':
                    c.close()
                elif name in ('reopen', 'pickle', 'copy'):
                    if name == 'reopen':
                        c.close()
                        c2 = sh_open(kind, d, shards)
                    else:
                        c2 = pickle.loads(pickle.dumps(c)) if name == 'pickle' else copy.copy(c)
                        c.close()
                    hs[h] = c2
                    ref.load(h)
                    if compare(name, where, sh_seen(kind, c2), 'the handle obtained by %s' % name):
                        break
                elif name == 'fresh':
                    c2 = sh_open(kind, d, shards)
                    try:
                        seen = sh_seen(kind, c2)
                    finally:
                        c2.close()
                    if compare('fresh', where, seen, 'a freshly opened handle'):
                        break
                    if kind == 'fanout':
                        per = sh_shards_seen(kind, d, shards)
                        if any(compare('fresh', where, p_, 'shard %03d opened on its own' % i) for i, p_ in enumerate(per)):
                            break
                elif name == 'process_read':
                    out = worker.ask({'kind': kind, 'dir': d, 'shards': shards, 'op': 'read'})
                    if 'error' in out:
                        raise RuntimeError('another process: ' + out['error'])
                    if compare('process', where, out['settings'], 'a handle opened in another process'):
                        break
                elif name == 'fork_read':
                    def child():
                        c2 = sh_open(kind, d, shards)
                        try:
                            return {'settings': sh_seen(kind, c2)}
                        finally:
                            c2.close()
                    out = sh_fork(child)
                    if 'error' in out:
                        raise RuntimeError(out['error'])
                    if compare('fork', where, out['settings'], 'a handle opened in a forked child'):
                        break
            except Exception as e:  # noqa
                import traceback
                found.append(('settings_shared:raised:%s' % type(e).__name__, '%s raised %s' % (where, traceback.format_exc()[-400:])))
                break
        else:
            c2 = sh_open(kind, d, shards)
            try:
                compare('final', 'at the end', sh_seen(kind, c2), 'a freshly opened handle')
            finally:
                c2.close()
    finally:
        for c in hs:
            try:
                c.close()
            except Exception:  # noqa
                pass
        shutil.rmtree(d, ignore_errors=True)
    return found


def sh_shrink(ctx, case, sig, desc, worker):
    """drop steps while a violation with the same signature remains"""
    steps = list(case['steps'])
    i = len(steps) - 1
    while i >= 0:
        trial = dict(case, steps=steps[:i] + steps[i + 1:])
        hit = [d_ for s_, d_ in run_settings_history(ctx.scratch('c18sh'), trial, worker) if s_ == sig]
        if hit:
            steps, desc = trial['steps'], hit[0]
        i -= 1
    return dict(case, steps=steps), desc


def settings_histories(ctx, res, n_hist, n_steps):
    worker = SetWorker()
    ev_hist = {}
    seen_sigs = {}
    try:
        for hi in range(n_hist):
            kind = ['cache', 'fanout'][hi % 2]
            case = gen_settings_history(ctx.rng, kind, n_steps)
            for s_ in case['steps']:
                ev_hist[s_[0]] = ev_hist.get(s_[0], 0) + 1
            found = run_settings_history(ctx.scratch('c18sh'), case, worker)
            res.count(['settings_history', kind, case['shards'], sorted(case['init'].items()), case['handles'], case['steps']], nontrivial=True)
            for sig, desc in found:
                seen_sigs[sig] = seen_sigs.get(sig, 0) + 1
                if seen_sigs[sig] <= 2:
                    small, sdesc = sh_shrink(ctx, case, sig, desc, worker)
                    res.violations.append(fw.Violation(sig, sdesc, small))
            if hi == 0:
                res.sample({'settings_history': {k: case[k] for k in ('kind', 'shards', 'init', 'handles')}, 'steps': case['steps'][:12]})
    finally:
        worker.close()
    res.extra['settings_history_steps'] = ev_hist
    res.extra['settings_histories'] = n_hist


# ---------------------------------------------------------------------------
# sub-containers handed out by a FanoutCache / DjangoCache: cache(name), deque(name), index(name)

SUB_PARENTS = ['fanout', 'django']
SUB_KINDS = ['cache', 'deque', 'index']
SUB_DISKS = [('Disk', {}), ('Disk', {'disk_min_file_size': 64, 'disk_pickle_protocol': 2}), ('JSONDisk', {}), ('JSONDisk', {'disk_compress_level': 6}),
             ('JSONDisk', {'disk_compress_level': 9, 'disk_min_file_size': 64}), ('JSONDisk', {'disk_compress_level': 0})]
SUB_EVENTS = ['none', 'reopen', 'pickle', 'close']
SUB_NAMES = ['x', 'users/by-id']
JSON_DEQUE_ENDS_ONLY = True


def sub_parent(parent, d, disk, settings):
    return make_handle(parent, d, disk, settings, create=True)


def sub_get(sub, h, name):
    return getattr(h, sub)(name)


def sub_second(sub, subdir, disk):
    """a second handle on the directory of the sub-container, opened with the disk class of the parent (settings: the stored ones)"""
    c = diskcache.Cache(subdir, disk=getattr(diskcache, disk))
    if sub == 'deque':
        return diskcache.Deque.fromcache(c)
    if sub == 'index':
        return diskcache.Index.fromcache(c)
    return c


def sub_write(sub, h, ref, items):
    for k, v in items:
        if sub == 'deque':
            h.append(v)
            ref.append((None, v))
        else:
            h[k] = v
            for i, (k0, _) in enumerate(ref):
                if k0 == k:
                    ref[i] = (k, v)
                    break
            else:
                ref.append((k, v))


def sub_read(sub, h, ref):
    """what the handle shows against the reference: None or a description"""
    try:
        if sub == 'deque' and JSON_DEQUE_ENDS_ONLY and isinstance(h.cache.disk, diskcache.JSONDisk):
            # iterating / indexing a Deque over JSONDisk raises TypeError in JSONDisk.get (the queue keys are plain integers, not JSON text), with one handle
            # alone: not a matter of sharing; the length and both ends are compared here and the whole sequence when it is drained at the end of the case
            want = [v for _, v in ref]
            got = [h.peekleft(), h.peek()] if len(h) else []
            if len(h) != len(want) or got != ([want[0], want[-1]] if want else []):
                return 'deque has len %r and ends %s, written: %s' % (len(h), short(got), short(want))
            return None
        if sub == 'deque':
            got = list(h)
            want = [v for _, v in ref]
            if got != want or len(h) != len(want):
                return 'deque shows %s (len %r), written: %s' % (short(got), len(h), short(want))
            return None
        n = len(h)
        if n != len(ref):
            return 'len %r, %d item(s) written: %s' % (n, len(ref), short([k for k, _ in ref]))
        for k, v in ref:
            got = h.get(k, '<MISSING>')
            if got != v or type(got) is not type(v):
                return 'key %r -> %s, written %s' % (k, short(got), short(v))
            if k not in h:
                return 'key %r not in the container' % (k,)
        keys = list(h)
        want = [k for k, _ in ref]
        if (keys != want) if sub == 'index' else (sorted(map(repr, keys)) != sorted(map(repr, want))):
            return 'keys %s, written %s' % (short(keys), short(want))
        return None
    except Exception as e:  # noqa
        return 'raised %s: %s' % (type(e).__name__, e)


def sub_items(disk, salt):
    vals = JVALUES if disk == 'JSONDisk' else VALUES
    keys = ['a', 'b', 'k\xe9', 'long-key-' + 'x' * 40, 7, 2 ** 40] if disk == 'JSONDisk' else KEYS
    return [(keys[(i + salt) % len(keys)], vals[(2 * i + salt) % len(vals)]) for i in range(5)]


def run_subcontainer(scratch, case):
    """One parent (FanoutCache / DjangoCache with a Disk class and disk_ settings), one handed-out container.  Returns [(sig, desc)]."""
    parent, sub, disk, settings, event, name = case['parent'], case['sub'], case['disk'], dict(case['settings']), case['event'], case['name']
    d = os.path.join(scratch, 'p')
    subdir = os.path.join(d, sub, *name.split('/'))
    found = []
    what = '%s(%s, %r).%s(%r)' % (parent, disk, settings, sub, name)

    def bad(sig, desc):
        found.append((sig, '%s: %s' % (what, desc)))
    h = sub_parent(parent, d, disk, settings)
    second = None
    ref = []
    try:
        c = sub_get(sub, h, name)
        dk = getattr(diskcache, disk)
        cdisk = inner(sub if sub != 'cache' else 'cache', c).disk
        if not isinstance(cdisk, dk):
            bad('subcontainer_disk_class', 'the disk of the handed-out container is a %s, the parent was created with disk=%s' % (type(cdisk).__name__, disk))
        sub_write(sub, c, ref, sub_items(disk, 0))
        second = sub_second(sub, subdir, disk)
        r = sub_read(sub, second, ref)
        if r:
            bad('subcontainer_not_shared', 'written through the handed-out container, read through a second handle on %s with disk=%s: %s' % (os.path.relpath(subdir, d), disk, r))
        r = sub_read(sub, c, ref)
        if r:
            bad('subcontainer_own_read', 'written and read through the handed-out container: %s' % r)
        if not found:
            sub_write(sub, second, ref, sub_items(disk, 3))
            r = sub_read(sub, c, ref)
            if r:
                bad('subcontainer_not_shared_reverse', 'written through a second handle on %s with disk=%s, read through the handed-out container: %s' % (os.path.relpath(subdir, d), disk, r))
        if event != 'none' and not found:
            if event == 'reopen' or (event == 'pickle' and parent == 'django'):      # DjangoCache is built from configuration, not pickled
                close_handle(sub, c)
                close_handle(parent, h)
                h = make_handle(parent, d, disk, settings, create=(parent == 'django'))
            elif event == 'pickle':
                h2 = pickle.loads(pickle.dumps(h))
                close_handle(sub, c)
                close_handle(parent, h)
                h = h2
            elif event == 'close':
                close_handle(sub, c)
                close_handle(parent, h)
            c = sub_get(sub, h, name)
            cdisk = inner(sub, c).disk
            if not isinstance(cdisk, dk):
                bad('subcontainer_disk_class', 'after %s: the disk of the handed-out container is a %s, the parent was created with disk=%s' % (event, type(cdisk).__name__, disk))
            r = sub_read(sub, c, ref)
            if r:
                bad('subcontainer_lost_after_event', 'after %s of the parent the handed-out container shows: %s' % (event, r))
            if not found:
                sub_write(sub, c, ref, sub_items(disk, 1))
                r = sub_read(sub, second, ref)
                if r:
                    bad('subcontainer_not_shared', 'after %s of the parent: written through the handed-out container, read through the second handle with disk=%s: %s' % (event, disk, r))
        if sub == 'deque' and not found:
            got = []
            while len(got) <= len(ref):
                try:
                    got.append(second.popleft())
                except IndexError:
                    break
            if got != [v for _, v in ref]:
                bad('subcontainer_not_shared', 'items taken one by one from the left through the second handle with disk=%s: %s, written: %s' % (disk, short(got), short([v for _, v in ref])))
    except Exception as e:  # noqa
        bad('subcontainer_raised', 'raised %s: %s' % (type(e).__name__, e))
    finally:
        if second is not None:
            close_handle(sub, second)
        close_handle(parent, h)
    return found


def subcontainers(ctx, res, thorough):
    """The named containers a FanoutCache / DjangoCache hands out live in sub-directories of the parent and are opened with the parent's Disk class:
    what is written through them is shared with every handle opened on the sub-directory with that disk class, and survives reopen / pickle / close of the parent."""
    n = 0
    clock = instr.Clock(1000.0)
    with instr.Installed(clock):
        for parent in SUB_PARENTS:
            for sub in SUB_KINDS:
                for di, (disk, settings) in enumerate(SUB_DISKS):
                    for ei, event in enumerate(SUB_EVENTS):
                        if not thorough and (di + ei + SUB_KINDS.index(sub)) % 2 and not (disk == 'JSONDisk' and settings == {} and event in ('none', 'reopen')):
                            continue
                        case = {'check': 'subcontainer', 'parent': parent, 'sub': sub, 'disk': disk, 'settings': sorted(settings.items()), 'event': event,
                                'name': SUB_NAMES[(di + ei) % len(SUB_NAMES)]}
                        try:
                            found = run_subcontainer(ctx.scratch('c18sub'), case)
                        except ImportError:
                            continue
                        n += 1
                        res.count(['subcontainer', parent, sub, disk, repr(case['settings']), event, case['name']], nontrivial=event != 'none')
                        for sig, desc in found[:2]:      # the disk class and the first visible consequence
                            res.violations.append(fw.Violation(sig, desc, case))
    res.extra['subcontainer_cases'] = n


def run(ctx, big=False, model=True):
    res = fw.Result()
    thorough = (not ctx.quick) or big
    res.rule = ('histories of 40 (quick) / 70 (thorough) steps over 6 keys x 12 values (inline and file-backed; JSON-able ones for JSONDisk) on '
                'Cache, FanoutCache(2 shards), Deque, Index, DjangoCache created with random non-default settings (eviction_policy, cull_limit, statistics, '
                'tag_index, disk_min_file_size, disk_pickle_protocol, size_limit) and Disk/JSONDisk; ~22% of the steps are handle events '
                '{close, reopen, pickle, copy, thread, fork, process}, ~12% clock ticks; after every event all keys are read and the settings compared.  '
                'Golden directory: every recorded item, routing of every FanoutCache key, settings, queue keys, Deque, Index, then writes and check().  '
                'Settings merge: 1-3 successive opens with random arguments (and three directed sequences, among them the witness of the former '
                'finding C18-F1: size_limit given at creation, then a plain reopen) checked against "given now, else what the open before showed, else the '
                'default" for the handle and every shard, and compared with the model.  non-trivial history = contains a handle event; '
                'distinct = distinct (kind, disk, settings, steps) / golden item / (stored, given) pair.  '
                'Suspended iterators: on Cache (iter, reversed, iterkeys both directions), FanoutCache (iter, reversed), Index (iter, reversed, keys, '
                'values, items) and Deque (iter, reversed) a key iterator of handle A is left suspended after 1 / n-1 / 101 of 130 keys (second page); then '
                'another handle, another thread (own handle and A itself), a separate process and a forked child each commit inline, pickled and '
                'file-backed items, in rotating order; after each commit A must show them at once (get, in, [], len, a second complete iteration), '
                "A's own write must succeed and be seen by the other handle, and the iterator must resume.  "
                'Settings histories: 2-3 handles on one Cache / FanoutCache(1-3 shards) directory created with random settings; 16 steps of '
                'reset(key, value) (through the handle, in another thread, in a forked child, in another process; a third of them put back the value '
                'the handle still holds), stats(enable), reset(key), close, reopen, pickle, copy, fresh handle, read in another process / forked child over '
                'statistics, tag_index, cull_limit, size_limit (of a FanoutCache: the share stored at creation, then the value of the last reset), eviction_policy, disk_min_file_size, disk_pickle_protocol, sqlite_cache_size, '
                'sqlite_synchronous; every handle that loads settings afterwards (reopened, unpickled, copied, fresh, other process, forked child, every '
                'shard directory opened on its own) and every reset(key) must show the value of the last completed reset(key, value).  Sub-containers: cache(name) / deque(name) / index(name) of a FanoutCache and of a DjangoCache created with Disk / JSONDisk (compress levels 0, 1, 6, 9) and disk_min_file_size / disk_pickle_protocol settings: the disk of the handed-out container is an instance of the Disk class of the parent; inline and file-backed items written through it are read through a second handle opened on the sub-directory with the Disk class of the parent and the reverse, also after reopen / pickle / close of the parent.')
    golden(ctx, res)
    histories(ctx, res, 200 if thorough else 45, 70 if thorough else 40)
    merge_cases(ctx, res, 120 if thorough else 30, model=model and not ctx.search_mode)
    # a handle opened while another client writes (schedule driver; shared with C08): whatever the interleaving,
    # both handles see consistent contents and bookkeeping afterwards
    from props import c08 as _c08
    _st = {}
    _c08.open_races(ctx, res, _st, 150 if thorough else 12)
    res.extra['open_race_schedules'] = _st.get('open_race_runs', 0)
    import time as _t
    t0 = _t.time()
    suspended_iterators(ctx, res, thorough and not ctx.quick)
    res.extra['suspended_iterator_s'] = round(_t.time() - t0, 1)
    t0 = _t.time()
    settings_histories(ctx, res, 400 if thorough else 70, 16)
    res.extra['settings_histories_s'] = round(_t.time() - t0, 1)
    subcontainers(ctx, res, thorough)
    witness_d17(res)
    return res


def search(ctx, broken):
    return run(ctx, big=True, model=False)


def replay(payload):
    case = payload.get('case', {})
    d = tempfile.mkdtemp(prefix='c18r-')
    try:
        if case.get('check') == 'history':
            found = run_history(d, case)
            for sig, desc in found:
                print('%s: %s' % (sig, desc))
            return not found
        if case.get('check') == 'suspended_iterator':
            worker = IterWorker()
            try:
                found = suspended_iterator_case(d, case, worker)
            finally:
                worker.close()
            for sig, desc in found:
                print('%s: %s' % (sig, desc))
            return not found
        if case.get('check') == 'settings_history':
            worker = SetWorker()
            try:
                found = run_settings_history(d, case, worker)
            finally:
                worker.close()
            for sig, desc in found:
                print('%s: %s' % (sig, desc))
            return not found
        if case.get('check') == 'subcontainer':
            with instr.Installed(instr.Clock(1000.0)):
                found = run_subcontainer(d, case)
            for sig, desc in found:
                print('%s: %s' % (sig, desc))
            return not found
        if case.get('check') == 'merge':
            viol, recs = merge_run(os.path.join(d, 'c'), case['fanout'], case['shards'], [[tuple(x) for x in g] for g in case['opens']])
            for rec in recs:
                shown = dict(rec['seen'])
                print('opened with %r -> %r' % (dict(rec['given']), {k: shown[k] for k in sorted(set(dict(rec['given'])) | {'size_limit'})}))
            if viol is not None:
                print('%s: %s' % (viol[0], viol[1]))
            return viol is None
        if case.get('check') == 'golden':
            class C:
                def scratch(self, name=''):
                    return tempfile.mkdtemp(prefix=name + '-', dir=d)
            res = fw.Result()
            golden(C(), res)
            for v in res.violations:
                print('%s: %s' % (v.sig, v.desc))
            return not res.violations
        print('replay payload:', payload)
        return True
    finally:
        shutil.rmtree(d, ignore_errors=True)


if __name__ == '__main__' and len(sys.argv) > 1 and sys.argv[1] == 'worker':
    worker_main()
if __name__ == '__main__' and len(sys.argv) > 1 and sys.argv[1] == 'iterworker':
    iterworker_main()
if __name__ == '__main__' and len(sys.argv) > 1 and sys.argv[1] == 'setworker':
    setworker_main()
