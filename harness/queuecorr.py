"""Schedule correspondence for the queue operations of Cache (C10, concurrency clause): small concurrent programs
over push / pull / peek (plus a few set / get / pop) are run on the instrumented implementation under random
schedules, and the micro-step machine of coq/model/Conc.v instantiated with the queue bodies of
coq/model/TxnQueue.v is driven by the SAME merged event log (harness/schedcorr.py, coq/model/ConcRun.v sched_check):
every BEGIN must find the write lock free or busy exactly when the machine says so, every file creation, removal
and read must be the machine's next visible step of that client, every call must return the machine's outcome (push:
the key; pull / peek: key and value, or the default) and the rows, counters and files on disk must be the machine's
committed state.  proofs/ConcRunFacts.v (sched_check_sound) and proofs/TxnQueueFacts.v (queue_schedules): agreement
is agreement with a configuration the machine reaches, every such configuration satisfies the machine invariant,
and a delivering pull commits by removing exactly the row it returns from the current committed state.

What is generated: 2-3 clients, 1-3 calls each, prefixes None and 'q', both sides, values stored inline (ints,
short strings) and in files (settings disk_min_file_size = 8), retry on and off (Timeout), 0-3 pushes as setup.
NOT generated: expiring items (an expired head makes pull / peek open a second transaction: outside the instance,
see model/TxnQueue.v) and peeks at a queue that holds file-backed values (the file is read after COMMIT and not
removed: the machine has no such step); schedcorr.build refuses the latter ('peek-file-backed').
"""
import shutil

import concdrv
import fw
import schedcorr

SETTINGS = {'disk_min_file_size': 8}
PREFIXES = (None, 'q')


def gen_value(rng, uid, inline):
    if inline:
        return rng.choice([uid, 'v%d' % uid])                              # an int or a string shorter than 8 characters
    return 'F%d' % uid + rng.choice('#=+') * rng.randrange(8, 14)          # >= 8 characters: a value file


def gen_push(rng, uid, inline_only, retry=None):
    p = rng.choice(PREFIXES)
    inline = True if p in inline_only else rng.random() < 0.45
    return {'op': 'push', 'value': gen_value(rng, uid, inline), 'prefix': p, 'side': rng.choice(['back', 'back', 'front']),
            'expire': None, 'retry': (rng.random() < 0.85) if retry is None else retry}


def gen_call(rng, uid, inline_only):
    k = rng.random()
    retry = rng.random() < 0.85
    if k < 0.38:
        return gen_push(rng, uid, inline_only)
    if k < 0.72:
        return {'op': 'pull', 'prefix': rng.choice(PREFIXES), 'side': rng.choice(['front', 'front', 'back']), 'retry': retry}
    if k < 0.84 and inline_only:
        return {'op': 'peek', 'prefix': rng.choice(sorted(inline_only, key=str)), 'side': rng.choice(['front', 'back']), 'retry': retry}
    if k < 0.90:
        return {'op': 'set', 'key': rng.choice('ab'), 'value': gen_value(rng, uid, rng.random() < 0.5), 'retry': retry}
    if k < 0.94:
        return {'op': 'get', 'key': rng.choice('ab')}
    if k < 0.97:
        # calls whose transaction ends in ROLLBACK when the key is missing (delete / del) or that raise inside it (incr without default):
        # what the same thread does next must again be a proper transaction
        return rng.choice([{'op': 'delete', 'key': rng.choice('abz'), 'retry': retry}, {'op': 'delitem', 'key': rng.choice('abz')},
                           {'op': 'incr', 'key': 'z', 'default': None, 'delta': 1, 'retry': retry}])
    return {'op': 'pop', 'key': rng.choice('ab'), 'retry': retry}


def gen_program(rng):
    """-> (programs, setup).  inline_only: the prefixes whose queue only ever holds inline values (peek allowed there)."""
    n = rng.choices([2, 3], [60, 40])[0]
    inline_only = set(p for p in PREFIXES if rng.random() < 0.4)
    uid = [0]

    def nxt():
        uid[0] += 1
        return uid[0]
    progs = [[gen_call(rng, nxt(), inline_only) for _ in range(rng.choices([1, 2, 3], [30, 40, 30])[0])] for _ in range(n)]
    setup = [gen_push(rng, nxt(), inline_only, retry=True) for _ in range(rng.choices([0, 1, 2, 3], [20, 30, 30, 20])[0])]
    if rng.random() < 0.3:
        setup.append({'op': 'set', 'key': rng.choice('ab'), 'value': gen_value(rng, nxt(), rng.random() < 0.5), 'retry': True})
    return progs, setup


def corpus():
    """hand-picked races: (name, programs, setup)"""
    t = True
    big = 'BIG' + '#' * 12
    return [
        ('pull_race_file', [[{'op': 'pull', 'retry': t}], [{'op': 'pull', 'retry': t}]], [{'op': 'push', 'value': big, 'retry': t}]),
        ('pull_race_inline3', [[{'op': 'pull', 'prefix': 'q', 'retry': t}] for _ in range(3)],
         [{'op': 'push', 'value': 1, 'prefix': 'q', 'retry': t}, {'op': 'push', 'value': 2, 'prefix': 'q', 'retry': t}]),
        ('push_race', [[{'op': 'push', 'value': 'A' + '-' * 10, 'retry': t}], [{'op': 'push', 'value': 'B' + '-' * 10, 'side': 'front', 'retry': t}],
                       [{'op': 'pull', 'retry': t}]], []),
        ('push_pull_both_sides', [[{'op': 'push', 'value': 7, 'prefix': 'q', 'side': 'front', 'retry': t}, {'op': 'pull', 'prefix': 'q', 'side': 'back', 'retry': t}],
                                  [{'op': 'pull', 'prefix': 'q', 'retry': t}, {'op': 'push', 'value': big, 'prefix': 'q', 'retry': t}]],
         [{'op': 'push', 'value': 'x' * 9, 'prefix': 'q', 'retry': t}]),
        ('peek_vs_pull', [[{'op': 'peek', 'retry': t}, {'op': 'peek', 'side': 'back', 'retry': t}], [{'op': 'pull', 'retry': t}]],
         [{'op': 'push', 'value': 1, 'retry': t}, {'op': 'push', 'value': 'two', 'retry': t}]),
        ('rollback_then_pull', [[{'op': 'delete', 'key': 'nope', 'retry': t}, {'op': 'pull', 'retry': t}, {'op': 'push', 'value': 3, 'retry': t}],
                                [{'op': 'incr', 'key': 'nope', 'default': None, 'retry': t}, {'op': 'pull', 'retry': t}]],
         [{'op': 'push', 'value': 1, 'retry': t}, {'op': 'push', 'value': big, 'retry': t}]),
        ('timeout_pull', [[{'op': 'pull', 'retry': False}], [{'op': 'push', 'value': big, 'retry': False}]], [{'op': 'push', 'value': 5, 'retry': t}]),
    ]


def gen_schedule(rng, programs):
    """as props/c05.gen_schedule: per-event interleaving, or runs of 1..6 steps"""
    total = [14 * len(p) + 4 for p in programs]
    if rng.random() < 0.5:
        return concdrv.random_schedule(rng, total, slack=0)
    out = []
    left = list(total)
    while any(left):
        c = rng.choice([i for i, k in enumerate(left) if k])
        k = min(left[c], rng.randrange(1, 7))
        out += [c] * k
        left[c] -= k
    return out


def run(ctx, res, n):
    rng = ctx.rng
    terms, infos, cases = [], [], []
    st = {'runs': 0, 'events': 0, 'busy_begins': 0, 'timeouts': 0, 'skipped': {}, 'clients': {}, 'file_events': 0, 'rollbacks': 0,
          'ops': {}, 'delivered': 0, 'empty_pulls': 0, 'fetch_reads': 0}
    named = corpus()
    tries = 0
    while len(terms) < n and tries < 3 * n + 50:
        tries += 1
        if rng.random() < 0.12:
            nm, programs, setup = rng.choice(named)
        else:
            programs, setup = gen_program(rng)
            nm = 'random'
        schedule = gen_schedule(rng, programs)
        mode = rng.choice(['own', 'shared'])
        r = concdrv.run_program(ctx, programs, schedule, mode=mode, settings=SETTINGS, setup=setup, max_steps=6000, sleep_advances=False)
        term, info = schedcorr.build(r, programs, setup, SETTINGS)
        shutil.rmtree(r['dir'], ignore_errors=True)
        if term is None:
            st['skipped'][info] = st['skipped'].get(info, 0) + 1
            continue
        st['runs'] += 1
        st['events'] += len(info['events'])
        st['busy_begins'] += sum(1 for (_, t) in info['events'] if t == 'TBeginBusy')
        st['rollbacks'] += sum(1 for (_, t) in info['events'] if t == 'TRollback')
        st['file_events'] += sum(1 for (_, t) in info['events'] if t in ('TCreate', 'TRemove', 'TOpenRead', 'TFetchRead'))
        st['fetch_reads'] += sum(1 for (_, t) in info['events'] if t == 'TFetchRead')
        st['timeouts'] += sum(1 for row in info['seen'] for x in row if x == 'XTimeout')
        st['clients'][str(len(programs))] = st['clients'].get(str(len(programs)), 0) + 1
        for i, p in enumerate(programs):
            for c, rec in zip(p, r['calls'][i]):
                st['ops'][c['op']] = st['ops'].get(c['op'], 0) + 1
                if c['op'] == 'pull' and 'exc' not in rec:
                    if rec.get('result') == concdrv.MISS:
                        st['empty_pulls'] += 1
                    else:
                        st['delivered'] += 1
        terms.append(term)
        infos.append(info)
        cases.append({'check': 'queue-schedule-correspondence', 'label': nm, 'programs': programs, 'setup': setup,
                      'schedule': r['schedule_used'], 'mode': mode, 'settings': SETTINGS})
    codes, errors = schedcorr.evaluate('c10sc', terms)
    for e in errors[:2]:
        res.disagreements.append(fw.Violation('model-eval', 'queue schedule correspondence could not be evaluated: ' + e[-300:], {}, 'correspondence'))
    bad = [i for i, c in enumerate(codes) if c != -1]
    res.traces_validated += len(terms) - len(bad)
    st['agree'] = len(terms) - len(bad)
    st['disagree'] = len(bad)
    for i in bad[:3]:
        res.disagreements.append(fw.Violation('schedule_correspondence', 'machine and implementation differ under the same schedule (queue operations): '
                                              + schedcorr.explain(codes[i], infos[i]),
                                              dict(cases[i], events=infos[i]['events'], returned=infos[i]['seen'], code=codes[i]), 'correspondence'))
    res.extra['queue_schedule_correspondence'] = st
    return st


if __name__ == '__main__':
    # standalone: /venv/bin/python harness/queuecorr.py [n] [seed]   (PYTHONPATH = <repo>:<verif>/harness, see bin/check)
    import json
    import sys
    n = int(sys.argv[1]) if len(sys.argv) > 1 else 300
    ctx = fw.Ctx('C10', 'quick', int(sys.argv[2]) if len(sys.argv) > 2 else 1)
    try:
        res = fw.Result()
        stats = run(ctx, res, n)
        print(json.dumps(stats, sort_keys=True))
        print('repo:', fw.REPO, ' disagreements:', len(res.disagreements))
        for v in res.disagreements[:3]:
            print('DISAGREE', v.sig, '|', v.desc[:600])
        sys.exit(1 if res.disagreements else 0)
    finally:
        ctx.cleanup()
