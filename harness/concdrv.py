"""Concurrent and crash drivers (DESIGN.md 4.2, drivers 2-4) built on sched.py.  Used by C05, C06, C07, C14.

A *program* is a JSON-able list of calls, one list per client:
    {'op': 'set', 'key': 'a', 'value': 'x', 'expire': None, 'tag': None, 'retry': True}
    {'op': 'begin_block'} ... {'op': 'raise_in_block'} ... {'op': 'end_block'}      (transact blocks, nestable)
The operations understood for each kind of object ('cache', 'fanout', 'deque', 'index') are listed in apply_call().

    run_program      n client THREADS under sched.Scheduler ('own' objects or one 'shared' object), database timeout 0
    run_processes    n forked client PROCESSES, each with its own Tracer whose before-hook blocks on a pipe until
                     the parent grants the step (same schedule semantics); kill_at = SIGKILL of a parked child
    kill_child       ONE forked child running a program; os._exit(137) before its n-th event (crash enumeration)
    enumerate_schedules   all merges of the clients' event sequences up to a limit, seeded samples beyond

Record of one call (dict, JSON-able), as returned in result['calls'][client]:
    client, index, op, call, depth (block nesting depth at which it ran), result | exc (+ exc_args),
    e0, e1   the client's own event counter before/after the call,
    first, last   step numbers (positions in result['log']) of the call's first and last event = invocation and
                  response order (None when the call produced no event, e.g. an inner begin_block),
    events   ['sql:BEGIN', 'sql:SELECT', ...] the call's own event sequence (the trace driver's observation),
    skipped  True when the call was not executed (it follows a raise_in_block / a begin_block that timed out),
    pending  True when the client was killed / the step budget overflowed inside the call.
"""
import atexit
import itertools
import json
import os
import random
import select
import shutil
import signal
import sys
import tempfile
import time as _time
import traceback

import fw
import instr
import sched
import seqdrv
from instr import core, diskcache

MISS = '<MISS>'                      # JSON stand-in for "the caller's default came back"
_SENT = core.Constant('VERIF_CONC_DEFAULT')
KINDS = ('cache', 'fanout', 'deque', 'index')
BLOCK_OPS = ('begin_block', 'end_block', 'raise_in_block')
ITER_OPS = ('iter_open', 'iter_rest')      # a key iterator that stays partially consumed across other calls


def scratch(ctx, name=''):
    """Scratch directory for cache directories.  SQLite syncs on every checkpoint/close; on a disk-backed /tmp that is
    ~100 ms per cache, on tmpfs ~3 ms.  None of C05/C06/C07/C14 is about durability across power loss (only process
    death), so the directories live on /dev/shm when it is usable (VERIF_NO_SHM=1 forces ctx.scratch); removed at exit."""
    base = getattr(ctx, '_fast_tmp', None)
    if base is None:
        base = ctx.tmp
        if os.path.isdir('/dev/shm') and os.access('/dev/shm', os.W_OK) and not os.environ.get('VERIF_NO_SHM'):
            try:
                base = tempfile.mkdtemp(prefix='verif-%s-%d-' % (ctx.prop, os.getpid()), dir='/dev/shm')
                atexit.register(shutil.rmtree, base, True)
            except OSError:
                base = ctx.tmp
        ctx._fast_tmp = base
    return tempfile.mkdtemp(prefix=name + '-', dir=base)


class BlockAbort(Exception):
    """The exception a program raises inside a transact block ({'op': 'raise_in_block'})."""


class BlockAbortBase(BaseException):
    """{'op': 'raise_in_block', 'base': True}: an exception that is not an Exception (KeyboardInterrupt, SystemExit,
    GeneratorExit, asyncio.CancelledError are of this kind): the block must roll back all the same."""


# ---------------------------------------------------------------------------
# objects


def make_object(kind, directory, settings=None, timeout=0, shards=2):
    settings = dict(settings or {})
    maxlen = settings.pop('maxlen', None)       # bounded Deque (not a Cache setting)
    if kind == 'cache':
        return diskcache.Cache(directory, timeout=timeout, **settings)
    if kind == 'fanout':
        return diskcache.FanoutCache(directory, shards=shards, timeout=timeout, **settings)
    if kind in ('deque', 'index'):
        settings.setdefault('eviction_policy', 'none')
        c = diskcache.Cache(directory, timeout=timeout, **settings)
        if kind == 'index':
            return diskcache.Index.fromcache(c)
        d = diskcache.Deque.fromcache(c)
        if maxlen is not None:
            d._maxlen = maxlen                   # the attribute the constructor sets; the property setter would pop items
        return d
    raise ValueError(kind)


def shards_of(obj):
    if isinstance(obj, diskcache.FanoutCache):
        return list(obj._shards)
    if isinstance(obj, (diskcache.Deque, diskcache.Index)):
        return [obj._cache]
    return [obj]


def warm(obj):
    """Callable opening the calling thread's connection(s) (their PRAGMA statements are not scheduled events)."""
    return lambda: [sh._con for sh in shards_of(obj)]


def close_object(obj):
    for sh in shards_of(obj):
        try:
            sh.close()
        except Exception:
            pass


def jsonable(v):
    if isinstance(v, tuple):
        return [jsonable(x) for x in v]
    if isinstance(v, list):
        return [jsonable(x) for x in v]
    if isinstance(v, (bytes, bytearray, memoryview)):
        return 'bytes:' + bytes(v).hex()
    if v is _SENT or v is core.ENOVAL:
        return MISS
    if isinstance(v, float) and v != v:
        return 'nan'
    if v is None or isinstance(v, (str, int, float, bool)):
        return v
    return repr(v)


def _miss(v):
    return MISS if v is _SENT else jsonable(v)


def _pair(r):
    """(key, value) results of pull/peek with default (SENT, SENT)."""
    k, v = r
    if k is _SENT or v is _SENT:
        return MISS
    return [jsonable(k), jsonable(v)]


def apply_call(obj, call, kind='cache'):
    """Execute one API call; returns its JSON-able result (exceptions propagate to the caller)."""
    op = call['op']
    g = call.get
    retry = g('retry', False)
    if kind in ('cache', 'fanout'):
        c = obj
        if op == 'set':
            return c.set(call['key'], call['value'], expire=g('expire'), tag=g('tag'), retry=retry)
        if op == 'setitem':
            c[call['key']] = call['value']
            return None
        if op == 'add':
            return c.add(call['key'], call['value'], expire=g('expire'), tag=g('tag'), retry=retry)
        if op == 'incr':
            return c.incr(call['key'], g('delta', 1), g('default', 0), retry=retry)
        if op == 'decr':
            return c.decr(call['key'], g('delta', 1), g('default', 0), retry=retry)
        if op == 'get':
            if g('meta'):
                v, e, t = c.get(call['key'], default=_SENT, expire_time=True, tag=True, retry=retry)
                return MISS if v is _SENT else [jsonable(v), e, jsonable(t)]
            return _miss(c.get(call['key'], default=_SENT, retry=retry))
        if op == 'getitem':
            return jsonable(c[call['key']])
        if op == 'contains':
            return call['key'] in c
        if op == 'pop':
            return _miss(c.pop(call['key'], default=_SENT, retry=retry))
        if op == 'delete':
            return c.delete(call['key'], retry=retry)
        if op == 'delitem':
            del c[call['key']]
            return None
        if op == 'touch':
            return c.touch(call['key'], expire=g('expire'), retry=retry)
        if op == 'len':
            return len(c)
        if op == 'iter':
            return [jsonable(k) for k in c]
        if op == 'reversed':
            return [jsonable(k) for k in reversed(c)]
        if op == 'clear':
            return c.clear(retry=retry)
        if op == 'evict':
            return c.evict(g('tag'), retry=retry)
        if op == 'expire':
            return c.expire(retry=retry)
        if op == 'cull':
            return c.cull(retry=retry)
        if kind == 'cache':
            if op == 'push':
                return jsonable(c.push(call['value'], prefix=g('prefix'), side=g('side', 'back'), expire=g('expire'),
                                       tag=g('tag'), retry=retry))
            if op == 'pull':
                return _pair(c.pull(prefix=g('prefix'), default=(_SENT, _SENT), side=g('side', 'front'), retry=retry))
            if op == 'peek':
                return _pair(c.peek(prefix=g('prefix'), default=(_SENT, _SENT), side=g('side', 'front'), retry=retry))
            if op == 'peekitem':
                return jsonable(c.peekitem(last=g('last', True), retry=retry))
            if op == 'iterkeys':
                return [jsonable(k) for k in c.iterkeys(reverse=g('reverse', False))]
    elif kind == 'deque':
        d = obj
        if op == 'append':
            return d.append(call['value'])
        if op == 'appendleft':
            return d.appendleft(call['value'])
        if op == 'extend':
            return d.extend(call['values'])
        if op == 'extendleft':
            return d.extendleft(call['values'])
        if op == 'pop':
            return jsonable(d.pop())
        if op == 'popleft':
            return jsonable(d.popleft())
        if op == 'peek':
            return jsonable(d.peek())
        if op == 'peekleft':
            return jsonable(d.peekleft())
        if op == 'len':
            return len(d)
        if op == 'iter':
            return [jsonable(v) for v in d]
        if op == 'reversed':
            return [jsonable(v) for v in reversed(d)]
        if op == 'getitem':
            return jsonable(d[call['index']])
        if op == 'setitem':
            d[call['index']] = call['value']
            return None
        if op == 'delitem':
            del d[call['index']]
            return None
        if op == 'clear':
            return d.clear()
        if op == 'rotate':
            return d.rotate(g('steps', 1))
        if op == 'reverse':
            return d.reverse()
        if op == 'remove':
            return d.remove(call['value'])
        if op == 'count':
            return d.count(call['value'])
    elif kind == 'index':
        x = obj
        if op == 'setitem':
            x[call['key']] = call['value']
            return None
        if op == 'getitem':
            return jsonable(x[call['key']])
        if op == 'get':
            return _miss(x.get(call['key'], _SENT))
        if op == 'delitem':
            del x[call['key']]
            return None
        if op == 'contains':
            return call['key'] in x
        if op == 'pop':
            if 'default' in call:
                return jsonable(x.pop(call['key'], call['default']))
            return jsonable(x.pop(call['key']))
        if op == 'popitem':
            return jsonable(x.popitem(last=g('last', True)))
        if op == 'peekitem':
            return jsonable(x.peekitem(last=g('last', True)))
        if op == 'setdefault':
            return jsonable(x.setdefault(call['key'], g('default')))
        if op == 'update':
            return x.update(call['items'])
        if op == 'push':
            return jsonable(x.push(call['value'], prefix=g('prefix'), side=g('side', 'back')))
        if op == 'pull':
            return _pair(x.pull(prefix=g('prefix'), default=(_SENT, _SENT), side=g('side', 'front')))
        if op == 'clear':
            return x.clear()
        if op == 'len':
            return len(x)
        if op == 'iter':
            return [jsonable(k) for k in x]
        if op == 'reversed':
            return [jsonable(k) for k in reversed(x)]
        if op == 'items':
            return [jsonable(kv) for kv in x.items()]
    raise ValueError('unknown op %r for kind %s' % (op, kind))


def block_end(calls, pos):
    """Index of the end_block matching the begin_block at calls[pos] (len(calls) if unbalanced)."""
    depth = 0
    for j in range(pos, len(calls)):
        o = calls[j]['op']
        if o == 'begin_block':
            depth += 1
        elif o == 'end_block':
            depth -= 1
            if depth == 0:
                return j
    return len(calls)


class Interp:
    """Executes one client's program on `obj`, recording every call.  `nevents()` returns the client's event
    counter (events emitted so far); `on_done(rec)` is called after every record (used by the process drivers)."""

    def __init__(self, cid, obj, kind, calls, nevents, on_done=None, on_start=None):
        self.cid, self.obj, self.kind, self.calls = cid, obj, kind, calls
        self.nevents = nevents
        self.on_done = on_done
        self.on_start = on_start
        self.records = []
        self.stack = []             # open transact context managers, outermost first
        self.iters = []             # partially consumed key iterators (iter_open ... iter_rest)
        self.current = None

    def _record(self, j, **kw):
        rec = {'client': self.cid, 'index': j, 'op': self.calls[j]['op'], 'call': self.calls[j], 'depth': len(self.stack)}
        rec.update(kw)
        self.records.append(rec)
        return rec

    def _finish(self, rec):
        rec['e1'] = self.nevents()
        rec.pop('pending', None)
        if self.on_done:
            self.on_done(rec)

    def run(self):
        calls = self.calls
        j = 0
        skip_to = -1
        while j < len(calls):
            call = calls[j]
            op = call['op']
            if j <= skip_to:
                rec = self._record(j, skipped=True, e0=self.nevents())
                rec['depth'] = 0
                self._finish(rec)
                j += 1
                continue
            if self.on_start:
                self.on_start(j, call, len(self.stack))
            rec = self._record(j, e0=self.nevents(), pending=True)
            try:
                if op == 'begin_block':
                    target = self.obj
                    if self.kind in ('deque', 'index', 'fanout'):
                        cm = target.transact()
                    else:
                        cm = target.transact(retry=call.get('retry', True))
                    try:
                        cm.__enter__()
                    except BaseException as e:  # noqa
                        if isinstance(e, sched.Killed) or not isinstance(e, Exception):
                            raise
                        rec['exc'] = type(e).__name__
                        # the block did not open: nothing of it runs
                        skip_to = block_end(calls, j)
                    else:
                        self.stack.append(cm)
                        rec['result'] = 'opened'
                elif op == 'end_block':
                    if self.stack:
                        cm = self.stack.pop()
                        rec['depth'] = len(self.stack)
                        cm.__exit__(None, None, None)
                        rec['result'] = 'closed'
                    else:
                        rec['result'] = 'no-block'
                elif op == 'raise_in_block' and call.get('caught') and len(self.stack) >= 2:
                    # the exception leaves the INNERMOST block only and is caught in the body of the block that encloses it
                    # (`with c.transact(): try: with c.transact(): ...; raise X  except X: pass; ...`): nothing is rolled back
                    # (only the outermost block commits or rolls back) and the enclosing block goes on
                    exc = BlockAbort('raise_in_block')
                    cm = self.stack.pop()
                    cm.__exit__(type(exc), exc, None)
                    rec['result'] = 'raised-and-caught'
                    depth, k = 1, j
                    while depth > 0 and k + 1 < len(calls):
                        k += 1
                        if calls[k]['op'] == 'begin_block':
                            depth += 1
                        elif calls[k]['op'] == 'end_block':
                            depth -= 1
                    skip_to = k             # the rest of the inner block, its end_block included, does not run
                elif op == 'raise_in_block':
                    exc = BlockAbortBase('raise_in_block') if call.get('base') else BlockAbort('raise_in_block')
                    # the exception propagates through every enclosing block, innermost first
                    while self.stack:
                        cm = self.stack.pop()
                        swallowed = cm.__exit__(type(exc), exc, None)
                        if swallowed:
                            break
                    rec['result'] = 'raised'
                    # skip the rest of the outermost block
                    depth = rec['depth']
                    k = j
                    while depth > 0 and k + 1 < len(calls):
                        k += 1
                        if calls[k]['op'] == 'begin_block':
                            depth += 1
                        elif calls[k]['op'] == 'end_block':
                            depth -= 1
                    skip_to = k if rec['depth'] > 0 else j
                elif op == 'iter_open':
                    # `for key in cache:` suspended after its first n keys; the calls that follow run "inside the loop body"
                    how = call.get('how', 'iter')
                    it = iter(self.obj) if how == 'iter' else (reversed(self.obj) if how == 'reversed' else self.obj.iterkeys())
                    got = []
                    for _ in range(call.get('n', 1)):
                        try:
                            got.append(jsonable(next(it)))
                        except StopIteration:
                            break
                    self.iters.append(it)
                    rec['result'] = got
                elif op == 'reopen':
                    # the client opens a NEW handle on the directory (Cache.__init__ re-applies the settings stored there) and
                    # goes on with it; to the contents this is a no-op
                    if self.kind != 'cache':
                        raise ValueError('reopen: plain Cache only')
                    new = diskcache.Cache(self.obj.directory, timeout=self.obj.timeout)
                    self.opened = getattr(self, 'opened', []) + [new]
                    self.obj = new
                    rec['result'] = 'opened'
                elif op == 'iter_rest':
                    rec['result'] = [jsonable(k) for k in self.iters.pop()] if self.iters else []
                else:
                    rec['result'] = apply_call(self.obj, call, self.kind)
            except sched.Killed:
                rec['e1'] = self.nevents()
                raise
            except Exception as e:  # the program catches it, like `try: ... except Exception`
                rec['exc'] = type(e).__name__
                if isinstance(e, diskcache.Timeout) and e.args:
                    rec['exc_args'] = jsonable(list(e.args))
            self._finish(rec)
            j += 1
        for o in getattr(self, 'opened', []):
            try:
                o.close()           # handles opened by 'reopen' (same thread: closes this thread's connection)
            except Exception:  # noqa
                pass
        # a program that leaves blocks open closes them (commit) at its end
        while self.stack:
            cm = self.stack.pop()
            try:
                cm.__exit__(None, None, None)
            except Exception:
                pass
        return self.records


# ---------------------------------------------------------------------------
# log canonicalisation


def canon_detail(detail, directory, names):
    """File names renumbered by first appearance; SQL reduced to (statement, parameters)."""
    def fix(x):
        if isinstance(x, str) and directory and x.startswith(directory):
            rel = os.path.relpath(x, directory)
            if rel.endswith('.val'):
                if rel not in names:
                    names[rel] = 'f%d.val' % len([n for n in names if n.endswith('.val')])
                return names[rel]
            parts = rel.split(os.sep)
            for full, short in list(names.items()):
                if full.endswith('.val') and full.startswith(rel + os.sep):
                    return 'dir%d(%s)' % (len(parts), short)
            return 'dir%d' % len(parts) if rel != '.' else '.'
        if isinstance(x, (bytes, memoryview)):
            return 'bytes:' + bytes(x).hex()
        if isinstance(x, (tuple, list)):
            return [fix(y) for y in x]
        if x is None or isinstance(x, (str, int, float, bool)):
            return x
        return repr(x)
    return fix(detail)


def canon_log(log, directory):
    names = {}
    return [(cid, what, canon_detail(detail, directory, names)) for cid, what, detail in log]


def begin_failures(log, calls=None):
    """Number of BEGIN attempts that failed (contention actually reached): a client's BEGIN directly followed, in
    that client's own event sequence, by another BEGIN (a retrying call spinning), plus the calls that ended in
    Timeout (retry=False)."""
    per = {}
    for cid, what, _ in log:
        per.setdefault(cid, []).append(what)
    n = 0
    for seq in per.values():
        for a, b in zip(seq, seq[1:]):
            if a == 'sql:BEGIN' and b == 'sql:BEGIN':
                n += 1
    for recs in calls or []:
        n += sum(1 for r in recs if r.get('exc') == 'Timeout')
    return n


def lock_intervals(log):
    """[(cid, begin step, end step, 'sql:COMMIT'|'sql:ROLLBACK'|'open')] for every successful write transaction.
    Valid when every writer of the directory is in the log: a BEGIN succeeds iff nobody holds the lock, and the
    holder releases it with its COMMIT/ROLLBACK.  (A BEGIN that fails raises inside the client, which then spins
    with another BEGIN or gives up: it never reaches a statement.)"""
    out = []
    holder = None
    for step, (cid, what, _) in enumerate(log):
        if what == 'sql:BEGIN':
            if holder is None:
                holder = (cid, step)
        elif what in ('sql:COMMIT', 'sql:ROLLBACK') and holder is not None and holder[0] == cid:
            out.append((cid, holder[1], step, what))
            holder = None
    if holder is not None:
        out.append((holder[0], holder[1], len(log), 'open'))
    return out


# ---------------------------------------------------------------------------
# snapshots through the public API (quiescent states only: opening a Cache writes its Settings)


def list_files(directory):
    out = []
    for dp, dn, fn in os.walk(directory):
        for f in fn:
            if f.endswith('.val'):
                p = os.path.join(dp, f)
                out.append([os.path.relpath(p, directory), os.path.getsize(p)])
    return sorted(out)


def list_dirs(directory):
    out = []
    for dp, dn, fn in os.walk(directory):
        for d in dn:
            out.append(os.path.relpath(os.path.join(dp, d), directory))
    return sorted(out)


def api_snapshot(directory, kind='cache', shards=2, with_check=False):
    """State of a quiescent directory as a client sees it: for every key reported by iteration its membership,
    the value obtained BY READING IT (get), expire time and tag; len; the Settings counters; the value files.
    Must run under the instr clock of the run.  Lock-free for default settings."""
    snap = {'items': [], 'files': list_files(directory)}
    if kind == 'fanout':
        subdirs = [os.path.join(directory, '%03d' % i) for i in range(shards)]
    else:
        subdirs = [directory]
    counters = []
    warns = []
    for sd in subdirs:
        c = diskcache.Cache(sd, timeout=60)
        try:
            rows, sets, _files = seqdrv.observe(sd)
            counters.append({'count': sets['count'], 'size': sets['size'], 'rows': len(rows)})
            meta = {}
            for r in rows:
                k = r[1] if not isinstance(r[1], memoryview) else bytes(r[1])
                meta[repr(c.disk.get(k, r[2]))] = (r[4], r[7], r[10] is not None)
            for k in list(c):
                present = k in c
                try:
                    v = c.get(k, default=_SENT)
                    v = _miss(v)
                except Exception as e:  # noqa
                    v = 'EXC:' + type(e).__name__
                e_, t_, filed = meta.get(repr(k), (None, None, False))
                snap['items'].append([jsonable(k), present, v, e_, jsonable(t_), filed])
            if with_check:
                import warnings
                with warnings.catch_warnings():
                    warnings.simplefilter('always')
                    ws = c.check()
                warns += ['%s: %s' % (w.category.__name__, str(w.message).replace(directory, '<dir>')) for w in ws]
        finally:
            c.close()
    snap['counters'] = counters
    snap['len'] = sum(x['count'] for x in counters)
    if with_check:
        snap['check'] = warns
    return snap


# ---------------------------------------------------------------------------
# thread driver


def run_program(ctx, programs, schedule, mode='own', settings=None, kill_at=None, setup=None, kind='cache',
                max_steps=4000, now=1000.0, shards=2, directory=None, keep_objects=False, sleep_advances=True, after_txn=None):
    """n client threads under the deterministic scheduler (see the module docstring for the result)."""
    assert mode in ('own', 'shared')
    n = len(programs)
    d = directory or scratch(ctx, 'conc')
    clock = instr.Clock(now)
    out = {'dir': d, 'mode': mode, 'kind': kind, 'n': n}
    with instr.Installed(clock):
        if setup:
            so = make_object(kind, d, settings, timeout=60, shards=shards)
            try:
                out['setup_results'] = run_sequential(so, kind, setup)
            finally:
                close_object(so)
        if mode == 'own':
            objs = [make_object(kind, d, settings, timeout=0, shards=shards) for _ in range(n)]
        else:
            o = make_object(kind, d, settings, timeout=0, shards=shards)
            objs = [o] * n
        for o in objs[:1] if mode == 'shared' else objs:
            close_object(o)          # the creating thread's connection; clients open their own
        # threads sharing one object: also schedule between a transaction statement and the bookkeeping after it
        s = sched.Scheduler(clock, max_steps=max_steps, sleep_advances=sleep_advances,
                            after_txn=(mode == 'shared') if after_txn is None else after_txn)
        interps = [Interp(i, objs[i], kind, programs[i], (lambda i=i: s.nevents[i])) for i in range(n)]

        def prog(i):
            def p():
                try:
                    return interps[i].run()
                finally:
                    # close this thread's connection(s) so that a transaction a killed or crashed client left
                    # open does not outlive it (tracing is still on: a close emits no event)
                    close_object(objs[i])
            return p
        r = s.run([prog(i) for i in range(n)], list(schedule), warmups=[warm(o) for o in objs], kill_at=kill_at)
        log = r['log']
        positions = [[] for _ in range(n)]
        for step, (cid, what, _) in enumerate(log):
            positions[cid].append(step)
        calls = []
        for i in range(n):
            recs = interps[i].records
            for rec in recs:
                e0 = rec.get('e0', 0)
                e1 = rec.get('e1', len(positions[i]))
                e1 = min(e1, len(positions[i]))
                rec['e1'] = e1
                mine = positions[i][e0:e1]
                rec['first'] = mine[0] if mine else None
                rec['last'] = mine[-1] if mine else None
                rec['events'] = [log[p][1] for p in mine]
            calls.append(recs)
        out['calls'] = calls
        out['errors'] = [None if e is None else (e if isinstance(e, str) else repr(e)) for e in r['errors']]
        out['raw_log'] = log
        out['log'] = canon_log(log, d)
        out['overflow'] = r['overflow']
        out['steps'] = r['steps']
        out['schedule_used'] = r['schedule_used']
        out['begin_failures'] = begin_failures(log, calls)
        for o in (objs[:1] if mode == 'shared' else objs):
            close_object(o)
        out['final'] = seqdrv.observe(d) if kind != 'fanout' else None
        if keep_objects:
            out['objects'] = objs
    out['clock'] = clock
    return out


def run_sequential(obj, kind, calls, cid=-1):
    """Run a program on one object without scheduler (setup phases, twins, solo runs).  Returns the records."""
    it = Interp(cid, obj, kind, calls, lambda: 0)
    return it.run()


def solo_events(ctx, programs, settings=None, setup=None, kind='cache', mode='own', shards=2):
    """Event sequences of every client when the clients run one after the other (no contention):
    [[event shorts of client 0], ...].  Used to size systematic schedule enumeration."""
    n = len(programs)
    seqs = [[] for _ in range(n)]
    order = []
    for i in range(n):
        order += [i] * 3000          # entries of a finished client are skipped by the scheduler
    r = run_program(ctx, programs, order, mode=mode, settings=settings, setup=setup, kind=kind, shards=shards,
                    max_steps=20000)
    for cid, what, _ in r['log']:
        seqs[cid].append(what)
    shutil.rmtree(r['dir'], ignore_errors=True)
    return seqs


PRIVATE = ('file:create', 'file:write', 'file:close', 'file:makedirs')


def units_of(events):
    """Partial-order reduction: creating/writing/closing a fresh value file touches nothing another client can
    name before the row commits, so a run of such events is glued to the event that follows it."""
    units, run = [], 0
    for e in events:
        run += 1
        if e not in PRIVATE:
            units.append(run)
            run = 0
    if run:
        units.append(run)
    return units


def count_merges(sizes):
    total, acc = 1, 0
    for s in sizes:
        for k in range(1, s + 1):
            acc += 1
            total = total * acc // k
    return total


def enumerate_schedules(nevents_per_client, limit, rng=None, units=None):
    """Schedules (lists of client ids) for clients with the given numbers of events.
    If the number of distinct merges is <= limit: ALL of them (exhaustive, in lexicographic order); otherwise
    `limit` distinct seeded random merges.  `units` (optional, per client a list of unit lengths summing to the
    client's event count) makes runs of events atomic for the enumeration (see units_of).
    Returns (list of schedules, exhaustive flag, number of merges)."""
    n = len(nevents_per_client)
    if units is None:
        units = [[1] * k for k in nevents_per_client]
    sizes = [len(u) for u in units]
    total = count_merges(sizes)
    rng = rng or random.Random(0)

    def expand(merge):
        pos = [0] * n
        out = []
        for c in merge:
            out += [c] * units[c][pos[c]]
            pos[c] += 1
        return out

    if total <= limit:
        res = []

        def rec(rem, acc):
            if not any(rem):
                res.append(expand(acc))
                return
            for c in range(n):
                if rem[c]:
                    rem[c] -= 1
                    acc.append(c)
                    rec(rem, acc)
                    acc.pop()
                    rem[c] += 1
        rec(list(sizes), [])
        return res, True, total
    seen, res = set(), []
    base = [c for c in range(n) for _ in range(sizes[c])]
    tries = 0
    while len(res) < limit and tries < limit * 20:
        tries += 1
        m = list(base)
        rng.shuffle(m)
        t = tuple(m)
        if t in seen:
            continue
        seen.add(t)
        res.append(expand(m))
    return res, False, total


def random_schedule(rng, nevents_per_client, slack=4):
    base = [c for c, k in enumerate(nevents_per_client) for _ in range(k + slack)]
    rng.shuffle(base)
    return base


# ---------------------------------------------------------------------------
# process drivers


def _send(fd, obj):
    os.write(fd, (json.dumps(obj, default=repr) + '\n').encode())


class _LineReader:
    def __init__(self, fd):
        self.fd = fd
        self.buf = b''
        self.eof = False

    def read_msg(self, timeout=30.0):
        """Next JSON message or None at EOF / timeout."""
        while b'\n' not in self.buf:
            if self.eof:
                return None
            r, _, _ = select.select([self.fd], [], [], timeout)
            if not r:
                return None
            chunk = os.read(self.fd, 65536)
            if not chunk:
                self.eof = True
                if not self.buf:
                    return None
                break
            self.buf += chunk
        if b'\n' in self.buf:
            line, self.buf = self.buf.split(b'\n', 1)
        else:
            line, self.buf = self.buf, b''
        try:
            return json.loads(line.decode())
        except ValueError:
            return {'garbled': line.decode('utf-8', 'replace')}

    def drain(self):
        out = []
        while True:
            m = self.read_msg(timeout=0.0 if self.eof else 5.0)
            if m is None:
                break
            out.append(m)
        return out


def _child_setup_path():
    # fork inherits the modules already imported from fw.REPO; a spawned interpreter would need this
    if fw.REPO not in sys.path:
        sys.path.insert(0, fw.REPO)


def kill_child(directory, calls, kill_n=None, kind='cache', settings=None, now=1000.0, shards=2, timeout=5,
               wall_limit=60.0, trace_open=False):
    """Crash driver.  Forks ONE child which opens `kind` on `directory` (untraced), then runs `calls` with a Tracer
    whose before-hook calls os._exit(137) when the child's event counter reaches kill_n (0-based: the kill lands
    BEFORE event number kill_n executes, i.e. after event kill_n-1).  kill_n=None: run to completion.
    The child reports every event and every finished call through a pipe BEFORE going on.
    Returns {'events': [shorts seen, the last one not executed if killed], 'records': [finished call records],
             'started': index of the call in flight (or None), 'killed': bool, 'status': exit status}."""
    rfd, wfd = os.pipe()
    sys.stdout.flush()
    sys.stderr.flush()
    pid = os.fork()
    if pid == 0:
        code = 1
        try:
            os.close(rfd)
            _child_setup_path()
            clock = instr.Clock(now)
            count = [0]

            def before(ev):
                k = count[0]
                if kill_n is not None and k == kill_n:
                    _send(wfd, {'kill': k, 'ev': ev.short()})
                    os._exit(137)
                count[0] += 1
                _send(wfd, {'ev': ev.short()})
            tracer = sched.Tracer(before=before, clock=clock)
            with instr.Installed(clock), tracer:
                clock.on_sleep = lambda dt: _time.sleep(0.001)
                if trace_open:
                    # the statements of opening the directory (Cache.__init__: pragmas, tables, triggers, settings) are events
                    # too, so the kill can land inside the very first open of a directory
                    _send(wfd, {'start': -1, 'depth': 0, 'e0': 0})
                    tracer.enable(True)
                obj = make_object(kind, directory, settings, timeout=timeout, shards=shards)
                warm(obj)()
                clock.on_sleep = None
                it = Interp(0, obj, kind, calls, lambda: count[0],
                            on_done=lambda rec: _send(wfd, {'rec': {k: v for k, v in rec.items() if k != 'call'}}),
                            on_start=lambda j, call, depth: _send(wfd, {'start': j, 'depth': depth, 'e0': count[0]}))
                tracer.enable(True)
                it.run()
                tracer.enable(False)
                _send(wfd, {'done': True, 'nevents': count[0]})
                close_object(obj)
            code = 0
        except BaseException:  # noqa
            try:
                _send(wfd, {'fatal': traceback.format_exc()[-1500:]})
            except Exception:
                pass
        finally:
            os._exit(code)
    os.close(wfd)
    rd = _LineReader(rfd)
    msgs = []
    t0 = _time.time()
    while True:
        m = rd.read_msg(timeout=5.0)
        if m is None:
            if rd.eof:
                break
            if _time.time() - t0 > wall_limit:
                try:
                    os.kill(pid, signal.SIGKILL)
                except OSError:
                    pass
                msgs.append({'fatal': 'child exceeded wall limit'})
                break
            continue
        msgs.append(m)
    os.close(rfd)
    _, status = os.waitpid(pid, 0)
    out = {'events': [], 'records': [], 'started': None, 'started_depth': 0, 'killed': False, 'done': False,
           'status': status, 'fatal': None, 'nevents': None}
    for m in msgs:
        if 'ev' in m and 'kill' not in m:
            out['events'].append(m['ev'])
        elif 'kill' in m:
            out['killed'] = True
            out['kill_event'] = m['ev']
        elif 'rec' in m:
            out['records'].append(m['rec'])
            out['started'] = None
        elif 'start' in m:
            out['started'] = m['start']
            out['started_depth'] = m['depth']
            out['started_e0'] = m.get('e0')
        elif 'done' in m:
            out['done'] = True
            out['nevents'] = m['nevents']
        elif 'fatal' in m:
            out['fatal'] = m['fatal']
    return out


def run_processes(ctx, programs, schedule, settings=None, kill_at=None, setup=None, kind='cache', max_steps=4000,
                  now=1000.0, shards=2, directory=None, sleep_advances=True):
    """Like run_program(mode='own') but every client is a forked PROCESS.  Each child installs its own Tracer whose
    before-hook reports the event on a pipe and blocks until the parent grants the step.  kill_at={cid: n}: the
    child is SIGKILLed while parked at its n-th event (before it executes).  Result as run_program (no raw_log)."""
    n = len(programs)
    d = directory or scratch(ctx, 'proc')
    clock = instr.Clock(now)
    kill_at = kill_at or {}
    out = {'dir': d, 'mode': 'process', 'kind': kind, 'n': n}
    with instr.Installed(clock):
        so = make_object(kind, d, settings, timeout=60, shards=shards)
        try:
            if setup:
                out['setup_results'] = run_sequential(so, kind, setup)
        finally:
            close_object(so)
    kids = []
    sys.stdout.flush()
    sys.stderr.flush()
    for i in range(n):
        c2p_r, c2p_w = os.pipe()
        p2c_r, p2c_w = os.pipe()
        pid = os.fork()
        if pid == 0:
            code = 1
            try:
                os.close(c2p_r)
                os.close(p2c_w)
                for k in kids:
                    os.close(k['r'].fd)
                    os.close(k['w'])
                _child_setup_path()
                cclock = instr.Clock(now)
                count = [0]
                free = [False]

                def before(ev):
                    count[0] += 1
                    if free[0]:
                        return
                    _send(c2p_w, {'ev': ev.short(), 'detail': canon_detail(ev.detail, d, {})})
                    g = os.read(p2c_r, 1)
                    if g == b'f':
                        free[0] = True
                    elif g != b'g':
                        os._exit(137)
                tracer = sched.Tracer(before=before, clock=cclock)

                def on_sleep(dt):
                    if sleep_advances:
                        cclock.now += dt
                    tracer.emit('sleep', 'sleep', dt)
                with instr.Installed(cclock), tracer:
                    # opening a Cache writes its Settings; children opening at once retry through sleep(): that must
                    # not move the virtual clock
                    cclock.on_sleep = lambda dt: _time.sleep(0.001)
                    obj = make_object(kind, d, settings, timeout=0, shards=shards)
                    warm(obj)()
                    cclock.on_sleep = on_sleep
                    it = Interp(i, obj, kind, programs[i], lambda: count[0],
                                on_done=lambda rec: _send(c2p_w, {'rec': rec}))
                    tracer.enable(True)
                    it.run()
                    tracer.enable(False)
                    close_object(obj)
                    _send(c2p_w, {'done': True})
                code = 0
            except BaseException:  # noqa
                try:
                    _send(c2p_w, {'fatal': traceback.format_exc()[-1500:]})
                except Exception:
                    pass
            finally:
                os._exit(code)
        os.close(c2p_w)
        os.close(p2c_r)
        kids.append({'pid': pid, 'r': _LineReader(c2p_r), 'w': p2c_w, 'state': 'starting', 'pending': None,
                     'records': [], 'nev': 0, 'error': None})

    def advance(k):
        """read from child k until it parks at an event or finishes"""
        while True:
            m = k['r'].read_msg(timeout=30.0)
            if m is None:
                k['state'] = 'done'
                k['error'] = 'eof' if k['r'].eof else 'child silent for 30 s'
                return
            if 'ev' in m:
                k['pending'] = m
                k['state'] = 'parked'
                return
            if 'rec' in m:
                k['records'].append(m['rec'])
            elif 'done' in m:
                k['state'] = 'done'
                k['error'] = None
                k['finished'] = True
                return
            elif 'fatal' in m:
                k['state'] = 'done'
                k['error'] = m['fatal']
                return
    for k in kids:
        advance(k)
    log = []
    steps = pos = rr = 0
    overflow = False
    schedule = list(schedule)
    while True:
        runnable = [i for i in range(n) if kids[i]['state'] == 'parked']
        if not runnable:
            break
        if steps >= max_steps:
            overflow = True
            break
        cid = None
        while pos < len(schedule):
            c = schedule[pos]
            pos += 1
            if c in runnable:
                cid = c
                break
        if cid is None:
            rr = (rr + 1) % n
            while rr not in runnable:
                rr = (rr + 1) % n
            cid = rr
        k = kids[cid]
        ev = k['pending']
        log.append((cid, ev['ev'], ev.get('detail')))
        steps += 1
        if kill_at.get(cid) == k['nev']:
            os.kill(k['pid'], signal.SIGKILL)
            k['state'] = 'done'
            k['error'] = 'killed'
            k['nev'] += 1
            continue
        k['nev'] += 1
        os.write(k['w'], b'g')
        advance(k)
    if overflow:
        for k in kids:
            if k['state'] == 'parked':
                try:
                    os.write(k['w'], b'f')
                except OSError:
                    pass
        for k in kids:
            while k['state'] != 'done':
                advance(k)
    for k in kids:
        try:
            os.close(k['w'])
        except OSError:
            pass
        rest = k['r'].drain() if k['error'] != 'killed' else []
        for m in rest:
            if 'rec' in m:
                k['records'].append(m['rec'])
        os.close(k['r'].fd)
        os.waitpid(k['pid'], 0)
    positions = [[] for _ in range(n)]
    for step, (cid, what, _) in enumerate(log):
        positions[cid].append(step)
    calls = []
    for i in range(n):
        for rec in kids[i]['records']:
            e0, e1 = rec.get('e0', 0), min(rec.get('e1', 0), len(positions[i]))
            mine = positions[i][e0:e1]
            rec['first'] = mine[0] if mine else None
            rec['last'] = mine[-1] if mine else None
            rec['events'] = [log[p][1] for p in mine]
        calls.append(kids[i]['records'])
    out['calls'] = calls
    out['errors'] = [k['error'] for k in kids]
    out['log'] = log
    out['overflow'] = overflow
    out['steps'] = steps
    out['schedule_used'] = [c for c, _, _ in log]
    out['begin_failures'] = begin_failures(log, calls)
    out['final'] = seqdrv.observe(d) if kind != 'fanout' else None
    out['clock'] = clock
    return out
