"""Cache._sql_retry (the statement-level retry of Cache.__init__ / reset) against coq/model/Retry.v.

The real `_execute_with_retry` is run with a scripted `sql` (what each execution of the statement does) and a scripted
clock (what time.time() reads after each failure); the same scripts are evaluated on the Coq model.  A plain-Python
reference written from the source comment ("manually retry the statement for 60 seconds": hand back the first result,
wait only on OperationalError('database is locked'), give up only once more than 60 s have passed, let everything else
through at once) is the monitor.  usage: run(ctx_or_None, res, n, seed) -> summary dict."""
import random
import sqlite3
from fractions import Fraction

import fw

LOCKED = 'database is locked'
MSGS = [LOCKED, LOCKED + ' ', 'database table is locked', 'disk I/O error', 'Database is locked', '']
# microseconds after `start`; the limit (60 s) sits between the 3rd and the 5th
EDGE = [0, 1, 999, 1000, 30000000, 59999999, 60000000, 60000001, 60001000, 61000000, 120000000]


class FakeTime:
    def __init__(self, start, readings):
        self.readings = [start] + list(readings)
        self.calls = 0
        self.sleeps = []

    def time(self):
        v = self.readings[self.calls]
        self.calls += 1
        return Fraction(v, 10 ** 6)

    def sleep(self, s):
        self.sleeps.append(s)


class Obj(object):
    pass


def gen_script(rng):
    n = rng.randint(1, 6)
    outs = []
    for _ in range(n - 1):
        r = rng.random()
        outs.append(('op', LOCKED) if r < 0.8 else ('op', rng.choice(MSGS)) if r < 0.9 else ('other',) if r < 0.95 else ('ok',))
    outs.append(rng.choice([('ok',), ('ok',), ('op', rng.choice(MSGS[1:])), ('other',), ('dberr',)]))
    start = rng.choice([0, 5, 1700000000000000])
    clk, t = [], 0
    late = rng.random() < 0.5
    for i in range(n):
        if late and i >= rng.randint(0, n - 1):
            t = max(t, rng.choice(EDGE[5:]))
        else:
            t = max(t, rng.choice(EDGE[:7]))
        clk.append(start + t)
        t += rng.choice([0, 1, 1000, 1001])
    return outs, start, clk


def reference(outs, start, clk):
    for i, o in enumerate(outs):
        if o == ('ok',):
            return ('Returned', i)
        if o == ('op', LOCKED):
            if clk[i] - start > 60 * 10 ** 6:
                return ('GaveUp', i)
            continue
        return ('Reraised', i)
    return ('ran_off_script', len(outs))


def run_real(core, outs, start, clk):
    calls = []

    def sql(statement, *args, **kwargs):
        i = len(calls)
        calls.append((statement, args, kwargs))
        if i >= len(outs):
            raise RuntimeError('script exhausted')
        o = outs[i]
        if o[0] == 'ok':
            return ('cursor', i)
        if o[0] == 'op':
            raise sqlite3.OperationalError(o[1])
        if o[0] == 'dberr':
            raise sqlite3.DatabaseError(LOCKED)
        raise ValueError('attempt %d' % i)

    obj = Obj()
    obj._sql = sql
    ft = FakeTime(start, clk)
    saved = core.time
    core.time = ft
    try:
        fn = core.Cache._sql_retry.fget(obj)
        try:
            r = fn('STATEMENT', (1, 2), x=3)
            got = ('Returned', r[1]) if isinstance(r, tuple) and r[:1] == ('cursor',) else ('bad_return', repr(r))
        except sqlite3.OperationalError as e:
            i = len(calls) - 1
            got = ('GaveUp', i) if str(e) == LOCKED else ('Reraised', i)
        except (ValueError, sqlite3.DatabaseError):
            got = ('Reraised', len(calls) - 1)
        except (RuntimeError, IndexError):
            got = ('ran_off_script', len(calls))
    finally:
        core.time = saved
    passed = all(c == ('STATEMENT', ((1, 2),), {'x': 3}) for c in calls)
    return got, len(calls), ft.sleeps, passed


def coq_attempt(o):
    if o[0] == 'ok':
        return 'AOk'
    if o[0] == 'op':
        return 'AOpErr [%s]' % '; '.join(str(ord(c)) for c in o[1])
    return 'AOther'


def run(ctx, res, n=300, seed=1):
    import diskcache.core as core
    rng = random.Random(seed * 7919 + 14)
    scripts = []
    # directed: the lock is busy throughout and the reading sits on each edge
    for e in EDGE:
        scripts.append(([('op', LOCKED)] * 2 + [('ok',)], 0, [0, e, e]))
        scripts.append(([('op', LOCKED)] * 3, 7, [7 + e, 7 + e + 1000, 7 + 120000000]))
    for m in MSGS:
        scripts.append(([('op', LOCKED), ('op', m), ('ok',)], 0, [10, 61000000, 61000000]))
    while len(scripts) < n:
        scripts.append(gen_script(rng))
    checks, kinds, sleeps_seen = [], {}, set()
    waited_calls = 0
    for outs, start, clk in scripts:
        want = reference(outs, start, clk)
        got, ncalls, sleeps, passed = run_real(core, outs, start, clk)
        kinds[got[0]] = kinds.get(got[0], 0) + 1
        waited_calls += 1 if ncalls > 1 else 0
        sleeps_seen.update(sleeps)
        case = {'attempts': [list(o) for o in outs], 'start_us': start, 'readings_us': clk}
        res.count(case, nontrivial=ncalls > 1)
        if want[0] == 'ran_off_script':
            continue
        if got != want:
            res.violations.append(fw.Violation('sql_retry:%s_instead_of_%s' % (got[0], want[0]),
                                               'statement-level retry (Cache.__init__ / reset): attempts %s with clock readings %s us after start gave %s, '
                                               'the documented behaviour is %s' % (outs, [c - start for c in clk], got, want), case))
        elif not passed:
            res.violations.append(fw.Violation('sql_retry:arguments_altered', 'the statement or its arguments were not passed through unchanged', case))
        elif any(not (s > 0) for s in sleeps):
            res.violations.append(fw.Violation('sql_retry:no_pause', 'a retry did not pause: sleep(%r)' % (sleeps,), case))
        if got[0] in ('Returned', 'GaveUp', 'Reraised'):
            checks.append(('retry_result_eqb (sql_retry (script_out [%s]) (script_clk [%s]) (%d) 12%%nat) (%s %d%%nat)'
                           % ('; '.join(coq_attempt(o) for o in outs), '; '.join('(%d)' % c for c in clk), start, got[0], got[1]), case, got))
    for s in sorted(sleeps_seen):
        us = Fraction(repr(s)) * 10 ** 6
        checks.append(('(retry_sleep_us =? %d)' % int(us) if us.denominator == 1 else 'false', {'sleep': repr(s)}, ('sleep', repr(s))))
    if ctx is not None and getattr(ctx, 'search_mode', False):
        checks = []   # the failing-input search uses the monitor alone
    bad, errors = fw.coq_mismatches('retrycorr', ['DCPrelude', 'Gen_Retry', 'Retry'], '', [c[0] for c in checks])
    for e in errors:
        res.disagreements.append(fw.Violation('model-eval', 'Retry model evaluation failed: ' + e[-300:], {}, 'correspondence:sql_retry'))
    for i in bad[:3]:
        res.disagreements.append(fw.Violation('sql_retry_model', 'model/Retry.v and Cache._sql_retry differ: implementation gave %s on %s'
                                              % (checks[i][2], checks[i][1]), checks[i][1], 'correspondence:sql_retry'))
    return {'scripts': len(scripts), 'results_by_kind': kinds, 'calls_that_waited': waited_calls, 'pauses_seen_s': sorted(repr(s) for s in sleeps_seen),
            'model_terms_evaluated': len(checks), 'model_disagreements': len(bad)}


if __name__ == '__main__':
    import json
    import sys
    r = fw.Result()
    print(json.dumps(run(None, r, int(sys.argv[1]) if len(sys.argv) > 1 else 300), indent=1))
    for v in r.violations[:5] + r.disagreements[:5]:
        print(v.sig, v.desc[:300])
