"""Tracing + deterministic scheduling of diskcache clients (DESIGN.md 4.2, drivers 2 and 3).

Tracer: replaces diskcache.core.sqlite3 / open / os / op with logging proxies.  Every SQL statement and
every file operation of a traced thread becomes an *event*; before the event executes, the hook
`Tracer.before(event)` runs (log, yield to a scheduler, inject a fault, or kill the process).

Scheduler: n client threads, a controller that grants one event at a time following an explicit
schedule (list of client ids; when exhausted or when the chosen client cannot run, round-robin).
A step is granted BEFORE the event executes.  Database timeout must be 0 so a blocked BEGIN fails at
once and a retrying one spins through a yield point.
"""
import builtins
import os as _os
import os.path as _op
import re
import sqlite3 as _sqlite3
import threading
import types

import instr
from instr import core


def norm_sql(stmt):
    s = ' '.join(stmt.split())
    s = re.sub(r'rowid IN \((?:\d+,?)+\)', 'rowid IN (<ids>)', s)
    return s


def role_of(stmt):
    s = norm_sql(stmt)
    u = s.upper()
    if u.startswith('BEGIN'):
        return 'BEGIN'
    if u.startswith('COMMIT'):
        return 'COMMIT'
    if u.startswith('ROLLBACK'):
        return 'ROLLBACK'
    if u.startswith('PRAGMA'):
        return 'PRAGMA'
    w = u.split()[0]
    if w == 'SELECT' and 'FROM SETTINGS' in u:
        return 'SELECT-SETTINGS'
    if w == 'UPDATE' and 'UPDATE SETTINGS' in u:
        return 'UPDATE-SETTINGS'
    if w == 'INSERT' and 'INTO SETTINGS' in u:
        return 'INSERT-SETTINGS'      # Cache.__init__ (re)writing its settings: not a write to the Cache table
    return w


class Event:
    __slots__ = ('kind', 'what', 'detail', 'tid')

    def __init__(self, kind, what, detail=None):
        self.kind = kind      # 'sql' | 'file' | 'sleep'
        self.what = what      # role (sql) or op name (file)
        self.detail = detail
        self.tid = threading.get_ident()

    def short(self):
        return '%s:%s' % (self.kind, self.what)

    def __repr__(self):
        return 'Event(%s,%s,%r)' % (self.kind, self.what, self.detail)


class Tracer:
    """Install with `with Tracer(before=callback) as tr:`.  Only threads registered with
    tr.enable() generate events (so harness-side inspection through its own connection is silent)."""

    def __init__(self, before=None, clock=None, after_txn=False):
        self.before_cb = before
        self.clock = clock
        # after_txn: a further event ('sync:after-BEGIN' / COMMIT / ROLLBACK) right AFTER a transaction statement has
        # executed, so that the scheduler can switch threads between the statement and the bookkeeping that follows it
        # (threads sharing one Cache object share that bookkeeping)
        self.after_txn = after_txn
        self._enabled = threading.local()
        self.saved = {}

    # -- thread control
    def enable(self, flag=True):
        self._enabled.on = flag

    def enabled(self):
        return getattr(self._enabled, 'on', False)

    def emit(self, kind, what, detail=None):
        if self.enabled() and self.before_cb is not None:
            self.before_cb(Event(kind, what, detail))

    # -- installation
    def __enter__(self):
        tracer = self

        class TracingConnection(_sqlite3.Connection):
            def execute(self, stmt, *args):
                role = role_of(stmt)
                tracer.emit('sql', role, (norm_sql(stmt), args[0] if args else None))
                r = super().execute(stmt, *args)
                if tracer.after_txn and role in ('BEGIN', 'COMMIT', 'ROLLBACK'):
                    tracer.emit('sync', 'after-' + role, None)
                return r

        def connect(*a, **kw):
            kw['factory'] = TracingConnection
            return _sqlite3.connect(*a, **kw)

        proxy = types.ModuleType('sqlite3_proxy')
        proxy.__dict__.update({k: v for k, v in _sqlite3.__dict__.items() if not k.startswith('__')})
        proxy.connect = connect

        class TracedFile:
            def __init__(self, f, path, mode):
                self._f = f
                self._path = path
                self._mode = mode

            def write(self, data):
                tracer.emit('file', 'write', (self._path, len(data)))
                return self._f.write(data)

            def read(self, *a):
                tracer.emit('file', 'read', (self._path,))
                return self._f.read(*a)

            def close(self):
                if not self._f.closed and any(c in self._mode for c in 'wxa'):
                    tracer.emit('file', 'close', (self._path,))
                return self._f.close()

            def __enter__(self):
                return self

            def __exit__(self, *a):
                self.close()

            def __getattr__(self, name):
                return getattr(self._f, name)

            def __iter__(self):
                return iter(self._f)

        def traced_open(path, mode='r', *a, **kw):
            what = 'create' if ('x' in mode or 'w' in mode) else 'open-read'
            tracer.emit('file', what, (path, mode))
            f = builtins.open(path, mode, *a, **kw)
            if tracer.enabled():
                return TracedFile(f, path, mode)
            return f

        osproxy = types.ModuleType('os_proxy')
        osproxy.__dict__.update({k: v for k, v in _os.__dict__.items() if not k.startswith('__')})

        def wrap_os(name):
            realf = getattr(_os, name)

            def f(*a, **kw):
                tracer.emit('file', name, a)
                return realf(*a, **kw)
            return f
        for name in ('remove', 'removedirs', 'makedirs', 'rmdir'):
            setattr(osproxy, name, wrap_os(name))

        self.saved = {'sqlite3': core.sqlite3, 'open': core.__dict__.get('open'), 'os': core.os}
        core.sqlite3 = proxy
        core.open = traced_open
        core.os = osproxy
        return self

    def __exit__(self, *a):
        core.sqlite3 = self.saved['sqlite3']
        core.os = self.saved['os']
        if self.saved['open'] is None:
            del core.open
        else:
            core.open = self.saved['open']


class ClientDone(Exception):
    pass


class Killed(BaseException):
    """Raised inside a client to simulate the loss of the client at an event (thread variant)."""


class Scheduler:
    """Deterministic scheduler for n client callables.

    run(programs, schedule) -> dict(results=[...], log=[(cid, event.short())...], steps=int)
    programs[i](ctx) is run in thread i; ctx.cid is its id.  Each program should first warm up its
    connection (the scheduler does it if given `warmup` callables).
    """

    def __init__(self, clock=None, max_steps=20000, sleep_advances=True, after_txn=False):
        self.clock = clock
        self.max_steps = max_steps
        self.sleep_advances = sleep_advances
        self.after_txn = after_txn
        self.log = []
        self.lock = threading.Lock()

    def run(self, programs, schedule, warmups=None, kill_at=None):
        n = len(programs)
        self.n = n
        self.grant = [threading.Semaphore(0) for _ in range(n)]
        self.parked = threading.Semaphore(0)
        self.state = ['starting'] * n      # starting | parked | running | done
        self.pending = [None] * n
        self.results = [None] * n
        self.errors = [None] * n
        self.cid_of = {}
        self.kill_at = kill_at or {}       # cid -> event index (0-based count of that client's events)
        self.nevents = [0] * n
        self.overflow = False
        tracer = Tracer(before=self._before, clock=self.clock, after_txn=self.after_txn)
        self.tracer = tracer
        threads = []
        with tracer:
            if self.clock is not None:
                self.clock.on_sleep = self._on_sleep
            for i, prog in enumerate(programs):
                t = threading.Thread(target=self._client, args=(i, prog, warmups[i] if warmups else None), daemon=True, name='worker')   # every client thread carries the SAME name: a thread is not identified by its name
                threads.append(t)
                t.start()
            # wait until every client is parked at its first event or done
            for _ in range(n):
                self.parked.acquire()
            steps = 0
            pos = 0
            rr = 0
            while True:
                runnable = [i for i in range(n) if self.state[i] == 'parked']
                if not runnable:
                    break
                if steps >= self.max_steps:
                    self.overflow = True
                    break
                cid = None
                while pos < len(schedule):
                    c = schedule[pos]
                    pos += 1
                    if c in runnable:
                        cid = c
                        break
                if cid is None:
                    rr = (rr + 1) % n
                    while rr not in runnable:
                        rr = (rr + 1) % n
                    cid = rr
                ev = self.pending[cid]
                self.log.append((cid, ev.short(), ev.detail))
                self.state[cid] = 'running'
                steps += 1
                self.grant[cid].release()
                self.parked.acquire()      # until cid parks again or finishes
            if self.overflow:
                # let everything run free to terminate threads (results are discarded by caller)
                for i in range(n):
                    if self.state[i] == 'parked':
                        self.state[i] = 'free'
                        self.grant[i].release()
            for t in threads:
                t.join(timeout=20)
            if self.clock is not None:
                self.clock.on_sleep = None
        return {'results': self.results, 'errors': self.errors, 'log': self.log, 'steps': steps,
                'overflow': self.overflow, 'schedule_used': [c for c, _, _ in self.log]}

    # -- client side
    def _client(self, cid, prog, warmup):
        self.cid_of[threading.get_ident()] = cid
        try:
            if warmup is not None:
                warmup()
            self.tracer.enable(True)
            try:
                self.results[cid] = prog()
            except Killed:
                self.errors[cid] = 'killed'
            except BaseException as e:  # noqa
                self.errors[cid] = e
        finally:
            self.tracer.enable(False)
            self.state[cid] = 'done'
            self.parked.release()

    def _before(self, ev):
        cid = self.cid_of.get(threading.get_ident())
        if cid is None or self.state[cid] == 'free':
            return
        k = self.nevents[cid]
        self.nevents[cid] += 1
        self.pending[cid] = ev
        self.state[cid] = 'parked'
        self.parked.release()
        self.grant[cid].acquire()
        if self.kill_at.get(cid) == k:
            raise Killed()

    def _on_sleep(self, d):
        if self.sleep_advances and self.clock is not None:
            self.clock.now += d
        self.tracer.emit('sleep', 'sleep', d)
