"""Python values <-> Coq literals of coq/base/Val.v (pyval, sqlval, fl)."""
import hashlib
import io
import math
import pickle

import fw


def fl_term(x):
    if x != x:
        return 'FNaN'
    if math.isinf(x):
        return '(FInf %s)' % fw.cbool(x < 0)
    if x == 0:
        return '(FZero %s)' % fw.cbool(math.copysign(1.0, x) < 0)
    n, d = x.as_integer_ratio()
    e = -(d.bit_length() - 1)
    while n % 2 == 0:
        n //= 2
        e += 1
    return '(FFin %s %s)' % (fw.cz(n), fw.cz(e))


class _ShortReader(io.RawIOBase):
    """A raw stream that returns at most `burst` bytes per read() (like a pipe or a socket)."""

    def __init__(self, data, burst):
        self._data = data
        self._pos = 0
        self._burst = burst

    def readable(self):
        return True

    def read(self, n=-1):
        if n is None or n < 0:
            n = len(self._data) - self._pos
        n = min(n, self._burst)
        chunk = self._data[self._pos:self._pos + n]
        self._pos += len(chunk)
        return chunk


class Stream:
    """Marker for a readable binary stream with the given content.  `burst` > 0: the stream returns
    short reads (at most that many bytes per read call)."""

    def __init__(self, data, burst=0, osfile=False):
        self.data = data
        self.burst = burst
        self.osfile = osfile    # a real buffered file object (it has a descriptor), handed over after a prefix was consumed

    def open(self):
        if self.osfile:
            # the caller has already read a header of 5 bytes through the buffered object, so its read-ahead buffer is ahead
            # of the descriptor's offset: what is left to read -- and therefore the value -- is `data`
            import os
            import tempfile
            fd, name = tempfile.mkstemp(prefix='verif-stream-')
            try:
                with os.fdopen(fd, 'wb') as w:
                    w.write(b'HEAD:' + self.data)
                f = open(name, 'rb')
                assert f.read(5) == b'HEAD:'
            finally:
                os.unlink(name)
            return f
        if self.burst:
            return _ShortReader(self.data, self.burst)
        return io.BytesIO(self.data)

    def __repr__(self):
        return 'Stream(%d bytes)' % len(self.data)


def other_id(v):
    h = hashlib.sha1((type(v).__name__ + ':').encode() + pickle.dumps(v, protocol=4)).hexdigest()
    return int(h[:12], 16)


def py_term(v):
    t = type(v)
    if t is int:
        return '(VInt %s)' % fw.cz(v)
    if t is float:
        return '(VFloat %s)' % fl_term(v)
    if t is str:
        return '(VStr %s)' % fw.cstr(v)
    if t is bytes:
        return '(VBytes %s)' % fw.cbytes(v)
    if t is Stream:
        return '(VStream %s)' % fw.cbytes(v.data)
    return '(VOther %s)' % fw.cz(other_id(v))


def sql_term(v):
    """A value read back from sqlite3 -> sqlval literal."""
    if v is None:
        return 'SNull'
    t = type(v)
    if t is int:
        return '(SInt %s)' % fw.cz(v)
    if t is float:
        return '(SReal %s)' % fl_term(v)
    if t is str:
        return '(SText %s)' % fw.cstr(v)
    if t in (bytes, memoryview):
        return '(SBlob %s)' % fw.cbytes(bytes(v))
    raise TypeError(t)


def same(a, b):
    """type- and NaN-aware equality used by the monitors (property C01)."""
    if type(a) is not type(b):
        return False
    if isinstance(a, float):
        if a != a or b != b:
            return a != a and b != b
        return a == b and math.copysign(1.0, a) == math.copysign(1.0, b)
    if isinstance(a, (tuple, list)):
        return len(a) == len(b) and all(same(x, y) for x, y in zip(a, b))
    if isinstance(a, dict):
        return list(a.keys()) == list(b.keys()) and all(same(a[k], b[k]) for k in a)
    if isinstance(a, (set, frozenset)):
        return a == b
    return a == b
