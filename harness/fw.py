"""Check-runner framework shared by all properties (DESIGN.md section 2).

A property module (harness/props/cNN.py) defines
    ID, TITLE, COQ_PROP ('C16'), TRANSLATE (emitter names it depends on),
    run(ctx) -> Result          correspondence + monitors on the implementation
    (optional) search(ctx, broken) -> Result   deeper monitor-only search used when an obligation broke
and the runner does: translate -> build+Print Assumptions -> run -> classify -> evidence.
"""
import fcntl
import hashlib
import json
import os
import random
import re
import shutil
import subprocess
import sys
import tempfile
import time

VERIF = os.path.dirname(os.path.dirname(os.path.abspath(__file__)))
REPO = os.environ.get('VERIF_REPO', '/repo')
COQ = os.path.join(VERIF, 'coq')
BUILD = os.path.join(VERIF, 'build')
REPLAYS = os.path.join(VERIF, 'replays')
EVIDENCE = os.path.join(VERIF, 'evidence')
KNOWN = os.path.join(VERIF, 'known_findings.txt')
PY = '/venv/bin/python'

COQ_FLAGS = ['-Q', 'base', 'DC', '-Q', 'gen', 'DC', '-Q', 'model', 'DC', '-Q', 'proofs', 'DC',
             '-Q', 'props', 'DC', '-w', '-notation-overridden,-deprecated-hint-without-locality']

FIXED_TRUSTED_BASE = [
    'Coq 8.16.1 kernel + coqc; vm_compute used in correspondence evaluation and in *_refuted witnesses; no native_compute',
    'tools/translate.py (+ tools/emit_*.py, tools/pyast.py): trusted to emit Gallina that means what the whitelisted Python/SQL forms mean; fails closed on anything else',
    'hand-written model parts (coq/base, coq/model): tied to /repo by the correspondence run of this check, not verified',
    'harness (instrumentation, generators, canonicalisation, monitors) and CPython/SQLite runtimes',
]


class Violation:
    def __init__(self, sig, desc, case, kind='monitor'):
        self.sig = sig          # signature used to match known findings
        self.desc = desc
        self.case = case        # JSON-able replay payload
        self.kind = kind        # 'monitor' (implementation breaks the property) | 'correspondence'


class Result:
    def __init__(self):
        self.evaluations = 0
        self.nontrivial = set()     # hashes of distinct non-trivial cases
        self.rule = ''
        self.samples = []
        self.traces_validated = 0
        self.violations = []        # monitor hits on the implementation
        self.disagreements = []     # model vs implementation
        self.extra = {}
        self.assumptions = []
        self.witnessed = {}         # finding sig -> True if its witness still fails on the implementation

    def count(self, case, nontrivial=True):
        self.evaluations += 1
        if nontrivial:
            self.nontrivial.add(hashlib.sha1(json.dumps(case, sort_keys=True, default=repr).encode()).hexdigest())

    def sample(self, case, limit=5):
        if len(self.samples) < limit:
            self.samples.append(case)


class Ctx:
    def __init__(self, prop, tier, seed):
        self.prop = prop
        self.tier = tier
        self.seed = seed
        self.rng = random.Random(seed * 1000003 + sum(ord(c) for c in prop))
        self.quick = tier == 'quick'
        self.broken = []            # broken obligations (strings)
        self.search_mode = False
        self.tmp = tempfile.mkdtemp(prefix='verif-%s-' % prop)
        self.deadline = None

    def scratch(self, name=''):
        d = tempfile.mkdtemp(prefix=name + '-', dir=self.tmp)
        return d

    def cleanup(self):
        shutil.rmtree(self.tmp, ignore_errors=True)


# ---------------------------------------------------------------------------
# translate / build


def run_cmd(cmd, cwd=None, timeout=None, env=None):
    t0 = time.time()
    try:
        p = subprocess.run(cmd, cwd=cwd, stdout=subprocess.PIPE, stderr=subprocess.STDOUT,
                           timeout=timeout, env=env, text=True, errors='replace')
        return p.returncode, p.stdout, time.time() - t0
    except subprocess.TimeoutExpired as e:
        out = e.stdout if isinstance(e.stdout, str) else (e.stdout or b'').decode('utf-8', 'replace')
        return 124, out + '\n[timeout after %ss]' % timeout, time.time() - t0


class BuildLock:
    def __enter__(self):
        os.makedirs(BUILD, exist_ok=True)
        self.f = open(os.path.join(BUILD, 'coq.lock'), 'w')
        fcntl.flock(self.f, fcntl.LOCK_EX)
        return self

    def __exit__(self, *a):
        fcntl.flock(self.f, fcntl.LOCK_UN)
        self.f.close()


def translate(only=None):
    """Returns list of error strings (empty = ok)."""
    cmd = ['python3', os.path.join(VERIF, 'tools', 'translate.py'), '--repo', REPO]
    if only:
        cmd += ['--only', ','.join(only)]
    rc, out, _ = run_cmd(cmd, timeout=300)
    errs = [l[len('TRANSLATE-ERROR '):] for l in out.splitlines() if l.startswith('TRANSLATE-ERROR ')]
    if rc != 0 and not errs:
        errs = ['translator crashed: ' + out[-400:]]
    return errs


def coq_make(targets, jobs=16, timeout=2400):
    rc, out, dt = run_cmd([os.path.join(COQ, 'mk.sh'), '-j%d' % jobs] + targets, timeout=timeout)
    return rc, out, dt


def first_coq_error(log):
    m = re.search(r'File "\./([^"]+)", line (\d+), characters [^\n]*\n(Error:.*?)(?:\n\n|\nmake|\Z)', log, re.S)
    if not m:
        return None
    return {'file': m.group(1), 'line': int(m.group(2)), 'error': ' '.join(m.group(3).split())[:600]}


def enclosing_statement(vfile, line):
    """Name of the Theorem/Lemma enclosing `line` in coq/<vfile>."""
    name = None
    try:
        with open(os.path.join(COQ, vfile), encoding='utf-8') as f:
            for i, l in enumerate(f, 1):
                m = re.match(r'\s*(Theorem|Lemma|Corollary|Example|Definition|Fixpoint)\s+([A-Za-z0-9_\']+)', l)
                if m:
                    name = m.group(2)
                if i >= line:
                    break
    except OSError:
        pass
    return name


def prop_theorems(prop):
    path = os.path.join(COQ, 'props', prop + '.v')
    with open(path, encoding='utf-8') as f:
        src = f.read()
    return re.findall(r'^\s*Theorem\s+([A-Za-z0-9_\']+)', src, re.M)


def transitive_deps(prop):
    """Project .v files that props/<prop>.v depends on (by From DC Require Import ...)."""
    index = {}
    for d in ('base', 'gen', 'model', 'proofs', 'props'):
        dd = os.path.join(COQ, d)
        if os.path.isdir(dd):
            for fn in os.listdir(dd):
                if fn.endswith('.v'):
                    index[fn[:-2]] = os.path.join(d, fn)
    seen, todo = [], [os.path.join('props', prop + '.v')]
    while todo:
        f = todo.pop()
        if f in seen:
            continue
        seen.append(f)
        try:
            with open(os.path.join(COQ, f), encoding='utf-8') as fh:
                src = fh.read()
        except OSError:
            continue
        for m in re.finditer(r'From\s+DC\s+Require\s+(?:Import|Export)\s+([^.]*)\.', src):
            for name in m.group(1).split():
                if name in index:
                    todo.append(index[name])
    return seen


def count_obligations(prop):
    """Theorems of props/<prop>.v plus every Lemma/Theorem in the proofs/ files it depends on."""
    names = list(prop_theorems(prop))
    bridge = []
    for f in transitive_deps(prop):
        if f.startswith('proofs'):
            with open(os.path.join(COQ, f), encoding='utf-8') as fh:
                for m in re.finditer(r'^\s*(?:Lemma|Theorem|Corollary|Example)\s+([A-Za-z0-9_\']+)', fh.read(), re.M):
                    bridge.append(f + ':' + m.group(1))
    return names, bridge


def print_assumptions(prop, theorems):
    """Fresh Print Assumptions run for every theorem of the property file."""
    os.makedirs(os.path.join(BUILD, 'pa'), exist_ok=True)
    vf = os.path.join(BUILD, 'pa', 'PA_%s.v' % prop)
    with open(vf, 'w') as f:
        f.write('From DC Require Import %s.\n' % prop)
        for t in theorems:
            f.write('Print Assumptions %s.\n' % t)
    rc, out, _ = run_cmd(['coqc'] + COQ_FLAGS + [vf], cwd=COQ, timeout=600)
    closed = out.count('Closed under the global context')
    axioms = []
    for m in re.finditer(r'Axioms:\n((?:.+\n?)+?)(?:\n|\Z)', out):
        for l in m.group(1).splitlines():
            mm = re.match(r'^([A-Za-z0-9_\.\']+)\s*:', l)
            if mm:
                axioms.append(mm.group(1))
    for ext in ('.vo', '.vok', '.vos', '.glob'):
        try:
            os.remove(vf[:-2] + ext)
        except OSError:
            pass
    return rc, closed, sorted(set(axioms)), out


def coqchk(prop, timeout=1500):
    """Independent re-check of props/<prop>.vo and everything it depends on; returns (rc, axioms-section text)."""
    # shared lock: several re-checks may run together, but not while coq/mk.sh (exclusive lock) rewrites .vo files
    cmd = ['flock', '-s', os.path.join(VERIF, 'build', 'mk.lock'), 'coqchk', '-silent', '-o', '-Q', 'base', 'DC', '-Q', 'gen', 'DC', '-Q', 'model', 'DC', '-Q', 'proofs', 'DC',
           '-Q', 'props', 'DC', 'DC.' + prop]
    rc, out, dt = run_cmd(cmd, cwd=COQ, timeout=timeout)
    m = re.search(r'\* Axioms:(.*?)\* Constants/Inductives relying on type-in-type', out, re.S)
    axioms = ' '.join(m.group(1).split()) if m else 'unparsed: ' + out[-300:]
    return rc, axioms, round(dt, 1)


def hygiene_grep():
    """The forbidden-vernacular grep over the whole development."""
    bad = []
    pat = re.compile(r'\b(Admitted|admit|Axiom|Parameter|Conjecture|Unset Guard Checking|bypass_check|Admit Obligations|type-in-type)\b')
    for d in ('base', 'gen', 'model', 'proofs', 'props'):
        dd = os.path.join(COQ, d)
        for fn in sorted(os.listdir(dd)) if os.path.isdir(dd) else []:
            if fn.endswith('.v'):
                try:
                    with open(os.path.join(dd, fn), encoding='utf-8') as f:
                        txt = re.sub(r'\(\*.*?\*\)', '', f.read(), flags=re.S)
                except FileNotFoundError:
                    continue
                for m in pat.finditer(txt):
                    bad.append('%s/%s: %s' % (d, fn, m.group(1)))
    return bad


# ---------------------------------------------------------------------------
# evaluating the model inside Coq


def coq_eval(name, body, imports, timeout=900):
    """Compile a scratch file `From DC Require Import <imports>. <body>` and return (rc, stdout)."""
    d = os.path.join(BUILD, 'cases')
    os.makedirs(d, exist_ok=True)
    base = 'Case_%s_%d' % (re.sub(r'\W', '_', name), os.getpid())
    vf = os.path.join(d, base + '.v')
    with open(vf, 'w', encoding='utf-8') as f:
        f.write('From DC Require Import %s.\n' % ' '.join(imports))
        f.write(body)
    rc, out, dt = run_cmd(['bash', '-c', 'ulimit -s unlimited 2>/dev/null; exec coqc "$@"', 'coqc'] + COQ_FLAGS + [vf], cwd=COQ, timeout=timeout)
    for ext in ('.v', '.vo', '.vok', '.vos', '.glob'):
        try:
            if rc == 0 or ext != '.v':
                os.remove(os.path.join(d, base + ext))
        except OSError:
            pass
    try:
        os.remove(os.path.join(d, '.' + base + '.aux'))
    except OSError:
        pass
    return rc, out


def parse_eval_lists(out):
    """All `= <term> : <type>` results printed by Eval commands, whitespace-collapsed."""
    flat = ' '.join(out.split())
    return [m.group(1).strip() for m in re.finditer(r'= (.*?) : [A-Za-z(]', flat)]


def parse_z_list(term):
    term = term.strip()
    if term.endswith('%Z'):
        term = term[:-2]
    term = term.strip()
    if term.startswith('(') and term.endswith(')'):
        term = term[1:-1].strip()
    if term == '[]' or term == 'nil':
        return []
    if not (term.startswith('[') and term.endswith(']')):
        raise ValueError('not a list: ' + term[:80])
    items = term[1:-1].split(';')
    out = []
    for it in items:
        it = it.strip().replace('%Z', '').strip('() ')
        out.append(int(it))
    return out


def coq_mismatches(name, imports, defs, checks, chunk=400, jobs=12):
    """checks: list of Coq boolean terms.  Returns indices whose term does not evaluate to true.
    Evaluated as  Eval vm_compute in (indices of false)  in chunks, chunks in parallel."""
    from concurrent.futures import ThreadPoolExecutor

    def one(start):
        part = checks[start:start + chunk]
        body = [defs, '\nDefinition checks : list bool := [\n']
        body.append(';\n'.join('  (%s)' % c for c in part))
        body.append('].\n')
        body.append('Fixpoint falses (i : Z) (l : list bool) : list Z := match l with [] => [] '
                    '| b :: r => if b then falses (i + 1) r else i :: falses (i + 1) r end.\n')
        body.append('Eval vm_compute in (falses 0 checks).\n')
        rc, out = coq_eval('%s_%d' % (name, start), ''.join(body), imports)
        if rc != 0:
            return [], [out[-1500:]]
        res = parse_eval_lists(out)
        if not res:
            return [], ['no result: ' + out[-500:]]
        return [start + i for i in parse_z_list(res[-1])], []

    bad, errors = [], []
    starts = list(range(0, len(checks), chunk))
    if not starts:
        return bad, errors
    with ThreadPoolExecutor(max_workers=jobs) as ex:
        for b, e in ex.map(one, starts):
            bad += b
            errors += e
    return sorted(bad), errors


# ---------------------------------------------------------------------------
# Coq literal formatting


def cz(n):
    return '(%d)' % n


def clist(items):
    return '[' + '; '.join(items) + ']'


def czlist(ns):
    return '[' + '; '.join('%d' % n for n in ns) + ']' if ns else '[]'


def cstr(s):
    """Python str -> list Z of code points."""
    return czlist([ord(c) for c in s])


def cbytes(b):
    return czlist(list(b))


def cbool(b):
    return 'true' if b else 'false'


def copt(x, f=cz):
    return 'None' if x is None else '(Some %s)' % f(x)


# ---------------------------------------------------------------------------
# known findings


def load_known(prop):
    """Returns (findings: dict sig -> text, fixed: list of text)."""
    findings, fixed = {}, []
    try:
        with open(KNOWN, encoding='utf-8') as f:
            for l in f:
                l = l.strip()
                if not l or l.startswith('#'):
                    continue
                m = re.match(r'finding:\s+property=(\S+)\s+id=(\S+)\s+sig=(\S+)\s+(.*)', l)
                if m and m.group(1) == prop:
                    findings[m.group(3)] = (m.group(2), m.group(4))
                m = re.match(r'fixed:\s+property=(\S+)\s+(\S+)\s+(.*)', l)
                if m and m.group(1) == prop:
                    fixed.append(m.group(3))
    except FileNotFoundError:
        pass
    return findings, fixed


def clear_replays(prop):
    import glob
    for f in glob.glob(os.path.join(REPLAYS, '%s-*.json' % prop)):
        try:
            os.remove(f)
        except OSError:
            pass


def write_replay(prop, n, payload):
    os.makedirs(REPLAYS, exist_ok=True)
    path = os.path.join(REPLAYS, '%s-%d.json' % (prop, n))
    with open(path, 'w', encoding='utf-8') as f:
        json.dump(payload, f, indent=1, default=repr, sort_keys=True)
    return path


def write_evidence(prop, data):
    os.makedirs(EVIDENCE, exist_ok=True)
    path = os.path.join(EVIDENCE, prop + '.json')
    tmp = path + '.tmp'
    with open(tmp, 'w', encoding='utf-8') as f:
        json.dump(data, f, indent=1, default=repr, sort_keys=True)
        f.write('\n')
    os.replace(tmp, path)
    return path
