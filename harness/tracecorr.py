"""Trace correspondence (DESIGN.md 4.2, driver 2): the event sequence of every instrumented API call
must be a path of the stage automaton of coq/model/ConcTrace.v (`accepts`), which simulates the
micro-step machine (proofs/ConcTraceFacts.v: step_is_transition)."""
import fw

IMPORTS = ['DCPrelude', 'Conc', 'ConcTrace']
SKIP_OPS = ('stats',)      # Settings updates outside a transaction are not calls of the machine


class _Tags(list):
    """list of tag names that also remembers, per tag, the index of the event that produced it"""

    def __init__(self):
        list.__init__(self)
        self.at = []
        self.cur = 0

    def append(self, t):
        list.append(self, t)
        self.at.append(self.cur)


def call_tags(events, timed_out=False, with_index=False):
    """events: [(kind, what)] of ONE API call of one client -> list of tag names (with_index: list of
    (tag, index of the event that produced it))."""
    tags = _Tags()
    in_txn = False
    body_open = False
    after_commit = False
    n = len(events)
    for idx, (kind, what) in enumerate(events):
        tags.cur = idx
        if kind in ('sleep', 'sync'):
            continue
        if kind == 'file':
            if what in ('makedirs', 'write', 'read', 'removedirs', 'rmdir'):
                continue
            if what == 'create':
                if in_txn:
                    if not body_open:
                        tags.append('TBody')
                    body_open = True      # a store inside an open transaction (incr, calls inside a block): part of the body
                    continue
                tags.append('TCreate')
            elif what == 'close':
                if in_txn:
                    continue
                tags.append('TClose')
            elif what == 'remove':
                tags.append('TEarlyRm' if in_txn else 'TRemove')
            elif what == 'open-read':
                if in_txn:
                    continue              # slow-path get reads the file inside its transaction
                tags.append('TFetchRead' if after_commit else 'TOpenRead')
            continue
        # sql
        if what == 'BEGIN':
            # busy iff the same call issues another BEGIN before any other statement, or times out here
            nxt = [w for (k, w) in events[idx + 1:] if k == 'sql']
            rest = [(k, w) for (k, w) in events[idx + 1:] if k not in ('sleep', 'sync')]
            busy = (nxt[:1] == ['BEGIN']) or (timed_out and not nxt)
            tags.append('TBeginBusy' if busy else 'TBegin')
            in_txn = not busy
            body_open = False
            after_commit = False
        elif what in ('COMMIT', 'ROLLBACK'):
            if in_txn and not body_open:
                tags.append('TBody')      # a transaction always has a body in the machine
            tags.append('TCommit' if what == 'COMMIT' else 'TRollback')
            in_txn = False
            after_commit = True
        else:
            if in_txn:
                if not body_open:
                    tags.append('TBody')
                    body_open = True
            else:
                tags.append('TSelect')
                after_commit = False
    if tags and tags[-1] == 'TBeginBusy':
        tags.append('TReturn')            # gave up without a value file to remove
    if with_index:
        return list(zip(list(tags), tags.at))
    return list(tags)


def tags_from_shorts(shorts, timed_out=False):
    """shorts: ['sql:BEGIN', 'file:create', ...] as recorded by the scheduler log"""
    return call_tags([tuple(x.split(':', 1)) for x in shorts], timed_out)


def check_term(tags, early=False, prefix=False):
    return '%s %s [%s]' % ('accepts_prefix' if prefix else 'accepts', 'true' if early else 'false', '; '.join(tags))


def check_traces(name, traces):
    """traces: list of (label, tags, early).  Returns list of labels whose trace is not accepted, errors."""
    checks = [check_term(t[1], t[2], t[3] if len(t) > 3 else False) for t in traces]
    bad, errors = fw.coq_mismatches(name, IMPORTS, '', checks, chunk=500)
    return [traces[i] for i in bad], errors


def lock_discipline(log, calls=None):
    """log: [(cid, 'sql:BEGIN' | ..., detail)] in global order (scheduler log; a step is logged BEFORE it
    executes).  A BEGIN is successful iff the same client's next sql event is not another BEGIN.  Checks what
    the machine proves (lock_excludes, db_changes_only_by_commit): while one client is between its successful
    BEGIN and its COMMIT/ROLLBACK no other client is, and INSERT/UPDATE/DELETE on the Cache table happen only
    inside the client's own transaction.  Returns list of problem strings."""
    problems = []
    failed = set()
    for recs in calls or []:
        for c in recs:
            if c.get('exc') == 'Timeout' and c.get('last') is not None:
                # the call gave up at its last BEGIN
                for idx in range(min(c['last'], len(log) - 1), -1, -1):
                    if log[idx][0] == c.get('client') and log[idx][1] == 'sql:BEGIN':
                        failed.add(idx)
                        break
                    if log[idx][0] == c.get('client') and log[idx][1].startswith('sql:'):
                        break
    # next sql event per position for each client
    nxt = {}
    last_idx = {}
    for idx, (cid, what, _) in enumerate(log):
        if what.startswith('sql:'):
            if cid in last_idx:
                nxt[last_idx[cid]] = what
            last_idx[cid] = idx
    holder = None
    for idx, (cid, what, _) in enumerate(log):
        if what == 'sql:BEGIN':
            ok = nxt.get(idx) not in ('sql:BEGIN', None) or (nxt.get(idx) is None and False)
            if nxt.get(idx) is None or idx in failed:
                ok = False          # the call ended at this BEGIN (Timeout) or the run stopped
            if ok:
                if holder is not None and holder != cid:
                    problems.append('client %d began a transaction at step %d while client %d held the write lock' % (cid, idx, holder))
                holder = cid
        elif what in ('sql:COMMIT', 'sql:ROLLBACK'):
            if holder == cid:
                holder = None
        elif what in ('sql:INSERT', 'sql:UPDATE', 'sql:DELETE'):
            if holder != cid:
                problems.append('client %d executed %s at step %d outside its own transaction (lock holder: %r)' % (cid, what, idx, holder))
    return problems
