(* C05 -- every single operation is atomic under concurrent threads and processes.
   Statements about the micro-step machine of model/Conc.v: any number of clients, any programs whose
   transaction bodies are well-behaved (body_ok), any schedule, kills included.
   What is NOT proved here and is exercised by the schedule driver instead: that SQLite serialises
   BEGIN IMMEDIATE ... COMMIT, that readers see the last committed state, that thread-local connections
   and processes behave as separate connections. *)
From DC Require Import DCPrelude Conc ConcFacts ConcTheorems ConcTrace ConcTraceFacts.

Theorem C05_invariant_all_schedules : forall (D R : Type) (refs : D -> list Z) (Dinv : D -> Prop) (c : config D R) s,
  Inv refs Dinv c -> Inv refs Dinv (exec c s).
Proof. exact inv_exec. Qed.
Print Assumptions C05_invariant_all_schedules.

Theorem C05_reachable_invariant : forall (D R : Type) (refs : D -> list Z) (Dinv : D -> Prop) (d : D)
    (progs : nat -> list (op D R)) (c : config D R),
  Dinv d -> refs d = [] -> (forall i, Forall (op_ok refs Dinv) (progs i)) -> reachable d progs c -> Inv refs Dinv c.
Proof. exact reachable_inv. Qed.
Print Assumptions C05_reachable_invariant.

Theorem C05_ref_inv : forall (D R : Type) (refs : D -> list Z) (Dinv : D -> Prop) (c : config D R),
  Inv refs Dinv c -> forall g, In g (refs (db c)) -> files c g = FDone.
Proof. exact ref_inv. Qed.
Print Assumptions C05_ref_inv.

(* a lookup that is about to open the file named by the row it selected finds it complete, or gone (never partial) *)
Theorem C05_no_partial_read : forall (D R : Type) (refs : D -> list Z) (Dinv : D -> Prop) (c : config D R) i r mo f h m,
  Inv refs Dinv c -> c_pc (cl c i) = ReadOpen r mo f h m -> files c f = FDone \/ files c f = FNone.
Proof. exact no_partial_read. Qed.
Print Assumptions C05_no_partial_read.

(* ... and when it is gone (the value was replaced or removed between the SELECT and the open) the lookup does not
   report a miss: it looks the row up again (r_again = true: the code as it is, Gen_Sql.get_retries_after_missing_file).
   The exit "the same file is missing twice" is not taken in any reachable configuration. *)
Theorem C05_lookup_looks_again : forall (D R : Type) (refs : D -> list Z) (Dinv : D -> Prop) (c : config D R) i r mo f h m,
  Inv refs Dinv c -> c_pc (cl c i) = ReadOpen r mo f h m -> r_again r = true -> files c f <> FDone ->
  exists c', cstep c i = Some c' /\ c_pc (cl c' i) = ReadAgain r f /\ db c' = db c /\ lock c' = lock c /\
             c_done (cl c' i) = c_done (cl c i).
Proof. exact lookup_looks_again. Qed.
Print Assumptions C05_lookup_looks_again.

(* every answer of a lookup is justified at the step that produces it: it is what a SELECT on the CURRENT committed
   state yields (a miss only when that state has no row for the key), or the value of a complete file named by the
   row the lookup selected: there is no tolerated miss any more *)
Theorem C05_lookup_answer_justified : forall (D R : Type) (refs : D -> list Z) (Dinv : D -> Prop) (c : config D R) i r c' o,
  Inv refs Dinv c -> reading c i r -> r_again r = true -> cstep c i = Some c' -> c_done (cl c' i) = c_done (cl c i) ++ [o] ->
  (exists res, o = ORes res /\ (r_select r (db c) = SelMiss res \/ r_select r (db c) = SelHit res)) \/
  (exists mo f h m, c_pc (cl c i) = ReadOpen r mo f h m /\ files c f = FDone /\ o = ORes h).
Proof. exact lookup_answer_justified. Qed.
Print Assumptions C05_lookup_answer_justified.

(* the reader the code had before the repair (r_again = false) reported the missing file as a miss *)
Theorem C05_old_lookup_reports_missing_file : forall (D R : Type) (c : config D R) i r mo f h m,
  c_pc (cl c i) = ReadOpen r mo f h m -> r_again r = false -> files c f <> FDone ->
  exists c', cstep c i = Some c' /\ c_pc (cl c' i) = Idle /\ c_done (cl c' i) = c_done (cl c i) ++ [ORes m].
Proof. exact old_lookup_reports_missing_file. Qed.
Print Assumptions C05_old_lookup_reports_missing_file.

Theorem C05_writers_serial : forall (D R : Type) (refs : D -> list Z) (Dinv : D -> Prop) (c : config D R) i w f o,
  Inv refs Dinv c -> c_pc (cl c i) = AtCommit w f o -> bo_ok o = true ->
  exists c', cstep c i = Some c' /\ db c' = bo_db (w_body w (db c) f) /\ lock c' = None.
Proof. exact commit_is_atomic. Qed.
Print Assumptions C05_writers_serial.

Theorem C05_one_writer_at_a_time : forall (D R : Type) (refs : D -> list Z) (Dinv : D -> Prop) (c : config D R) j wk i,
  Inv refs Dinv c -> lock c = Some (j, wk) -> i <> j -> in_txn (c_pc (cl c i)) = false.
Proof. exact lock_excludes. Qed.
Print Assumptions C05_one_writer_at_a_time.

(* every micro-step of the machine is a transition of the stage automaton against which the event
   sequence of every instrumented API call of the implementation is checked (trace correspondence) *)
Theorem C05_trace_simulation : forall (D R : Type) (c : config D R) i c',
  cstep c i = Some c' ->
  trans_ok true (phase_of (c_pc (cl c i))) (step_tag c i) (phase_of (c_pc (cl c' i))) = true.
Proof. exact step_is_transition. Qed.
Print Assumptions C05_trace_simulation.

From DC Require Import Val DiskBase SqlBase Gen_Disk Disk Gen_Sql Cache Refs SinvFacts Txn TxnFacts.

(* the hypotheses are discharged for the real transaction bodies (set, add, delete/__delitem__, pop, touch,
   incr on inline values; lock-free get and contains) of model/Cache.v: in every configuration reachable by
   any schedule with kills of any programs made of these calls, from the empty cache, the machine invariant
   holds, the committed table satisfies the row-level invariant and every referenced file is complete *)
Theorem C05_cache_invariant : forall c (progs : nat -> list call) sched,
  Inv refs Winv (exec (init_config init_st (fun i => map (compile c) (progs i))) sched).
Proof. exact cache_inv. Qed.
Print Assumptions C05_cache_invariant.

Theorem C05_cache_files_complete : forall c progs sched,
  let cf := exec (init_config init_st (fun i => map (compile c) (progs i))) sched in
  Winv (db cf) /\ (forall g, In g (refs (db cf)) -> files cf g = FDone).
Proof. exact cache_committed_files_complete. Qed.
Print Assumptions C05_cache_files_complete.

(* a call of the machine run without interleaving is exactly the sequential model's call (which is compared
   with the implementation after every call): the concurrent model refines to the validated sequential one *)
Theorem C05_sequential_equivalence : forall c x s, Winv s -> call_side c x s -> call_run c x s = call_step c x s.
Proof. exact call_run_is_step. Qed.
Print Assumptions C05_sequential_equivalence.

From DC Require Import CacheRun ConcRun ConcRunFacts.

(* the schedule-correspondence check (harness/schedcorr.py evaluates ConcRun.sched_check on the schedule the
   implementation ran under) is sound: agreement means that some schedule of the machine, from the empty cache
   with the compiled programs, reaches a configuration that satisfies the machine invariant, whose clients
   returned what the implementation returned and whose committed rows, counters and files are those on disk *)
Theorem C05_schedule_correspondence_sound : forall c setup progs events seen_by final,
  sched_check c init_st setup progs events seen_by final = -1 ->
  exists su ps sch,
    let cf := exec (init_config init_st (prog_fun ps su)) sch in
    Inv refs Winv cf /\ Winv (db cf) /\ (forall g, In g (refs (db cf)) -> files cf g = FDone) /\
    clients_ok cf seen_by 0 = -1 /\ disk_matches cf final = true.
Proof. exact sched_check_sound. Qed.
Print Assumptions C05_schedule_correspondence_sound.

(* Iteration among writers (model/IterConc.v): `tb n` is the committed table the n-th statement of the iteration reads
   (n = 0: SELECT MAX(rowid); n >= 1: the pages) -- every schedule of the other clients is such a sequence; each table in rowid order.
   "The keys yielded are the keys of ONE committed state" is false (finding C05-F1 = C06-F5); what holds for every schedule: *)
From Coq Require Import Sorted.
From DC Require Import SqlOrderFacts IterConc IterConcFacts.

(* ... every row yielded was read from a committed table *)
Theorem C05_iteration_no_phantom : forall tb fuel r, (forall n, asc (tb n)) ->
  In r (iter_among_writers fuel tb) -> exists m, (1 <= m)%nat /\ In r (tb m).
Proof. exact iter_no_phantom. Qed.
Print Assumptions C05_iteration_no_phantom.

(* ... in strictly ascending rowid order: nothing is yielded twice *)
Theorem C05_iteration_no_repeat : forall tb fuel, (forall n, asc (tb n)) -> asc (iter_among_writers fuel tb).
Proof. exact iter_no_repeat. Qed.
Print Assumptions C05_iteration_no_repeat.

(* ... and a row that is there from the first statement to the last is yielded once the iteration has come to its end *)
Theorem C05_iteration_stable : forall tb fuel r, (forall n, asc (tb n)) -> (forall n, In r (tb n)) -> 0 < rowid r ->
  iter_done fuel tb = true -> In r (iter_among_writers fuel tb).
Proof. exact iter_stable. Qed.
Print Assumptions C05_iteration_stable.

(* the witness of the finding: {a} when MAX(rowid) is read; another client stores b and deletes a; the page statement reads {b}:
   the iteration ends having yielded nothing, and none of the committed states {a}, {a, b}, {b} is empty *)
Theorem C05_iteration_one_state_refuted :
  iter_done 3 torn_tables = true /\ keys_of (iter_among_writers 3 torn_tables) = [] /\
  forallb (fun t => negb (Nat.eqb (length (keys_of t)) 0)) committed_states = true.
Proof. exact iter_torn_witness. Qed.
Print Assumptions C05_iteration_one_state_refuted.
