(* C07 -- a process killed at any instant leaves a usable, self-consistent cache.
   Kill is a step of the machine available in every configuration (Kill i in a schedule).
   Trusted, not proved: SQLite's own recovery of an interrupted transaction and its release of the lock
   of a dead connection (modelled by `crash`); a kill inside a SQLite call is only sampled. *)
From DC Require Import DCPrelude Conc ConcFacts ConcTheorems.

Theorem C07_crash_closed : forall (D R : Type) (refs : D -> list Z) (Dinv : D -> Prop) (c : config D R) s,
  Inv refs Dinv c -> Inv refs Dinv (exec c s).
Proof. exact inv_exec. Qed.
Print Assumptions C07_crash_closed.

Theorem C07_kill_safe : forall (D R : Type) (refs : D -> list Z) (Dinv : D -> Prop) (c : config D R) i,
  Inv refs Dinv c -> Inv refs Dinv (crash c i) /\ db (crash c i) = db c /\ files (crash c i) = files c /\
                     (forall wk, lock (crash c i) <> Some (i, wk)).
Proof. exact kill_safe. Qed.
Print Assumptions C07_kill_safe.

(* every key reported present yields a complete value, after any schedule with kills *)
Theorem C07_present_is_complete : forall (D R : Type) (refs : D -> list Z) (Dinv : D -> Prop) (c : config D R) s,
  Inv refs Dinv c -> forall g, In g (refs (db (exec c s))) -> files (exec c s) g = FDone.
Proof. intros D R refs Dinv c s H. apply ref_inv with (Dinv := Dinv). apply inv_exec, H. Qed.
Print Assumptions C07_present_is_complete.

(* the interrupted call is applied entirely or not at all: the database only ever changes by a COMMIT
   step, which installs a whole body *)
Theorem C07_interrupted_atomic : forall (D R : Type) (refs : D -> list Z) (Dinv : D -> Prop) (c : config D R) i c',
  Inv refs Dinv c -> cstep c i = Some c' -> db c' <> db c ->
  exists w f o, c_pc (cl c i) = AtCommit w f o /\ bo_ok o = true /\ holds c i = true.
Proof. exact db_changes_only_by_commit. Qed.
Print Assumptions C07_interrupted_atomic.

(* the dead process leaves nothing behind that stops others from writing *)
Theorem C07_lock_free_after_kill : forall (D R : Type) (c : config D R) i w f,
  lock c = None -> c_pc (cl c i) = AtBegin w f ->
  exists c', cstep c i = Some c' /\ c_pc (cl c' i) = InTxn w f /\ lock c' = Some (i, db c).
Proof. exact free_lock_is_granted. Qed.
Print Assumptions C07_lock_free_after_kill.

From DC Require Import Val DiskBase SqlBase Gen_Disk Disk Gen_Sql Cache Refs SinvFacts Txn TxnFacts.

(* for the real transaction bodies: after ANY schedule of set/add/delete/pop/touch/incr/get/contains calls by any
   number of clients with kills at arbitrary steps, the committed table satisfies the row-level invariant and
   every file a committed row refers to is completely written *)
Theorem C07_cache_crash_closed : forall c progs sched,
  let cf := exec (init_config init_st (fun i => map (compile c) (progs i))) sched in
  Winv (db cf) /\ (forall g, In g (refs (db cf)) -> files cf g = FDone).
Proof. exact cache_committed_files_complete. Qed.
Print Assumptions C07_cache_crash_closed.

From DC Require Import CacheRun ConcRun ConcRunFacts.

(* the crash correspondence (harness/props/c07.py evaluates ConcRun.crash_check at kill points of the
   implementation) is sound: agreement means that a schedule of the machine ending in `Kill 0`, from the empty
   cache with the compiled setup and program, reaches a configuration that satisfies the machine invariant and
   whose committed rows, counters and files (partial and unreferenced ones included) are those found on disk
   after the kill, with the outcomes of the calls that had returned *)
Theorem C07_crash_correspondence_sound : forall c setup prog events seen0 inflight final,
  crash_check c init_st setup prog events seen0 inflight final = -1 ->
  exists su p sch,
    let cf := exec (init_config init_st (prog_fun [p] su)) (sch ++ [Kill 0]) in
    Inv refs Winv cf /\ Winv (db cf) /\ (forall g, In g (refs (db cf)) -> files cf g = FDone) /\
    outcomes_match_upto (c_done (cl cf 0)) seen0 inflight = true /\ disk_matches cf final = true.
Proof. exact crash_check_sound. Qed.
Print Assumptions C07_crash_correspondence_sound.

From DC Require Import Val DiskBase SqlBase Gen_Disk Disk Cache Refs Txn TxnBlock TxnBlockFacts.

(* the crash variant of the defect repaired under C06-F1 (finding C07-F1): `set k BIG; with transact: set k 5; <kill>` killed
   after the inner set and before the COMMIT.  On the body the code had before, the inner set had already removed the old
   file: SQLite rolls the row back and it refers to a file that no longer exists.  On the body of today nothing is removed
   before the COMMIT: the row is back with its file. *)
Theorem C07_kill_in_block_old_body :
  lock old3_final = None /\ length (rows (db old3_final)) = 1%nat /\ dangling old3_final = true.
Proof. exact old_body_kill_in_block_loses_file. Qed.
Print Assumptions C07_kill_in_block_old_body.

Theorem C07_kill_in_block_keeps_file :
  lock w3_final = None /\ length (rows (db w3_final)) = 1%nat /\ dangling w3_final = false.
Proof. exact (proj1 (proj2 (proj2 repaired_body_keeps_file))). Qed.
Print Assumptions C07_kill_in_block_keeps_file.

(* A kill while a FanoutCache transaction block ends (finding C07-F2): the shard transactions commit one after the other
   (model/FanoutBlock.v), so a process killed after k of them leaves the last k shards of the lock order after the block and the others
   before it.  "The interrupted operation is fully applied or not at all" is false for the whole cache when two shards change, true per
   shard, and true for the whole cache when at most one shard changes.  The commit order of the model is compared with the directory a
   killed process leaves behind on every run (harness/props/c07.py fanout_block_witness). *)
From DC Require Import FanoutBase Gen_Fanout Fanout FanoutBlock FanoutBlockFacts.

Theorem C07_fanout_block_kill_refuted :
  cache_view Z 2 1 w_old w_new = [0; 2]%Z /\ all_or_nothing Z Z.eqb 2 1 w_old w_new = false /\
  all_or_nothing Z Z.eqb 2 0 w_old w_new = true /\ all_or_nothing Z Z.eqb 2 2 w_old w_new = true.
Proof.
  exact (conj (proj1 fanout_block_torn_between_commits) (conj (proj1 (proj2 fanout_block_torn_between_commits))
        (conj (proj1 (proj2 (proj2 fanout_block_torn_between_commits))) (proj1 (proj2 (proj2 (proj2 fanout_block_torn_between_commits))))))).
Qed.
Print Assumptions C07_fanout_block_kill_refuted.

Theorem C07_fanout_block_kill_per_shard : forall (S : Type) order k (old new : nat -> S) i,
  shard_view S order k old new i = old i \/ shard_view S order k old new i = new i.
Proof. exact per_shard_all_or_nothing. Qed.
Print Assumptions C07_fanout_block_kill_per_shard.

Theorem C07_fanout_block_kill_partial : forall (S : Type) (eqb : S -> S -> bool), (forall a b, eqb a b = true <-> a = b) ->
  forall n k (old new : nat -> S) j,
  (forall i, (i < n)%nat -> i <> j -> old i = new i) ->
  cache_view S n k old new = all_of S n old \/ cache_view S n k old new = all_of S n new.
Proof. intros S eqb H. exact (one_shard_block_all_or_nothing S). Qed.
Print Assumptions C07_fanout_block_kill_partial.
