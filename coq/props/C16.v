(* C16 -- memoized functions return what the function returns and never share entries.
   Property theorems only; each is closed by `exact` of a lemma proved in proofs/. *)
From DC Require Import DCPrelude ArgsKeyBase Gen_ArgsKey Memo ArgsKeyFacts MemoFacts.

(* Full statement: calls with different visible arguments never share a key.  FALSE of the code as
   written -- a positional None imitates the separator (known finding C16-F1). *)
Theorem C16_key_injective_refuted :
  exists base typed ig a1 kw1 a2 kw2,
    args_to_key base a1 kw1 typed ig = args_to_key base a2 kw2 typed ig /\
    visible_args ig a1 <> visible_args ig a2.
Proof. exact key_injective_refuted. Qed.
Print Assumptions C16_key_injective_refuted.

(* Strongest true restriction: injective on calls whose visible positional arguments contain no None;
   for every base, typed flag, ignore set, arity and keyword set. *)
Theorem C16_key_injective_partial : forall base typed ig a1 kw1 a2 kw2,
  no_none (visible_args ig a1) = true -> no_none (visible_args ig a2) = true ->
  args_to_key base a1 kw1 typed ig = args_to_key base a2 kw2 typed ig ->
  visible_args ig a1 = visible_args ig a2 /\ visible_kwargs ig kw1 = visible_kwargs ig kw2.
Proof. exact key_injective_partial. Qed.
Print Assumptions C16_key_injective_partial.

Theorem C16_functions_never_share : forall b1 b2 a1 kw1 a2 kw2 typed ig,
  args_to_key [b1] a1 kw1 typed ig = args_to_key [b2] a2 kw2 typed ig -> b1 = b2.
Proof. exact key_base_injective. Qed.
Print Assumptions C16_functions_never_share.

Theorem C16_wrapper_returns_f : forall f base typed ig,
  (forall a1 kw1 a2 kw2, visible_args ig a1 = visible_args ig a2 ->
                         visible_kwargs ig kw1 = visible_kwargs ig kw2 -> f a1 kw1 = f a2 kw2) ->
  forall expire now s a kw,
  memo_ok f base typed ig s -> wf_call ig a ->
  let '(r, s', _) := wrapper f base typed ig expire now s a kw in
  r = f a kw /\ memo_ok f base typed ig s'.
Proof. exact wrapper_returns_f. Qed.
Print Assumptions C16_wrapper_returns_f.

Theorem C16_repeat_served_from_cache : forall f base typed ig expire now now' s a kw,
  mget now (args_to_key base a kw typed ig) s = None ->
  (match expire with None => True | Some d => d > 0 /\ now' < now + d end) ->
  let '(_, s', _) := wrapper f base typed ig expire now s a kw in
  wrapper f base typed ig expire now' s' a kw = (f a kw, s', false).
Proof. exact wrapper_repeat_hits. Qed.
Print Assumptions C16_repeat_served_from_cache.

Theorem C16_expire_zero_stores_nothing : forall f base typed ig d now s a kw,
  d <= 0 -> snd (fst (wrapper f base typed ig (Some d) now s a kw)) = s.
Proof. exact wrapper_zero_stores_nothing. Qed.
Print Assumptions C16_expire_zero_stores_nothing.

Theorem C16_django_wrapper_returns_f : forall f base typed ig,
  (forall a1 kw1 a2 kw2, visible_args ig a1 = visible_args ig a2 ->
                         visible_kwargs ig kw1 = visible_kwargs ig kw2 -> f a1 kw1 = f a2 kw2) ->
  forall dflt timeout now s a kw,
  memo_ok f base typed ig s -> wf_call ig a ->
  let '(r, s', _) := wrapper_django f base typed ig dflt timeout now s a kw in
  r = f a kw /\ memo_ok f base typed ig s'.
Proof. exact wrapper_django_returns_f. Qed.
Print Assumptions C16_django_wrapper_returns_f.

Theorem C16_django_timeout_zero_stores_nothing : forall f base typed ig dflt d now s a kw,
  d <= 0 -> snd (fst (wrapper_django f base typed ig dflt (DjNum d) now s a kw)) = s.
Proof. exact wrapper_django_zero_stores_nothing. Qed.
Print Assumptions C16_django_timeout_zero_stores_nothing.

Theorem C16_stampede_guard_key_distinct : forall base typed ig a kw a' kw',
  no_enoval base -> no_enoval a' -> (forall n v, In (n, v) kw' -> v <> EEnoval) ->
  args_to_key base a kw typed ig ++ stampede_suffix <> args_to_key base a' kw' typed ig.
Proof. exact stampede_guard_distinct. Qed.
Print Assumptions C16_stampede_guard_key_distinct.

(* functions memoized WITHOUT name= get the base full_name(func) = module.qualname (generated from core.py):
   two functions of one module with different qualified names never share an entry, whatever their arguments *)
Theorem C16_derived_names_never_share : forall m q1 q2 a1 kw1 a2 kw2 typed ig,
  args_to_key [EStr (full_name m q1)] a1 kw1 typed ig = args_to_key [EStr (full_name m q2)] a2 kw2 typed ig -> q1 = q2.
Proof. exact derived_names_never_share. Qed.
Print Assumptions C16_derived_names_never_share.
