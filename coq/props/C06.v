(* C06 -- transaction blocks are all-or-nothing, isolated, nestable and thread-owned.
   A block is one writing call of the machine whose body is the composition of its inner calls; the
   files its inner calls hand to cleanup are removed while the transaction is still open (bo_early),
   which is what the code does.  Blocks that release no value file are well-behaved bodies. *)
From DC Require Import DCPrelude Conc ConcFacts ConcTheorems Gen_Sql ConcBridge.

Theorem C06_commit_atomic : forall (D R : Type) (refs : D -> list Z) (Dinv : D -> Prop) (c : config D R) i w f o,
  Inv refs Dinv c -> c_pc (cl c i) = AtCommit w f o -> bo_ok o = true ->
  exists c', cstep c i = Some c' /\ db c' = bo_db (w_body w (db c) f) /\ lock c' = None.
Proof. exact commit_is_atomic. Qed.
Print Assumptions C06_commit_atomic.

Theorem C06_isolated : forall (D R : Type) (refs : D -> list Z) (Dinv : D -> Prop) (c : config D R) i c',
  Inv refs Dinv c -> cstep c i = Some c' -> db c' <> db c ->
  exists w f o, c_pc (cl c i) = AtCommit w f o /\ bo_ok o = true /\ holds c i = true.
Proof. exact db_changes_only_by_commit. Qed.
Print Assumptions C06_isolated.

Theorem C06_abort_rows : forall (D R : Type) (c : config D R) i w f o,
  c_pc (cl c i) = AtCommit w f o -> bo_ok o = false ->
  exists c', cstep c i = Some c' /\ db c' = db c /\ lock c' = None /\ commits c' = commits c.
Proof. exact rollback_restores. Qed.
Print Assumptions C06_abort_rows.

(* full statement "after an aborted block every row's file still resolves": FALSE when an inner call
   replaced or removed a file-backed value (known finding C06-F1) *)
Theorem C06_abort_files_refuted :
  db blk_final = [7] /\ files blk_final 7 = FNone /\ lock blk_final = None.
Proof. exact abort_loses_file. Qed.
Print Assumptions C06_abort_files_refuted.

(* strongest true restriction: blocks whose inner calls release no value file (body_ok demands
   bo_early = []) keep every committed row's file, whatever the schedule and wherever they raise *)
Theorem C06_abort_files_partial : forall (D R : Type) (refs : D -> list Z) (Dinv : D -> Prop) (c : config D R) s,
  Inv refs Dinv c -> forall g, In g (refs (db (exec c s))) -> files (exec c s) g = FDone.
Proof. intros D R refs Dinv c s H. apply ref_inv with (Dinv := Dinv). apply inv_exec, H. Qed.
Print Assumptions C06_abort_files_partial.

Theorem C06_thread_owned : forall tid txn, transact_nested tid txn = true <-> txn = Some tid.
Proof. exact bridge_transact_nested. Qed.
Print Assumptions C06_thread_owned.

Theorem C06_others_wait_or_time_out : forall (D R : Type) (c : config D R) i w f j wk,
  c_pc (cl c i) = AtBegin w f -> lock c = Some (j, wk) ->
  (w_retry w = true -> cstep c i = Some c) /\
  (w_retry w = false -> exists c', cstep c i = Some c' /\ db c' = db c /\ lock c' = lock c /\ c_pc (cl c' i) = TimeoutRm f).
Proof. exact others_wait_or_time_out. Qed.
Print Assumptions C06_others_wait_or_time_out.
