(* C06 -- transaction blocks are all-or-nothing, isolated, nestable and thread-owned.
   A block is one writing call of the machine whose body is the composition of its inner calls; the
   files its inner calls hand to cleanup are removed while the transaction is still open (bo_early),
   which is what the code does.  Blocks that release no value file are well-behaved bodies. *)
From DC Require Import DCPrelude Conc ConcFacts ConcTheorems Gen_Sql ConcBridge.

Theorem C06_commit_atomic : forall (D R : Type) (refs : D -> list Z) (Dinv : D -> Prop) (c : config D R) i w f o,
  Inv refs Dinv c -> c_pc (cl c i) = AtCommit w f o -> bo_ok o = true ->
  exists c', cstep c i = Some c' /\ db c' = bo_db (w_body w (db c) f) /\ lock c' = None.
Proof. exact commit_is_atomic. Qed.
Print Assumptions C06_commit_atomic.

Theorem C06_isolated : forall (D R : Type) (refs : D -> list Z) (Dinv : D -> Prop) (c : config D R) i c',
  Inv refs Dinv c -> cstep c i = Some c' -> db c' <> db c ->
  exists w f o, c_pc (cl c i) = AtCommit w f o /\ bo_ok o = true /\ holds c i = true.
Proof. exact db_changes_only_by_commit. Qed.
Print Assumptions C06_isolated.

Theorem C06_abort_rows : forall (D R : Type) (c : config D R) i w f o,
  c_pc (cl c i) = AtCommit w f o -> bo_ok o = false ->
  exists c', cstep c i = Some c' /\ db c' = db c /\ lock c' = None /\ commits c' = commits c.
Proof. exact rollback_restores. Qed.
Print Assumptions C06_abort_rows.

(* a body that removes files while its transaction is still open (what every call nested in a block did before the
   repair recorded under C06-F1 in known_findings.txt) loses them when the block aborts: the row comes back, the file
   does not.  The machine shows it on the smallest such body. *)
Theorem C06_early_removal_loses_files :
  db blk_final = [7] /\ files blk_final 7 = FNone /\ lock blk_final = None.
Proof. exact abort_loses_file. Qed.
Print Assumptions C06_early_removal_loses_files.

(* for well-behaved bodies (body_ok demands bo_early = []: nothing is removed before the commit decision) every
   committed row keeps its file, whatever the schedule and wherever a block raises; model/TxnBlock.v + TxnBlockFacts.v
   below show that the blocks of the code are such bodies *)
Theorem C06_abort_files : forall (D R : Type) (refs : D -> list Z) (Dinv : D -> Prop) (c : config D R) s,
  Inv refs Dinv c -> forall g, In g (refs (db (exec c s))) -> files (exec c s) g = FDone.
Proof. intros D R refs Dinv c s H. apply ref_inv with (Dinv := Dinv). apply inv_exec, H. Qed.
Print Assumptions C06_abort_files.

Theorem C06_thread_owned : forall tid txn, transact_nested tid txn = true <-> txn = Some tid.
Proof. exact bridge_transact_nested. Qed.
Print Assumptions C06_thread_owned.

Theorem C06_others_wait_or_time_out : forall (D R : Type) (c : config D R) i w f j wk,
  c_pc (cl c i) = AtBegin w f -> lock c = Some (j, wk) ->
  (w_retry w = true -> cstep c i = Some c) /\
  (w_retry w = false -> exists c', cstep c i = Some c' /\ db c' = db c /\ lock c' = lock c /\ c_pc (cl c' i) = TimeoutRm f).
Proof. exact others_wait_or_time_out. Qed.
Print Assumptions C06_others_wait_or_time_out.

(* ------------------------------------------------------------------ blocks over the REAL transaction bodies
   (model/TxnBlock.v: a block is one writing call whose body is the composition of the bodies of its inner calls; the
   files the inner calls release are removed after the block's COMMIT -- Gen_Sql.transact_defers_removals) *)
From DC Require Import Val DiskBase SqlBase Gen_Disk Disk Cache CacheRun Refs SinvFacts Txn TxnFacts TxnBlock TxnBlockFacts.

(* the deferral is what the source says today (regenerated from _transact / _remove_after_transaction on every run) *)
Theorem C06_removals_are_deferred : transact_defers_removals = true.
Proof. reflexivity. Qed.
Print Assumptions C06_removals_are_deferred.

(* a block of calls -- over inline and file-backed values -- is a well-behaved body ... *)
Theorem C06_block_is_well_behaved : forall retry ws raises,
  Forall (body_ok refs Winv) ws -> body_ok refs Winv (w_block retry ws raises).
Proof. exact body_ok_block. Qed.
Print Assumptions C06_block_is_well_behaved.

(* ... so for every number of clients, every program of single calls and blocks (set, add, delete, pop, touch, incr,
   lookups), every schedule with kills, the machine invariant holds and every committed row's file is complete ... *)
Theorem C06_blocks_invariant : forall c (progs : nat -> list bcall) sched,
  let cf := exec (init_config init_st (fun i => map (bcompile c) (progs i))) sched in
  Inv refs Winv cf /\ Winv (db cf) /\ (forall g, In g (refs (db cf)) -> files cf g = FDone).
Proof. intros c progs sched. split; [apply block_inv|apply block_files_complete]. Qed.
Print Assumptions C06_blocks_invariant.

(* ... the COMMIT of a block installs all its effects at once ... *)
Theorem C06_block_commit_atomic : forall c progs sched i retry xs raises f o,
  let cf := exec (init_config init_st (fun i => map (bcompile c) (progs i))) sched in
  c_pc (cl cf i) = AtCommit (w_block retry (flat_map (call_wop c) xs) raises) f o -> bo_ok o = true ->
  exists c', cstep cf i = Some c' /\ db c' = bo_db (body_block (flat_map (call_wop c) xs) raises (db cf) f) /\ lock c' = None.
Proof. exact block_commit_atomic. Qed.
Print Assumptions C06_block_commit_atomic.

(* ... and a block that raises leaves the committed state exactly as it was (rows by this step, files by the invariant) *)
Theorem C06_block_abort_restores : forall c progs sched i retry xs raises f o,
  let cf := exec (init_config init_st (fun i => map (bcompile c) (progs i))) sched in
  c_pc (cl cf i) = AtCommit (w_block retry (flat_map (call_wop c) xs) raises) f o -> bo_ok o = false ->
  exists c', cstep cf i = Some c' /\ db c' = db cf /\ lock c' = None /\ commits c' = commits cf.
Proof. exact block_abort_restores. Qed.
Print Assumptions C06_block_abort_restores.

(* the defect that was repaired (findings C06-F1 and C06-F2), replayed on the body the code had before: after
   `set k BIG; with transact: set k 5; raise` (resp. `pop k; raise`) the client has finished, the lock is free, the row is
   back -- and refers to a file that no longer exists *)
Theorem C06_old_body_loses_files :
  (client_done old1_final = true /\ lock old1_final = None /\ length (rows (db old1_final)) = 1%nat /\ dangling old1_final = true) /\
  (client_done old2_final = true /\ lock old2_final = None /\ length (rows (db old2_final)) = 1%nat /\ dangling old2_final = true).
Proof. exact (conj old_body_abort_loses_file old_body_abort_loses_file_pop). Qed.
Print Assumptions C06_old_body_loses_files.

(* the same programs on the body of today: the file is still there after the abort (and after a kill before the COMMIT);
   after a COMMIT the row holds the new value and the old file is gone *)
Theorem C06_repaired_body_keeps_files :
  (client_done w1_final = true /\ lock w1_final = None /\ length (rows (db w1_final)) = 1%nat /\ dangling w1_final = false) /\
  (client_done w2_final = true /\ lock w2_final = None /\ length (rows (db w2_final)) = 1%nat /\ dangling w2_final = false) /\
  (lock w3_final = None /\ length (rows (db w3_final)) = 1%nat /\ dangling w3_final = false) /\
  (client_done w4_final = true /\ map rvalue (rows (db w4_final)) = [SInt 5] /\ map rfile (rows (db w4_final)) = [None] /\ files w4_final 0 = Conc.FNone).
Proof. exact repaired_body_keeps_file. Qed.
Print Assumptions C06_repaired_body_keeps_files.

(* the block correspondence (harness/props/c06.py evaluates ConcRun.block_check on single-client programs with blocks run
   by the implementation) is sound: agreement is agreement with a configuration the machine reaches with the block as
   ONE call over the real bodies -- same outcomes, same rows and counters, and for every row its value file exists on disk
   exactly when the machine says so *)
From DC Require Import ConcRun ConcRunFacts.
Theorem C06_block_correspondence_sound : forall c s0 setup prog events seen0 final,
  block_check c s0 setup prog events seen0 final = -1 ->
  exists su p sch,
    compile_all c setup = Some su /\ compile_bitems c prog = Some p /\
    let cf := exec (init_config s0 (prog_fun [p] su)) sch in
    finished cf 0 = true /\ outcomes_match (c_done (cl cf 0)) seen0 = true /\ disk_matches_b cf final = true.
Proof. exact block_check_reaches. Qed.
Print Assumptions C06_block_correspondence_sound.

(* FanoutCache.transact: one shard transaction per shard, entered in the order read off the code and left in the reverse order
   (model/FanoutBlock.v).  "All-or-nothing" for the WHOLE cache is false as soon as the block changes two shards (finding C06-F6: a
   reader between two shard COMMITs sees the block half applied); per shard it holds at every point, and a block that changes at most
   one shard is all-or-nothing for the whole cache.  `k` = number of shard COMMITs executed. *)
From DC Require Import FanoutBase Gen_Fanout Fanout FanoutBlock FanoutBlockFacts.

Theorem C06_fanout_block_all_or_nothing_refuted :
  cache_view Z 2 1 w_old w_new = [0; 2]%Z /\ all_or_nothing Z Z.eqb 2 1 w_old w_new = false.
Proof. exact (conj (proj1 fanout_block_torn_between_commits) (proj1 (proj2 fanout_block_torn_between_commits))). Qed.
Print Assumptions C06_fanout_block_all_or_nothing_refuted.

Theorem C06_fanout_block_per_shard : forall (S : Type) order k (old new : nat -> S) i,
  shard_view S order k old new i = old i \/ shard_view S order k old new i = new i.
Proof. exact per_shard_all_or_nothing. Qed.
Print Assumptions C06_fanout_block_per_shard.

Theorem C06_fanout_block_partial : forall (S : Type) (eqb : S -> S -> bool), (forall a b, eqb a b = true <-> a = b) ->
  forall n k (old new : nat -> S) j,
  (forall i, (i < n)%nat -> i <> j -> old i = new i) ->
  cache_view S n k old new = all_of S n old \/ cache_view S n k old new = all_of S n new.
Proof. intros S eqb H. exact (one_shard_block_all_or_nothing S). Qed.
Print Assumptions C06_fanout_block_partial.

(* exactly when the half-applied state can be seen *)
Theorem C06_fanout_block_torn_iff : forall (S : Type) (eqb : S -> S -> bool), (forall a b, eqb a b = true <-> a = b) ->
  forall n k (old new : nat -> S),
  (cache_view S n k old new <> all_of S n old /\ cache_view S n k old new <> all_of S n new) <->
  (exists i, (i < n)%nat /\ committed (fan_commit_order n) k i = true /\ old i <> new i) /\
  (exists j, (j < n)%nat /\ committed (fan_commit_order n) k j = false /\ old j <> new j).
Proof. exact torn_iff. Qed.
Print Assumptions C06_fanout_block_torn_iff.
