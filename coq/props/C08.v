(* C08 -- counters, rows and value files agree once no operation is in flight (sequential clause:
   every history of the full API from the empty cache, any clock trajectory, any volume oracle). *)
From DC Require Import DCPrelude Val DiskBase SqlBase Gen_Disk Disk Gen_Sql Cache TableFacts.

Theorem C08_counters_step : forall c s o now vols,
  counters_ok s -> counters_ok (fst (step c s o now vols)).
Proof. exact counters_step. Qed.
Print Assumptions C08_counters_step.

Theorem C08_counters : forall c h s, counters_ok s -> counters_ok (run c s h).
Proof. exact counters_run. Qed.
Print Assumptions C08_counters.

Theorem C08_len_is_row_count : forall c h,
  snd (op_len (run c init_st h)) = RInt (Z.of_nat (length (rows (run c init_st h)))).
Proof. exact len_reports_rows. Qed.
Print Assumptions C08_len_is_row_count.

From DC Require Import Refs SinvFacts.

(* the file clause: in every state satisfying the invariant (every history from the empty cache), the value
   files are exactly the files the rows refer to, each of the recorded size; rows without a file have size 0;
   the reported size is the total size of the value files and the reported length the number of rows *)
Theorem C08_files_agree : forall s, Sinv s ->
  (forall id, In id (map fst (fs s)) <-> In id (refs s)) /\
  Permutation.Permutation (map fst (fs s)) (refs s) /\
  (forall r id, In r (rows s) -> rfile r = Some id -> exists c, fs_get (fs s) id = Some c /\ fsize c = rsize r) /\
  (forall r, In r (rows s) -> rfile r = None -> rsize r = 0) /\
  n_size s = sumZ (map (fun p => fsize (snd p)) (fs s)) /\
  n_count s = Z.of_nat (length (rows s)).
Proof. exact files_agree. Qed.
Print Assumptions C08_files_agree.

Theorem C08_invariant_histories : forall c h s, Sinv s -> hist_ok c s h -> Sinv (run c s h).
Proof. exact sinv_run. Qed.
Print Assumptions C08_invariant_histories.

Theorem C08_invariant_from_empty : forall c h,
  (forall x, In x h -> is_push (fst (fst x)) = false) -> Sinv (run c init_st h).
Proof. exact sinv_run_nopush. Qed.
Print Assumptions C08_invariant_from_empty.
