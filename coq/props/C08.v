(* C08 -- counters, rows and value files agree once no operation is in flight (sequential clause:
   every history of the full API from the empty cache, any clock trajectory, any volume oracle). *)
From DC Require Import DCPrelude Val DiskBase SqlBase Gen_Disk Disk Gen_Sql Cache TableFacts.

Theorem C08_counters_step : forall c s o now vols,
  counters_ok s -> counters_ok (fst (step c s o now vols)).
Proof. exact counters_step. Qed.
Print Assumptions C08_counters_step.

Theorem C08_counters : forall c h s, counters_ok s -> counters_ok (run c s h).
Proof. exact counters_run. Qed.
Print Assumptions C08_counters.

Theorem C08_len_is_row_count : forall c h,
  snd (op_len (run c init_st h)) = RInt (Z.of_nat (length (rows (run c init_st h)))).
Proof. exact len_reports_rows. Qed.
Print Assumptions C08_len_is_row_count.

From DC Require Import Refs SinvFacts.

(* the file clause: in every state satisfying the invariant (every history from the empty cache), the value
   files are exactly the files the rows refer to, each of the recorded size; rows without a file have size 0;
   the reported size is the total size of the value files and the reported length the number of rows *)
Theorem C08_files_agree : forall s, Sinv s ->
  (forall id, In id (map fst (fs s)) <-> In id (refs s)) /\
  Permutation.Permutation (map fst (fs s)) (refs s) /\
  (forall r id, In r (rows s) -> rfile r = Some id -> exists c, fs_get (fs s) id = Some c /\ fsize c = rsize r) /\
  (forall r, In r (rows s) -> rfile r = None -> rsize r = 0) /\
  n_size s = sumZ (map (fun p => fsize (snd p)) (fs s)) /\
  n_count s = Z.of_nat (length (rows s)).
Proof. exact files_agree. Qed.
Print Assumptions C08_files_agree.

Theorem C08_invariant_histories : forall c h s, Sinv s -> hist_ok c s h -> Sinv (run c s h).
Proof. exact sinv_run. Qed.
Print Assumptions C08_invariant_histories.

Theorem C08_invariant_from_empty : forall c h,
  (forall x, In x h -> is_push (fst (fst x)) = false) -> Sinv (run c init_st h).
Proof. exact sinv_run_nopush. Qed.
Print Assumptions C08_invariant_from_empty.

(* The value files of a transaction block (model/TxnFiles.v: the two lists of Cache._transact, whose text is fixed by the translator's
   template).  Nested calls: Stored f (a row refers to the new file), Discarded f (the call handed its own file to cleanup), Released g
   (an old file handed to cleanup), Failed f (the call raised after writing f; the exception is caught inside the block). *)
From DC Require Import TxnFiles TxnFilesFacts.

(* ROLLBACK of the outermost transaction: the directory and the table are exactly as before the block, whatever happened inside *)
Theorem C08_block_rollback_restores_files : forall files rows es,
  (forall f, In f (flat_map new_file es) -> ~ In f files) ->
  fst (rollback rows (run files rows es)) = files /\ snd (rollback rows (run files rows es)) = rows.
Proof. exact rollback_restores_directory. Qed.
Print Assumptions C08_block_rollback_restores_files.

(* COMMIT when no nested call failed: no value file that no row refers to *)
Theorem C08_block_commit_no_orphan_partial : forall files rows es,
  (forall x, In x files -> In x rows) -> failed_files es = [] -> orphans (commit (run files rows es)) = [].
Proof. exact commit_without_failure_no_orphan. Qed.
Print Assumptions C08_block_commit_no_orphan_partial.

(* ... and FALSE when a nested call failed (finding C08-F1): its file stays behind *)
Theorem C08_block_commit_no_orphan_refuted : forall files rows es f,
  ~ In f rows -> ~ In f (flat_map new_file es) -> ~ In (Released f) es ->
  In f (orphans (commit (run files rows (es ++ [Failed f])))).
Proof. exact commit_after_failure_orphan. Qed.
Print Assumptions C08_block_commit_no_orphan_refuted.

Theorem C08_block_nested_failure_witness :
  (orphans (commit (run [1] [1] [Failed 2])) = [2]) /\ (dangling (commit (run [1] [1] [Failed 2])) = []) /\
  (orphans (commit (run [1] [1] [Failed 2; Stored 3; Released 1])) = [2]) /\
  (rollback [1] (run [1] [1] [Failed 2; Stored 3; Released 1]) = ([1], [1])) /\
  (orphans (commit (run [1] [1] [Stored 3; Released 1; Discarded 4])) = []).
Proof. exact nested_failure_witness. Qed.
Print Assumptions C08_block_nested_failure_witness.
