(* C08 -- counters, rows and value files agree once no operation is in flight (sequential clause:
   every history of the full API from the empty cache, any clock trajectory, any volume oracle). *)
From DC Require Import DCPrelude Val DiskBase SqlBase Gen_Disk Disk Gen_Sql Cache TableFacts.

Theorem C08_counters_step : forall c s o now vols,
  counters_ok s -> counters_ok (fst (step c s o now vols)).
Proof. exact counters_step. Qed.
Print Assumptions C08_counters_step.

Theorem C08_counters : forall c h s, counters_ok s -> counters_ok (run c s h).
Proof. exact counters_run. Qed.
Print Assumptions C08_counters.

Theorem C08_len_is_row_count : forall c h,
  snd (op_len (run c init_st h)) = RInt (Z.of_nat (length (rows (run c init_st h)))).
Proof. exact len_reports_rows. Qed.
Print Assumptions C08_len_is_row_count.
