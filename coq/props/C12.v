(* C12 -- Index is a persistent insertion-ordered dictionary.
   Property theorems only; each is closed by `exact` of a lemma proved in proofs/.
   Model: model/Index.v (calls the definitions generated from persistent.py) over the abstract
   insertion-ordered cache of model/QCache.v; specification: `od_step` of model/Index.v (validated against
   collections.OrderedDict by the harness on every run); concurrent clause: model/IndexConc.v. *)
From DC Require Import DCPrelude PersistentBase Gen_Persistent QCache Index IndexConc IndexFacts IndexConcFacts.

(* assignment, lookup, deletion, pop (with and without default), popitem / peekitem from either end,
   setdefault, update, keys / values / items, == and != against ordered and unordered mappings, iteration
   both ways, clear, len, get, in: same result, same items in the same order *)
Theorem C12_refines : forall c o, IInv c -> op_wf o ->
  ix_step c o = od_step c o /\ IInv (fst (ix_step c o)).
Proof. exact index_refines. Qed.
Print Assumptions C12_refines.

Theorem C12_history_refines : forall os c, IInv c -> Forall op_wf os -> ix_results c os = od_results c os.
Proof. exact index_history_refines. Qed.
Print Assumptions C12_history_refines.

(* the hypothesis IInv is satisfiable: Index(dir, pairs) establishes it *)
Theorem C12_constructor_establishes_invariant : forall init, IInv (ix_new init).
Proof. exact IInv_new. Qed.
Print Assumptions C12_constructor_establishes_invariant.

Theorem C12_persistent : forall c, ix_reopen c = c /\ ix_unpickle_pickle c = c.
Proof. exact index_persistent. Qed.
Print Assumptions C12_persistent.

Theorem C12_never_loses : forall c o, IInv c -> op_wf o -> ix_removing o = false ->
  index_init_policy = PolNone /\
  forall k, In k (ic_keys c) -> In k (ic_keys (fst (ix_step c o))).
Proof. exact index_never_loses. Qed.
Print Assumptions C12_never_loses.

(* Concurrent clause, full statement: "a key present in every committed state during a lookup is found".
   FALSE of the code as written (known finding C12-F1): there is a schedule in which the key is present in
   every committed state and yet the lookup raises KeyError. *)
Theorem C12_continuous_presence_refuted :
  exists file0 v0 ws sched,
    forallb present (trace (init file0 v0 ws) sched) = true /\
    lookup_result (run (init file0 v0 ws) sched) = Some None.
Proof. exact continuous_presence_refuted. Qed.
Print Assumptions C12_continuous_presence_refuted.

(* Strongest true restriction, for every schedule, any number of replacing writers and any mix of inline
   and file-backed values: the key is present in every committed state, and a lookup raises KeyError only
   if a writer's removal of a value file ran between the lookup's SELECT and its open. *)
Theorem C12_continuous_presence_partial : forall file0 v0 ws sched,
  let c := run (init file0 v0 ws) sched in
  forallb present (trace (init file0 v0 ws) sched) = true /\
  (lookup_result c = Some None -> removed_during_lookup c = true).
Proof. exact continuous_presence_partial. Qed.
Print Assumptions C12_continuous_presence_partial.

(* ... in particular never when all values are inline *)
Theorem C12_continuous_presence_inline : forall v0 ws sched,
  forallb (fun p => negb (snd p)) ws = true ->
  lookup_result (run (init false v0 ws) sched) <> Some None.
Proof. exact continuous_presence_inline. Qed.
Print Assumptions C12_continuous_presence_inline.
