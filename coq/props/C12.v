(* C12 -- Index is a persistent insertion-ordered dictionary.
   Property theorems only; each is closed by `exact` of a lemma proved in proofs/.
   Model: model/Index.v (calls the definitions generated from persistent.py) over the abstract
   insertion-ordered cache of model/QCache.v; specification: `od_step` of model/Index.v (validated against
   collections.OrderedDict by the harness on every run); concurrent clause: model/IndexConc.v. *)
From DC Require Import DCPrelude PersistentBase Gen_Persistent QCache Index IndexConc IndexFacts IndexConcFacts.
From DC Require Import Val DiskBase SqlBase Disk Cache Conc Txn TxnFacts TxnBlock TxnBlockFacts SetdefaultFacts.

(* assignment, lookup, deletion, pop (with and without default), popitem / peekitem from either end,
   setdefault, update, keys / values / items, == and != against ordered and unordered mappings, iteration
   both ways, clear, len, get, in: same result, same items in the same order *)
Theorem C12_refines : forall c o, IInv c -> op_wf o ->
  ix_step c o = od_step c o /\ IInv (fst (ix_step c o)).
Proof. exact index_refines. Qed.
Print Assumptions C12_refines.

Theorem C12_history_refines : forall os c, IInv c -> Forall op_wf os -> ix_results c os = od_results c os.
Proof. exact index_history_refines. Qed.
Print Assumptions C12_history_refines.

(* the hypothesis IInv is satisfiable: Index(dir, pairs) establishes it *)
Theorem C12_constructor_establishes_invariant : forall init, IInv (ix_new init).
Proof. exact IInv_new. Qed.
Print Assumptions C12_constructor_establishes_invariant.

Theorem C12_persistent : forall c, ix_reopen c = c /\ ix_unpickle_pickle c = c.
Proof. exact index_persistent. Qed.
Print Assumptions C12_persistent.

Theorem C12_never_loses : forall c o, IInv c -> op_wf o -> ix_removing o = false ->
  index_init_policy = PolNone /\
  forall k, In k (ic_keys c) -> In k (ic_keys (fst (ix_step c o))).
Proof. exact index_never_loses. Qed.
Print Assumptions C12_never_loses.

(* Concurrent clause, FULL STATEMENT: "a key present in every committed state during a lookup is found".
   Machine: model/IndexConc.v -- one reader (Index.__getitem__ -> Cache.get, lock-free path: SELECT the row, open the
   file it names, and when the file is gone SELECT again, giving up only when the row is gone or the SAME file is
   missing twice: `repaired` = Gen_Sql.get_retries_after_missing_file, read off the loop of Cache.get by the translator)
   against any number of writers that replace the value (store, BEGIN, UPDATE, COMMIT, remove the old file), inline
   and file-backed values mixed, under EVERY schedule.  Safety: the key is present in every committed state, the
   lookup never reports "absent" (lookup_result = Some None never happens; None = the lookup is still in progress,
   which a schedule that keeps replacing the value between the reader's steps can prolong), and a value it returns
   is the initial one or one that some writer wrote. *)
Theorem C12_continuous_presence : forall file0 v0 ws sched,
  let c := run repaired (init file0 v0 ws) sched in
  forallb present (trace repaired (init file0 v0 ws) sched) = true /\
  lookup_result c <> Some None /\
  (forall v, lookup_result c = Some (Some v) -> In v (v0 :: map fst ws)).
Proof. exact continuous_presence. Qed.
Print Assumptions C12_continuous_presence.

(* The defect that was repaired (known_findings.txt, fixed: property=C12, former finding C12-F1), on the reader the code
   had before (`old_reader`: a file that is gone was reported as KeyError at once): there is a schedule in which the
   key is present in every committed state and yet the lookup raises KeyError -- reader SELECT; writer store, BEGIN,
   UPDATE, COMMIT, remove the old file; reader open. *)
Theorem C12_continuous_presence_old_reader_refuted :
  exists file0 v0 ws sched,
    forallb present (trace old_reader (init file0 v0 ws) sched) = true /\
    lookup_result (run old_reader (init file0 v0 ws) sched) = Some None.
Proof. exact continuous_presence_old_reader_refuted. Qed.
Print Assumptions C12_continuous_presence_old_reader_refuted.

(* ... under that very schedule the reader of the code as it is has not reported anything after its failed open; its
   next two steps (SELECT again, open the new file) return the NEW value *)
Theorem C12_witness_schedule_repaired :
  lookup_result (run repaired witness_init witness_schedule) = None /\
  reader (run repaired witness_init witness_schedule) = RAgain (-1) /\
  lookup_result (run repaired witness_init (witness_schedule ++ [0; 0]%nat)) = Some (Some 8).
Proof. exact witness_schedule_repaired. Qed.
Print Assumptions C12_witness_schedule_repaired.

(* What was true of the old reader, for every schedule, any number of writers and any mix of inline and file-backed
   values (the strongest true restriction at the time): it raised KeyError only if a writer's removal of a value file
   ran between its SELECT and its open ... *)
Theorem C12_continuous_presence_old_reader_partial : forall file0 v0 ws sched,
  let c := run old_reader (init file0 v0 ws) sched in
  forallb present (trace old_reader (init file0 v0 ws) sched) = true /\
  (lookup_result c = Some None -> removed_during_lookup c = true).
Proof. exact continuous_presence_old_reader_partial. Qed.
Print Assumptions C12_continuous_presence_old_reader_partial.

(* ... in particular never when all values are inline *)
Theorem C12_continuous_presence_old_reader_inline : forall v0 ws sched,
  forallb (fun p => negb (snd p)) ws = true ->
  lookup_result (run old_reader (init false v0 ws) sched) <> Some None.
Proof. exact continuous_presence_old_reader_inline. Qed.
Print Assumptions C12_continuous_presence_old_reader_inline.

(* The same schedule on the machine of model/Conc.v with the REAL transaction bodies (Txn.w_set, Txn.r_get / r_get_old;
   key "k" holds a 20-character value in a file, the writer replaces it by another one): the old reader reports the
   default, the reader of the code as it is returns the new value, and under every placement of the writer among the
   reader's steps it returns the old or the new value.  (For every schedule of that machine: C05_lookup_looks_again,
   C05_lookup_answer_justified.) *)
From DC Require Import LookupFacts.
Theorem C12_lookup_overlapping_replace_on_the_machine :
  lookup_outcome (r_get_old wcfg wkey false wnow) 1 = ([ORes RDefault], true) /\
  lookup_outcome (r_get wcfg wkey false wnow) 1 = ([found wbig2], true) /\
  forallb (fun n => outcome_in (lookup_outcome (r_get wcfg wkey false wnow) n) [wbig; wbig2]) (seq 0 6) = true.
Proof. exact lookup_overlapping_replace_on_the_machine. Qed.
Print Assumptions C12_lookup_overlapping_replace_on_the_machine.

(* "each operation is atomic": setdefault.  The code runs its lookup / add loop inside one transaction
   (Gen_Persistent.index_setdefault_retry, index_setdefault_add with qc_in_txn = true; fixed by the template of
   tools/emit_persistent.py), which is one block of the machine of model/Conc.v.  For every number of clients,
   every program of the others (single calls and blocks over the real transaction bodies), every schedule and
   every kill: when the block commits, the committed state becomes, in one step, the result of `add` on the
   committed state the block started from, and the lock is free again. *)
Theorem C12_setdefault_atomic : forall c (progs : nat -> list bcall) sched i k v now pg f o,
  let cf := exec (init_config init_st (fun i => map (bcompile c) (progs i))) sched in
  c_pc (cl cf i) = AtCommit (w_block true [w_add true c k v false None SNull now pg] false) f o -> bo_ok o = true ->
  exists c', cstep cf i = Some c' /\ db c' = bo_db (body_add c k v false None SNull now pg (db cf) None) /\ lock c' = None.
Proof. exact setdefault_commit_atomic. Qed.
Print Assumptions C12_setdefault_atomic.

(* non-vacuity, and the defect that was repaired (known_findings.txt, fixed: property=C12): as three separate calls
   (lookup, add, lookup) a pop of the key placed between the add and the second lookup makes setdefault add the key
   a second time -- one setdefault, one successful pop, key still present -- which is the outcome of neither order of
   the two operations; the block gives one of the two orders under every placement of the pop. *)
Theorem C12_setdefault_as_separate_calls_refuted :
  summary (placed old_path [BOne c_pop] 6) = ([miss; ORes (RBool true); miss; ORes (RBool true); hit], [hit], 1%nat, true) /\
  (let s := summary (placed old_path [BOne c_pop] 6) in summary_eqb s order_sd_pop || summary_eqb s order_pop_sd = false) /\
  forallb (fun n => let s := summary (placed new_prog [BOne c_pop] n) in summary_eqb s order_sd_pop || summary_eqb s order_pop_sd)
          (seq 0 40) = true.
Proof. exact (conj old_setdefault_adds_twice (conj old_outcome_is_no_order repaired_setdefault_every_placement)). Qed.
Print Assumptions C12_setdefault_as_separate_calls_refuted.
