(* C02 -- keys address entries by documented equality and never alias one another (codec level;
   the table-level clauses -- no shadowing, iteration -- are in C03). *)
From DC Require Import DCPrelude Val DiskBase Gen_Disk Disk DiskFacts.

Theorem C02_identity : forall c k1 k2,
  pkk_inj c -> key_domain k1 = true -> key_domain k2 = true ->
  db_same (put c k1) (put c k2) = key_eq k1 k2.
Proof. exact key_identity. Qed.
Print Assumptions C02_identity.

Theorem C02_get_put : forall c k v raw,
  codec_ok c -> key_domain k = true -> put c k = PutOk v raw -> get c v raw = Some k.
Proof. exact get_put. Qed.
Print Assumptions C02_get_put.

Theorem C02_json_identity : forall c j k1 k2,
  db_same (jput c j k1) (jput c j k2) = zlist_eqb (jz j k1) (jz j k2).
Proof. exact json_key_identity. Qed.
Print Assumptions C02_json_identity.

(* JSONDisk: 1 and 1.0 are two keys (known finding C02-F1) *)
Theorem C02_json_int_float_refuted : forall c j,
  jz j (VInt 1) <> jz j (VFloat (FFin 1 0)) ->
  key_eq (VInt 1) (VFloat (FFin 1 0)) = true /\
  db_same (jput c j (VInt 1)) (jput c j (VFloat (FFin 1 0))) = false.
Proof. exact json_int_float_refuted. Qed.
Print Assumptions C02_json_int_float_refuted.
