(* C02 -- keys address entries by documented equality and never alias one another (codec level;
   the table-level clauses -- no shadowing, iteration -- are in C03). *)
From DC Require Import DCPrelude Val DiskBase Gen_Disk Disk DiskFacts.

Theorem C02_identity : forall c k1 k2,
  pkk_inj c -> key_domain k1 = true -> key_domain k2 = true ->
  db_same (put c k1) (put c k2) = key_eq k1 k2.
Proof. exact key_identity. Qed.
Print Assumptions C02_identity.

Theorem C02_get_put : forall c k v raw,
  codec_ok c -> key_domain k = true -> put c k = PutOk v raw -> get c v raw = Some k.
Proof. exact get_put. Qed.
Print Assumptions C02_get_put.

Theorem C02_json_identity : forall c j k1 k2,
  db_same (jput c j k1) (jput c j k2) = zlist_eqb (jz j k1) (jz j k2).
Proof. exact json_key_identity. Qed.
Print Assumptions C02_json_identity.

(* JSONDisk: 1 and 1.0 are two keys (known finding C02-F1) *)
Theorem C02_json_int_float_refuted : forall c j,
  jz j (VInt 1) <> jz j (VFloat (FFin 1 0)) ->
  key_eq (VInt 1) (VFloat (FFin 1 0)) = true /\
  db_same (jput c j (VInt 1)) (jput c j (VFloat (FFin 1 0))) = false.
Proof. exact json_int_float_refuted. Qed.
Print Assumptions C02_json_int_float_refuted.

(* ---- key-ordered iteration (Cache.iterkeys) never aliases or drops a key: for every table size (any number
        of 100-row pages) it lists every stored (key, raw) pair exactly once, strictly ascending (descending for
        reverse=True) in the database key order.  NULL keys (float('nan') binds as NULL) are excluded: the
        full statement is refuted in C03_iterkeys_null_key_refuted (finding C02-F2 / C03-F1). ---- *)
From Coq Require Import Permutation.
From DC Require Import SqlBase Gen_Sql Cache SinvFacts IterkeysFacts.

Theorem C02_iterkeys_each_key_once : forall s reverse,
  Winv s -> forallb (fun r => key_nonnull (rkey r)) (rows s) = true ->
  exists l, op_iterkeys s reverse = (s, RKeys l) /\
            Permutation l (keys_of (rows s)) /\ NoDup l /\ pairs_sorted reverse l /\
            length l = length (rows s).
Proof. exact iterkeys_result. Qed.
Print Assumptions C02_iterkeys_each_key_once.

(* the order of the listing: sql_cmp on the keys (NULL < numeric < TEXT < BLOB), then raw; a strict total
   order on pairs whose key is not REAL NaN *)
Theorem C02_key_order_strict_total : forall p q r,
  klt p p = false /\
  (klt p q = true -> klt q p = false) /\
  (kwf p = true -> kwf q = true -> kwf r = true -> klt p q = true -> klt q r = true -> klt p r = true) /\
  (klt p q = false -> klt q p = false -> sql_cmp (fst p) (fst q) = Eq /\ snd p = snd q).
Proof. intros p q r. exact (conj (klt_irrefl p) (conj (klt_asym p q) (conj (klt_trans p q r) (klt_total p q)))). Qed.
Print Assumptions C02_key_order_strict_total.
