(* C02 -- keys address entries by documented equality and never alias one another (codec level;
   the table-level clauses -- no shadowing, iteration -- are in C03). *)
From DC Require Import DCPrelude Val DiskBase Gen_Disk Disk DiskFacts.

Theorem C02_identity : forall c k1 k2,
  pkk_inj c -> key_domain k1 = true -> key_domain k2 = true ->
  db_same (put c k1) (put c k2) = key_eq k1 k2.
Proof. exact key_identity. Qed.
Print Assumptions C02_identity.

Theorem C02_get_put : forall c k v raw,
  codec_ok c -> key_domain k = true -> put c k = PutOk v raw -> get c v raw = Some k.
Proof. exact get_put. Qed.
Print Assumptions C02_get_put.

(* float('nan') is a key like any other (repair of finding C02-F2): the key domain excludes only unencodable text and
   streams; every NaN is the same key and differs from every other key (key_eq compares non-numbers by type and
   structure), so C02_identity / C02_get_put cover it: one entry, reached by get / in / del / pop, listed as NaN *)
Theorem C02_key_domain : forall k,
  key_domain k = match k with VStr s => encodable s | VStream _ => false | _ => true end.
Proof. exact key_domain_spec. Qed.
Print Assumptions C02_key_domain.

Theorem C02_nan_is_one_key :
  key_domain (VFloat FNaN) = true /\ key_eq (VFloat FNaN) (VFloat FNaN) = true /\
  forall k, k <> VFloat FNaN -> key_eq (VFloat FNaN) k = false /\ key_eq k (VFloat FNaN) = false.
Proof. exact nan_is_one_key. Qed.
Print Assumptions C02_nan_is_one_key.

(* Disk.put never hands SQLite a NULL key (nor a REAL NaN, which SQLite stores as NULL): every key, every codec *)
Theorem C02_put_never_null : forall c k dbk raw, put c k = PutOk dbk raw -> dbk <> SNull /\ dbk <> SReal FNaN.
Proof. exact put_never_null. Qed.
Print Assumptions C02_put_never_null.

Theorem C02_put_nan : forall c, put c (VFloat FNaN) = PutOk (SBlob (pkk c (VFloat FNaN))) false.
Proof. exact put_nan. Qed.
Print Assumptions C02_put_nan.

Theorem C02_json_identity : forall c j k1 k2,
  db_same (jput c j k1) (jput c j k2) = zlist_eqb (jz j k1) (jz j k2).
Proof. exact json_key_identity. Qed.
Print Assumptions C02_json_identity.

(* JSONDisk: 1 and 1.0 are two keys (known finding C02-F1) *)
Theorem C02_json_int_float_refuted : forall c j,
  jz j (VInt 1) <> jz j (VFloat (FFin 1 0)) ->
  key_eq (VInt 1) (VFloat (FFin 1 0)) = true /\
  db_same (jput c j (VInt 1)) (jput c j (VFloat (FFin 1 0))) = false.
Proof. exact json_int_float_refuted. Qed.
Print Assumptions C02_json_int_float_refuted.

(* ---- key-ordered iteration (Cache.iterkeys) never aliases or drops a key: for every table size (any number
        of 100-row pages) it lists every stored (key, raw) pair exactly once, strictly ascending (descending for
        reverse=True) in the database key order.  The table must hold no NULL key (keys_ok; the clause cannot be
        dropped: C03_iterkeys_null_key_table_incomplete).  Since the repair of finding C02-F2 / C03-F1 Disk.put
        yields no NULL key (C02_put_never_null), the clause is part of the state invariant Winv and holds in every
        state reachable through the API: C02_iterkeys_each_key_once_reachable has no hypothesis on the keys. ---- *)
From Coq Require Import Permutation.
From DC Require Import SqlBase Gen_Sql Cache TableFacts SqlOrderFacts SinvFacts IterkeysFacts.

(* general form: any table with pairwise distinct rows, (key, raw) unique under the SQLite comparison, no REAL NaN and no
   NULL key *)
Theorem C02_iterkeys_each_key_once_table : forall s reverse,
  NoDup (rows s) /\ keys_unique (rows s) /\ (forall r, In r (rows s) -> sv_wf (rkey r) = true) /\
  (forall r, In r (rows s) -> rkey r <> SNull) ->
  exists l, op_iterkeys s reverse = (s, RKeys l) /\
            Permutation l (keys_of (rows s)) /\ NoDup l /\ pairs_sorted reverse l /\
            length l = length (rows s).
Proof. exact iterkeys_result_table. Qed.
Print Assumptions C02_iterkeys_each_key_once_table.

(* every state satisfying the invariant (Winv: SinvFacts; it now contains "no NULL key") *)
Theorem C02_iterkeys_each_key_once : forall s reverse,
  Winv s ->
  exists l, op_iterkeys s reverse = (s, RKeys l) /\
            Permutation l (keys_of (rows s)) /\ NoDup l /\ pairs_sorted reverse l /\
            length l = length (rows s).
Proof. exact iterkeys_result. Qed.
Print Assumptions C02_iterkeys_each_key_once.

(* every state reachable from the empty cache: any configuration, any history of calls other than push *)
Theorem C02_iterkeys_each_key_once_reachable : forall c h reverse,
  (forall x, In x h -> is_push (fst (fst x)) = false) ->
  let s := run c init_st h in
  exists l, op_iterkeys s reverse = (s, RKeys l) /\
            Permutation l (keys_of (rows s)) /\ NoDup l /\ pairs_sorted reverse l /\
            length l = length (rows s).
Proof. exact iterkeys_result_reachable. Qed.
Print Assumptions C02_iterkeys_each_key_once_reachable.

(* the order of the listing: sql_cmp on the keys (NULL < numeric < TEXT < BLOB), then raw; a strict total
   order on pairs whose key is not REAL NaN *)
Theorem C02_key_order_strict_total : forall p q r,
  klt p p = false /\
  (klt p q = true -> klt q p = false) /\
  (kwf p = true -> kwf q = true -> kwf r = true -> klt p q = true -> klt q r = true -> klt p r = true) /\
  (klt p q = false -> klt q p = false -> sql_cmp (fst p) (fst q) = Eq /\ snd p = snd q).
Proof. intros p q r. exact (conj (klt_irrefl p) (conj (klt_asym p q) (conj (klt_trans p q r) (klt_total p q)))). Qed.
Print Assumptions C02_key_order_strict_total.
