(* C14 -- lock timeouts fail cleanly (Cache level; the FanoutCache / DjangoCache clause "never raises
   Timeout, reports the generated default" is C14_fanout_total in FanoutTimeoutFacts when present and is
   enumerated exhaustively by the harness). *)
From DC Require Import DCPrelude Conc ConcFacts ConcTheorems Gen_Sql ConcBridge.

Theorem C14_timeout_no_effect : forall (D R : Type) (refs : D -> list Z) (Dinv : D -> Prop) (c : config D R) i w g j wk,
  Inv refs Dinv c -> c_pc (cl c i) = AtBegin w (Some g) -> w_retry w = false -> lock c = Some (j, wk) ->
  exists c1 c2, cstep c i = Some c1 /\ cstep c1 i = Some c2 /\
    db c2 = db c /\ lock c2 = lock c /\ files c2 g = FNone /\ (forall g', g' <> g -> files c2 g' = files c g') /\
    c_pc (cl c2 i) = Idle /\ c_done (cl c2 i) = c_done (cl c i) ++ [OTimeout R].
Proof. exact timeout_no_effect. Qed.
Print Assumptions C14_timeout_no_effect.

Theorem C14_timeout_no_effect_inline : forall (D R : Type) (c : config D R) i w j wk,
  c_pc (cl c i) = AtBegin w None -> w_retry w = false -> lock c = Some (j, wk) ->
  exists c1 c2, cstep c i = Some c1 /\ cstep c1 i = Some c2 /\
    db c2 = db c /\ lock c2 = lock c /\ files c2 = files c /\
    c_pc (cl c2 i) = Idle /\ c_done (cl c2 i) = c_done (cl c i) ++ [OTimeout R].
Proof. exact timeout_no_file_no_effect. Qed.
Print Assumptions C14_timeout_no_effect_inline.

Theorem C14_retry_waits : forall (D R : Type) (c : config D R) i w f j wk,
  c_pc (cl c i) = AtBegin w f -> w_retry w = true -> lock c = Some (j, wk) -> cstep c i = Some c.
Proof. exact retry_waits. Qed.
Print Assumptions C14_retry_waits.

Theorem C14_retry_then_succeeds : forall (D R : Type) (c : config D R) i w f,
  lock c = None -> c_pc (cl c i) = AtBegin w f ->
  exists c', cstep c i = Some c' /\ c_pc (cl c' i) = InTxn w f /\ lock c' = Some (i, db c).
Proof. exact free_lock_is_granted. Qed.
Print Assumptions C14_retry_then_succeeds.

Theorem C14_reads_unblocked : forall (D R : Type) (c : config D R) i r rest,
  c_pc (cl c i) = Idle -> c_todo (cl c i) = ORead r :: rest ->
  exists c', cstep c i = Some c' /\ db c' = db c /\ lock c' = lock c.
Proof. exact reads_unblocked. Qed.
Print Assumptions C14_reads_unblocked.

(* the source still removes the value file on a failed BEGIN and after ROLLBACK *)
Theorem C14_source_removes_file_on_failure : transact_failure_removes_file = true.
Proof. exact bridge_transact_failure_removes_file. Qed.
Print Assumptions C14_source_removes_file_on_failure.

From DC Require Import Val DiskBase Gen_Disk Disk FanoutBase Gen_Fanout Fanout FanoutFacts FanoutTimeoutFacts.

(* FanoutCache (and DjangoCache, which delegates to it) data operations never raise Timeout: finite case
   analysis over the delegation table regenerated from fanout.py *)
Theorem C14_fanout_never_raises_timeout :
  forall m d, In (m, d) fanout_table ->
    (exists r, documented_on_timeout m = Some r /\ raised_res d ETimeout = r /\ r <> RRaise ETimeout /\
               forall C ceqb cls hashf n env st, 0 < n -> length st = Z.to_nat n ->
                 fan_keyed C ceqb cls hashf d n env (Raised ETimeout) st = (st, r))
    \/ (documented_on_timeout m = None /\ never_times_out m = true /\ fd_retry d = None /\ fd_catch d = []).
Proof. exact C14_fanout_total. Qed.
Print Assumptions C14_fanout_never_raises_timeout.

(* bulk removals through FanoutCache resume after a Timeout and add every partial count *)
Theorem C14_fanout_remove_resumes : forall (partials : list Z) (last : Z),
  remove_attempts (map (fun c => (c, true)) partials ++ [(last, false)]) = (sumZ partials + last, true).
Proof. exact remove_resumes_after_timeout. Qed.
Print Assumptions C14_fanout_remove_resumes.

(* the statement-level retry of Cache.__init__ / reset (Cache._sql_retry; give-up test, pause and message regenerated
   from core.py): for every behaviour of the statement (out) and every clock (clk; start = the reading before the
   first attempt), what the call does is the result of the first attempt that is not OperationalError('database is
   locked'), or that error once more than the time limit has passed, and every earlier attempt hit the lock within the
   limit; and with a clock on which every pause lasts at least the generated pause the call ends within
   limit / pause + 2 attempts (bounded wait). *)
From DC Require Import Gen_Retry Retry RetryFacts.

Theorem C14_sql_retry_sound : forall (out : nat -> attempt) (clk : nat -> Z) (start : Z) (fuel : nat),
  match sql_retry out clk start fuel with
  | Returned k => out k = AOk /\ waited out clk start k
  | Reraised k => out k <> AOk /\ is_locked (out k) = false /\ waited out clk start k
  | GaveUp k => is_locked (out k) = true /\ clk k - start > retry_limit_us /\ waited out clk start k
  | OutOfFuel => waited out clk start fuel
  end.
Proof. exact sql_retry_sound. Qed.
Print Assumptions C14_sql_retry_sound.

Theorem C14_sql_retry_bounded_wait : forall (out : nat -> attempt) (clk : nat -> Z) (start : Z),
  start <= clk 0%nat -> (forall i, clk i + retry_sleep_us <= clk (S i)) ->
  forall fuel, retry_attempt_bound <= Z.of_nat fuel -> sql_retry out clk start fuel <> OutOfFuel.
Proof. exact sql_retry_terminates. Qed.
Print Assumptions C14_sql_retry_bounded_wait.
