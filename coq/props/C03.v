(* C03 -- a single client sees an exact dictionary with expiry, tags and statistics (row level).
   This file holds the removal clause ("nothing is ever removed except by an explicit removal call, by
   expiry, or by size-based eviction once the size limit has been reached"), the insertion-order clause
   and the counters clause; the lookup clauses are in C04 (only live items are served, live items are
   found) and the value/key clauses in C01/C02.  The dictionary laws over whole states (get-after-set,
   no shadowing, iteration = rows) are in SinvFacts when present; all of them are checked against a
   plain-Python reference dictionary and the table after every call of every generated history. *)
From DC Require Import DCPrelude Val DiskBase SqlBase Gen_Disk Disk Gen_Sql Cache
     TableFacts TableRows SqlBridge ExpiryFacts RemovalFacts.

(* every reachable state has strictly ascending rowids: insertion order = rowid order = iteration order *)
Theorem C03_rowids_ascending : forall c h, rowids_ok (run c init_st h).
Proof. intros c h. apply rowids_run, rowids_init. Qed.
Print Assumptions C03_rowids_ascending.

Theorem C03_insert_appends : forall mk s, inserts_at mk ->
  rows (t_insert mk s) = rows s ++ [mk (next_rowid (rows s))] /\
  forall r, In r (rows s) -> rowid r < rowid (mk (next_rowid (rows s))).
Proof. exact insert_appends. Qed.
Print Assumptions C03_insert_appends.

Theorem C03_counters : forall c h,
  n_count (run c init_st h) = Z.of_nat (length (rows (run c init_st h))).
Proof. intros c h. apply (counters_run c h init_st counters_init). Qed.
Print Assumptions C03_counters.

(* removal: the lazy cull inside writes *)
Theorem C03_cull_removes_only : forall c now pg s r,
  rowids_ok s -> In r (rows s) -> ~ has (fst (cull c now pg s)) (rowid r) ->
  passed now r = true \/ evictable c pg.
Proof. exact cull_removes_only. Qed.
Print Assumptions C03_cull_removes_only.

Theorem C03_set_removes_only : forall c s k v rd e tag now pg r dbk raw,
  rowids_ok s -> put (c_codec c) k = PutOk dbk raw -> In r (rows s) -> key_match dbk (b2z raw) r = false ->
  ~ has (fst (op_set c s k v rd e tag now pg)) (rowid r) ->
  passed now r = true \/ evictable c pg.
Proof. exact set_removes_only. Qed.
Print Assumptions C03_set_removes_only.

Theorem C03_get_removes_nothing : forall c s k rd now rid, has s rid -> has (fst (op_get c s k rd now)) rid.
Proof. exact get_removes_nothing. Qed.
Print Assumptions C03_get_removes_nothing.

Theorem C03_contains_changes_nothing : forall c s k now, fst (op_contains c s k now) = s.
Proof. exact contains_removes_nothing. Qed.
Print Assumptions C03_contains_changes_nothing.

Theorem C03_touch_removes_nothing : forall c s k e now rid, has s rid -> has (fst (op_touch c s k e now)) rid.
Proof. exact touch_removes_nothing. Qed.
Print Assumptions C03_touch_removes_nothing.

Theorem C03_delete_removes_only_its_item : forall c s k di now r dbk raw,
  rowids_ok s -> put (c_codec c) k = PutOk dbk raw -> In r (rows s) ->
  ~ has (fst (op_delete c s k di now)) (rowid r) ->
  key_match dbk (b2z raw) r = true /\ live_at now r = true.
Proof. exact delete_removes_only. Qed.
Print Assumptions C03_delete_removes_only_its_item.

Theorem C03_pop_removes_only_its_item : forall c s k now r dbk raw,
  rowids_ok s -> put (c_codec c) k = PutOk dbk raw -> In r (rows s) ->
  ~ has (fst (op_pop c s k now)) (rowid r) ->
  key_match dbk (b2z raw) r = true /\ live_at now r = true.
Proof. exact pop_removes_only. Qed.
Print Assumptions C03_pop_removes_only_its_item.
