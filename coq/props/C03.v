(* C03 -- a single client sees an exact dictionary with expiry, tags and statistics (row level).
   This file holds the removal clause ("nothing is ever removed except by an explicit removal call, by
   expiry, or by size-based eviction once the size limit has been reached"), the insertion-order clause
   and the counters clause; the lookup clauses are in C04 (only live items are served, live items are
   found) and the value/key clauses in C01/C02.  The dictionary laws over whole states (get-after-set,
   no shadowing, iteration = rows) are in SinvFacts when present; all of them are checked against a
   plain-Python reference dictionary and the table after every call of every generated history. *)
From DC Require Import DCPrelude Val DiskBase SqlBase Gen_Disk Disk Gen_Sql Cache
     TableFacts TableRows SqlBridge ExpiryFacts RemovalFacts.

(* every reachable state has strictly ascending rowids: insertion order = rowid order = iteration order *)
Theorem C03_rowids_ascending : forall c h, rowids_ok (run c init_st h).
Proof. intros c h. apply rowids_run, rowids_init. Qed.
Print Assumptions C03_rowids_ascending.

Theorem C03_insert_appends : forall mk s, inserts_at mk ->
  rows (t_insert mk s) = rows s ++ [mk (next_rowid (rows s))] /\
  forall r, In r (rows s) -> rowid r < rowid (mk (next_rowid (rows s))).
Proof. exact insert_appends. Qed.
Print Assumptions C03_insert_appends.

Theorem C03_counters : forall c h,
  n_count (run c init_st h) = Z.of_nat (length (rows (run c init_st h))).
Proof. intros c h. apply (counters_run c h init_st counters_init). Qed.
Print Assumptions C03_counters.

(* removal: the lazy cull inside writes *)
Theorem C03_cull_removes_only : forall c now pg s r,
  rowids_ok s -> In r (rows s) -> ~ has (fst (cull c now pg s)) (rowid r) ->
  passed now r = true \/ evictable c pg.
Proof. exact cull_removes_only. Qed.
Print Assumptions C03_cull_removes_only.

Theorem C03_set_removes_only : forall c s k v rd e tag now pg r dbk raw,
  rowids_ok s -> put (c_codec c) k = PutOk dbk raw -> In r (rows s) -> key_match dbk (b2z raw) r = false ->
  ~ has (fst (op_set c s k v rd e tag now pg)) (rowid r) ->
  passed now r = true \/ evictable c pg.
Proof. exact set_removes_only. Qed.
Print Assumptions C03_set_removes_only.

Theorem C03_get_removes_nothing : forall c s k rd now rid, has s rid -> has (fst (op_get c s k rd now)) rid.
Proof. exact get_removes_nothing. Qed.
Print Assumptions C03_get_removes_nothing.

Theorem C03_contains_changes_nothing : forall c s k now, fst (op_contains c s k now) = s.
Proof. exact contains_removes_nothing. Qed.
Print Assumptions C03_contains_changes_nothing.

Theorem C03_touch_removes_nothing : forall c s k e now rid, has s rid -> has (fst (op_touch c s k e now)) rid.
Proof. exact touch_removes_nothing. Qed.
Print Assumptions C03_touch_removes_nothing.

Theorem C03_delete_removes_only_its_item : forall c s k di now r dbk raw,
  rowids_ok s -> put (c_codec c) k = PutOk dbk raw -> In r (rows s) ->
  ~ has (fst (op_delete c s k di now)) (rowid r) ->
  key_match dbk (b2z raw) r = true /\ live_at now r = true.
Proof. exact delete_removes_only. Qed.
Print Assumptions C03_delete_removes_only_its_item.

Theorem C03_pop_removes_only_its_item : forall c s k now r dbk raw,
  rowids_ok s -> put (c_codec c) k = PutOk dbk raw -> In r (rows s) ->
  ~ has (fst (op_pop c s k now)) (rowid r) ->
  key_match dbk (b2z raw) r = true /\ live_at now r = true.
Proof. exact pop_removes_only. Qed.
Print Assumptions C03_pop_removes_only_its_item.

From DC Require Import DiskFacts Refs SinvFacts DictFacts IterFacts.

(* ---- the dictionary laws over whole states (every state satisfying the invariant Sinv, which holds for
        every history from the empty cache: C03_invariant_reachable) ---- *)
Theorem C03_invariant_reachable : forall c h,
  (forall x, In x h -> is_push (fst (fst x)) = false) -> Sinv (run c init_st h).
Proof. exact sinv_run_nopush. Qed.
Print Assumptions C03_invariant_reachable.

Theorem C03_invariant_step : forall c s o now vols, op_hyp s o = true -> Sinv s -> Sinv (fst (step c s o now vols)).
Proof. exact sinv_step. Qed.
Print Assumptions C03_invariant_step.

(* get after set returns the stored value with its expiry and tag -- or that write's own lazy cull removed it *)
Theorem C03_get_after_set : forall c s k v rd e tag now pg now',
  Sinv s -> codec_ok (c_codec c) -> key_domain k = true -> shape_ok v rd = true ->
  snd (op_set c s k v rd e tag now pg) = RBool true ->
  live_opt now' (expire_at now e) = true ->
  let s' := fst (op_set c s k v rd e tag now pg) in
  (snd (op_get c s' k false now') = RVal (FVal (expected v)) (expire_at now e) tag /\
   snd (op_contains c s' k now') = RBool true) \/
  (forall rd' now'', snd (op_get c s' k rd' now'') = RDefault /\ snd (op_contains c s' k now'') = RBool false).
Proof. exact get_after_set_cull. Qed.
Print Assumptions C03_get_after_set.

(* distinct keys never shadow each other: lookups of k2 are unchanged by set/delete/pop/touch/incr on k1
   (cull_limit 0: no lazy removal) *)
Theorem C03_no_shadowing : forall c, c_cull_limit c = 0 -> forall k1 k2, other_key c k1 k2 ->
  forall s rd' now', Sinv s ->
  let same := fun s' => snd (op_get c s' k2 rd' now') = snd (op_get c s k2 rd' now') /\
                        snd (op_contains c s' k2 now') = snd (op_contains c s k2 now') in
  (forall v rd e tag now pg, same (fst (op_set c s k1 v rd e tag now pg))) /\
  (forall di now, same (fst (op_delete c s k1 di now))) /\
  (forall now, same (fst (op_pop c s k1 now))) /\
  (forall e now, same (fst (op_touch c s k1 e now))) /\
  (forall d df now pg, same (fst (op_incr c s k1 d df now pg))).
Proof. exact no_shadowing. Qed.
Print Assumptions C03_no_shadowing.

Theorem C03_absent_after_delete : forall c s k di now,
  Sinv s -> snd (op_delete c s k di now) = RBool true ->
  forall rd now', snd (op_get c (fst (op_delete c s k di now)) k rd now') = RDefault /\
                  snd (op_contains c (fst (op_delete c s k di now)) k now') = RBool false.
Proof. exact absent_after_delete. Qed.
Print Assumptions C03_absent_after_delete.

Theorem C03_absent_after_pop : forall c s k now v e t,
  Sinv s -> snd (op_pop c s k now) = RVal v e t ->
  forall rd now', snd (op_get c (fst (op_pop c s k now)) k rd now') = RDefault /\
                  snd (op_contains c (fst (op_pop c s k now)) k now') = RBool false.
Proof. exact absent_after_pop. Qed.
Print Assumptions C03_absent_after_pop.

Theorem C03_add_is_set_when_absent_or_dead : forall c s k v rd e tag now pg dbk raw,
  put (c_codec c) k = PutOk dbk raw ->
  match filter (key_match dbk (b2z raw)) (rows s) with [] => True | r0 :: _ => live_at now r0 = false end ->
  op_add c s k v rd e tag now pg = op_set c s k v rd e tag now pg.
Proof. exact add_is_set. Qed.
Print Assumptions C03_add_is_set_when_absent_or_dead.

Theorem C03_incr_after_set : forall c s k z e tag now pg d df now1 pg1 now2,
  c_cull_limit c = 0 -> Sinv s -> key_domain k = true -> in_int64 z = true -> in_int64 (z + d) = true ->
  snd (op_set c s k (VInt z) false e tag now pg) = RBool true ->
  live_opt now1 (expire_at now e) = true -> live_opt now2 (expire_at now e) = true ->
  let s1 := fst (op_set c s k (VInt z) false e tag now pg) in
  snd (op_incr c s1 k d df now1 pg1) = RVal (FVal (VInt (z + d))) None SNull /\
  snd (op_get c (fst (op_incr c s1 k d df now1 pg1)) k false now2) = RVal (FVal (VInt (z + d))) (expire_at now e) tag.
Proof. exact set_incr_get. Qed.
Print Assumptions C03_incr_after_set.

(* iteration lists every key in insertion order, for every table size (all 100-row pages), reversed
   iteration the reverse, and len is their number *)
Theorem C03_iteration_is_insertion_order : forall s, Sinv s ->
  snd (op_iter s true) = RKeys (keys_of (rows s)) /\ snd (op_iter s false) = RKeys (rev (keys_of (rows s))) /\
  snd (op_len s) = RInt (Z.of_nat (length (keys_of (rows s)))).
Proof. exact iter_sinv. Qed.
Print Assumptions C03_iteration_is_insertion_order.

Theorem C03_set_keeps_or_appends : forall c, c_cull_limit c = 0 -> forall s k v rd e tag now pg dbk raw,
  put (c_codec c) k = PutOk dbk raw -> snd (op_set c s k v rd e tag now pg) = RBool true ->
  keys_of (rows (fst (op_set c s k v rd e tag now pg))) =
  match filter (key_match dbk (b2z raw)) (rows s) with
  | [] => keys_of (rows s) ++ [(dbk, raw)]
  | _ :: _ => keys_of (rows s)
  end.
Proof. exact set_position. Qed.
Print Assumptions C03_set_keeps_or_appends.

(* ---- key-ordered iteration: Cache.iterkeys pages through the table 100 rows at a time by (key, raw) cursor;
        for every table size it lists every row exactly once in ORDER BY key, raw (reverse=True: the reverse),
        and changes nothing.  The table must hold no NULL key; since the repair of finding C03-F1 / C02-F2 (Disk.put
        pickles a float NaN key instead of binding it as NULL) that is a clause of the invariant Sinv, so the
        statement holds for every state satisfying Sinv and for every reachable state with no further hypothesis. ---- *)
From DC Require Import SqlOrderFacts DictExamples IterkeysFacts.

(* the invariant excludes NULL keys *)
Theorem C03_invariant_no_null_key : forall s, Sinv s -> forall r, In r (rows s) -> rkey r <> SNull.
Proof. exact sinv_no_null_key. Qed.
Print Assumptions C03_invariant_no_null_key.

Theorem C03_reachable_no_null_key : forall c h,
  (forall x, In x h -> is_push (fst (fst x)) = false) ->
  forall r, In r (rows (run c init_st h)) -> rkey r <> SNull.
Proof. exact reachable_no_null_key. Qed.
Print Assumptions C03_reachable_no_null_key.

Theorem C03_iterkeys_is_key_order : forall s reverse,
  Sinv s ->
  op_iterkeys s reverse = (s, RKeys (keys_of (sql_order reverse [ord_sql rkey; ord_bool rraw] (rows s)))).
Proof. exact iterkeys_sinv. Qed.
Print Assumptions C03_iterkeys_is_key_order.

(* every state reachable from the empty cache: any configuration, any history of calls other than push *)
Theorem C03_iterkeys_is_key_order_reachable : forall c h reverse,
  (forall x, In x h -> is_push (fst (fst x)) = false) ->
  let s := run c init_st h in
  op_iterkeys s reverse = (s, RKeys (keys_of (sql_order reverse [ord_sql rkey; ord_bool rraw] (rows s)))).
Proof. exact iterkeys_reachable. Qed.
Print Assumptions C03_iterkeys_is_key_order_reachable.

(* general form: any table with pairwise distinct rows, (key, raw) unique under the SQLite comparison, no REAL NaN and no
   NULL key (e.g. a directory not written through this API) *)
Theorem C03_iterkeys_is_key_order_table : forall s reverse,
  NoDup (rows s) /\ keys_unique (rows s) /\ (forall r, In r (rows s) -> sv_wf (rkey r) = true) /\
  (forall r, In r (rows s) -> rkey r <> SNull) ->
  op_iterkeys s reverse = (s, RKeys (keys_of (sql_order reverse [ord_sql rkey; ord_bool rraw] (rows s)))).
Proof. exact iterkeys_all_rows_table. Qed.
Print Assumptions C03_iterkeys_is_key_order_table.

Theorem C03_iterkeys_changes_nothing : forall s reverse, fst (op_iterkeys s reverse) = s.
Proof. exact iterkeys_state. Qed.
Print Assumptions C03_iterkeys_changes_nothing.

(* the hypotheses are satisfiable: a reachable 7-row state with int, float, text, bytes and pickled keys *)
Theorem C03_iterkeys_hyps_satisfiable :
  (forall x, In x iterkeys_demo_hist -> is_push (fst (fst x)) = false) /\
  Sinv iterkeys_demo_st /\ Winv iterkeys_demo_st /\
  (NoDup (rows iterkeys_demo_st) /\ keys_unique (rows iterkeys_demo_st) /\
   (forall r, In r (rows iterkeys_demo_st) -> sv_wf (rkey r) = true) /\
   (forall r, In r (rows iterkeys_demo_st) -> rkey r <> SNull)) /\
  forallb (fun r => key_nonnull (rkey r)) (rows iterkeys_demo_st) = true /\
  length (rows iterkeys_demo_st) = 7%nat.
Proof. exact iterkeys_demo_hyps. Qed.
Print Assumptions C03_iterkeys_hyps_satisfiable.

(* The former finding C03-F1 (C03_iterkeys_null_key_refuted: float('nan') keys were stored as NULL, each set inserted a
   new row, iterkeys stopped at / never reached the NULL rows).  On the repaired Disk.put (the generated decision tree)
   the same witness history c[nan]=1; c[7]=2; c[nan]=3 gives TWO rows -- the NaN key is the pickle of NaN, raw = 0, the
   third call replaces the first entry -- iterkeys lists both keys in either direction, and the NaN entry is reached by
   get / in / delete and decoded back to NaN. *)
Theorem C03_iterkeys_nan_key_complete :
  (forall x, In x iterkeys_nan_hist -> is_push (fst (fst x)) = false) /\
  let s := run demo_cfg init_st iterkeys_nan_hist in
  Sinv s /\ keys_of (rows s) = [(SBlob (pkk demo_codec (VFloat FNaN)), false); (SInt 7, true)] /\
  snd (op_iterkeys s false) = RKeys [(SInt 7, true); (SBlob (pkk demo_codec (VFloat FNaN)), false)] /\
  snd (op_iterkeys s true) = RKeys [(SBlob (pkk demo_codec (VFloat FNaN)), false); (SInt 7, true)] /\
  (forall reverse, snd (op_iterkeys s reverse) = RKeys (keys_of (sql_order reverse [ord_sql rkey; ord_bool rraw] (rows s)))) /\
  snd (op_get demo_cfg s (VFloat FNaN) false 3) = RVal (FVal (VInt 3)) None SNull /\
  snd (op_contains demo_cfg s (VFloat FNaN) 3) = RBool true /\
  get demo_codec (SBlob (pkk demo_codec (VFloat FNaN))) false = Some (VFloat FNaN) /\
  keys_of (rows (fst (op_delete demo_cfg s (VFloat FNaN) false 3))) = [(SInt 7, true)].
Proof. exact iterkeys_nan_key_complete. Qed.
Print Assumptions C03_iterkeys_nan_key_complete.

(* The no-NULL clause of the table-level statement cannot be dropped: on the table the RELEASED put left behind for that
   history (keys NULL, 7, NULL: C18_released_put_nan_null) iterkeys lists [NULL] ascending and [7] descending.  No state
   reachable through the repaired API holds such a row (C03_reachable_no_null_key); a NULL database key addresses no row. *)
Theorem C03_iterkeys_null_key_table_incomplete :
  let s := set_rows init_st null_key_table 3 0 in
  NoDup (rows s) /\ keys_unique (rows s) /\ (forall r, In r (rows s) -> sv_wf (rkey r) = true) /\
  snd (op_iterkeys s false) = RKeys [(SNull, true)] /\
  snd (op_iterkeys s true) = RKeys [(SInt 7, true)].
Proof. exact iterkeys_null_key_table_incomplete. Qed.
Print Assumptions C03_iterkeys_null_key_table_incomplete.

Theorem C03_null_key_matches_nothing : forall z r, key_match SNull z r = false.
Proof. exact null_key_matches_nothing. Qed.
Print Assumptions C03_null_key_matches_nothing.
