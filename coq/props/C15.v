(* C15 -- Lock, RLock and BoundedSemaphore exclude across threads and processes.
   Property theorems only; each is closed by `exact` of a lemma proved in proofs/.

   Model: model/Recipes.v -- any number of clients (a list), each with an arbitrary program over
   acquire / release / work / probe; one step = one atomic cache operation or one
   `with cache.transact(retry=True)` block on the recipe's key (atomicity is ASSUMED here: C05/C06);
   `run sched` for an arbitrary schedule (list of client ids).  Guards, stored values, defaults and
   the cache methods called come from gen/Gen_Recipes.v (regenerated from recipes.py).

   Liveness under contention (a spinning contender eventually wins) needs a fair scheduler and is
   NOT claimed; the *_progress theorems are the provable part: a free resource is taken by the next
   attempt of any contender, and a release frees it. *)
From DC Require Import DCPrelude RecipesBase Gen_Recipes Recipes RecipesFacts RLockFacts.

(* ---- Lock ---- *)

(* #clients in their critical section <= 1, and = 1 iff the key is present; programs release only
   what they hold (`balanced`): Lock.release deletes the key whoever holds it, see
   RecipesFacts.lock_foreign_release_breaks_exclusion. *)
Theorem C15_lock_mutex : forall progs sched,
  Forall (fun p => balanced 0 p = true) progs ->
  let cfg := run _ lock_acq lock_rel lock_probe sched (init _ None progs) in
  holders (clients cfg) <= 1 /\ (holders (clients cfg) = 1 <-> shared cfg = Some tt).
Proof. exact lock_mutex. Qed.
Print Assumptions C15_lock_mutex.

Theorem C15_lock_progress : forall (cfg : config lock_state) c cl rest,
  nth_error (clients cfg) c = Some cl -> prog cl = OAcq :: rest -> shared cfg = None ->
  let cfg' := step _ lock_acq lock_rel lock_probe cfg c in
  hd_error (trace cfg') = Some (c, EAcqOk) /\
  nth_error (clients cfg') c = Some {| prog := rest; held := held cl + 1 |}.
Proof. exact lock_progress. Qed.
Print Assumptions C15_lock_progress.

Theorem C15_lock_release_frees : forall (cfg : config lock_state) c cl rest,
  nth_error (clients cfg) c = Some cl -> prog cl = ORel :: rest ->
  shared (step _ lock_acq lock_rel lock_probe cfg c) = None.
Proof. exact lock_release_frees. Qed.
Print Assumptions C15_lock_release_frees.

(* ---- RLock: for ALL programs (no discipline assumed) ---- *)

Theorem C15_rlock_mutex : forall progs sched,
  let cfg := run _ rlock_acq rlock_rel rlock_probe sched (init _ None progs) in
  holders (clients cfg) <= 1 /\ (holders (clients cfg) = 1 <-> 0 < rlock_count (shared cfg)).
Proof. exact rlock_mutex. Qed.
Print Assumptions C15_rlock_mutex.

(* holder = stored owner, its depth (acquires minus releases) = stored count; holders coincide;
   the lock is free (count 0) exactly when every client has released as often as it acquired *)
Theorem C15_rlock_depth : forall progs sched,
  let cfg := run _ rlock_acq rlock_rel rlock_probe sched (init _ None progs) in
  (forall c cl, nth_error (clients cfg) c = Some cl -> 0 < held cl ->
     rlock_owner (shared cfg) = Some (Z.of_nat c) /\ held cl = rlock_count (shared cfg)) /\
  (forall c1 c2 cl1 cl2, nth_error (clients cfg) c1 = Some cl1 -> nth_error (clients cfg) c2 = Some cl2 ->
     0 < held cl1 -> 0 < held cl2 -> c1 = c2) /\
  (rlock_count (shared cfg) = 0 <-> forall c cl, nth_error (clients cfg) c = Some cl -> held cl = 0).
Proof. exact rlock_depth. Qed.
Print Assumptions C15_rlock_depth.

Theorem C15_rlock_reacquire_only_holder : forall me s,
  0 < rlock_count s -> (rlock_acq me s <> None <-> rlock_owner s = Some me).
Proof. exact rlock_reacquire_only_holder. Qed.
Print Assumptions C15_rlock_reacquire_only_holder.

Theorem C15_rlock_release_refused : forall me s,
  rlock_owner s <> Some me \/ rlock_count s <= 0 -> rlock_rel me s = None.
Proof. exact rlock_release_refused. Qed.
Print Assumptions C15_rlock_release_refused.

(* a refused release (of any recipe) leaves the stored state and the caller's depth unchanged *)
Theorem C15_refused_release_changes_nothing : forall St acq rel probe (cfg : config St) c cl rest,
  nth_error (clients cfg) c = Some cl -> prog cl = ORel :: rest -> rel (Z.of_nat c) (shared cfg) = None ->
  let cfg' := step St acq rel probe cfg c in
  shared cfg' = shared cfg /\ hd_error (trace cfg') = Some (c, ERelRefused) /\
  nth_error (clients cfg') c = Some {| prog := rest; held := held cl |}.
Proof. exact @step_refused_unchanged. Qed.
Print Assumptions C15_refused_release_changes_nothing.

Theorem C15_rlock_release_by_holder : forall me s,
  rlock_owner s = Some me -> 0 < rlock_count s -> rlock_rel me s = Some (Some (Some me, rlock_count s - 1)).
Proof. exact rlock_release_by_holder. Qed.
Print Assumptions C15_rlock_release_by_holder.

Theorem C15_rlock_progress : forall (cfg : config rlock_state) c cl rest,
  nth_error (clients cfg) c = Some cl -> prog cl = OAcq :: rest -> rlock_count (shared cfg) = 0 ->
  let cfg' := step _ rlock_acq rlock_rel rlock_probe cfg c in
  hd_error (trace cfg') = Some (c, EAcqOk) /\
  nth_error (clients cfg') c = Some {| prog := rest; held := held cl + 1 |}.
Proof. exact rlock_progress. Qed.
Print Assumptions C15_rlock_progress.

(* ---- BoundedSemaphore ---- *)

Theorem C15_semaphore_bound : forall v0 progs sched,
  0 <= v0 -> Forall (fun p => balanced 0 p = true) progs ->
  let cfg := run _ (sem_acq v0) (sem_rel v0) (sem_probe v0) sched (init _ None progs) in
  sum_held (clients cfg) + sem_permits v0 (shared cfg) = v0 /\
  0 <= sem_permits v0 (shared cfg) /\
  sum_held (clients cfg) <= v0 /\ holders (clients cfg) <= v0.
Proof. exact sem_bound. Qed.
Print Assumptions C15_semaphore_bound.

Theorem C15_semaphore_release_full_refused : forall v0 me s,
  v0 <= sem_permits v0 s -> sem_rel v0 me s = None.
Proof. exact sem_release_full_refused. Qed.
Print Assumptions C15_semaphore_release_full_refused.

Theorem C15_semaphore_progress : forall v0 (cfg : config sem_state) c cl rest,
  nth_error (clients cfg) c = Some cl -> prog cl = OAcq :: rest -> 0 < sem_permits v0 (shared cfg) ->
  let cfg' := step _ (sem_acq v0) (sem_rel v0) (sem_probe v0) cfg c in
  hd_error (trace cfg') = Some (c, EAcqOk) /\
  nth_error (clients cfg') c = Some {| prog := rest; held := held cl + 1 |}.
Proof. exact sem_progress. Qed.
Print Assumptions C15_semaphore_progress.

Theorem C15_semaphore_release_frees : forall v0 me s s',
  0 <= sem_permits v0 s -> sem_rel v0 me s = Some s' -> 0 < sem_permits v0 s'.
Proof. exact sem_release_frees. Qed.
Print Assumptions C15_semaphore_release_frees.

(* ---- barrier: the wrapped function (OWork of barrier_call, generated from the wrapper's source)
        runs only while its caller holds the lock; so under the same exclusion ---- *)

Theorem C15_barrier_lock : forall ns sched,
  let cfg := run _ lock_acq lock_rel lock_probe sched (init _ None (map barrier_calls ns)) in
  working (clients cfg) <= 1 /\
  (forall c cl, nth_error (clients cfg) c = Some cl -> in_work cl = true -> 0 < held cl /\ shared cfg = Some tt).
Proof. exact lock_barrier. Qed.
Print Assumptions C15_barrier_lock.

Theorem C15_barrier_rlock : forall ns sched,
  let cfg := run _ rlock_acq rlock_rel rlock_probe sched (init _ None (map barrier_calls ns)) in
  working (clients cfg) <= 1 /\
  (forall c cl, nth_error (clients cfg) c = Some cl -> in_work cl = true -> 0 < held cl).
Proof. exact rlock_barrier. Qed.
Print Assumptions C15_barrier_rlock.

Theorem C15_barrier_semaphore : forall v0 ns sched,
  0 <= v0 ->
  let cfg := run _ (sem_acq v0) (sem_rel v0) (sem_probe v0) sched (init _ None (map barrier_calls ns)) in
  working (clients cfg) <= v0 /\
  (forall c cl, nth_error (clients cfg) c = Some cl -> in_work cl = true -> 0 < held cl).
Proof. exact sem_barrier. Qed.
Print Assumptions C15_barrier_semaphore.
