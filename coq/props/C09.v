(* C09 -- size-based eviction happens only at the size limit, removes at most cull_limit rows per write, in the
   order of the configured policy; policy none never evicts; cull() = expire() then pages in policy order until
   the volume is no larger than the limit or the table is empty, returning the number of rows removed.
   Model: model/Cache.v (`cull` is _cull, `op_cull` is cull()); pg / vols are the page part of volume(), an
   oracle over which every theorem quantifies.  wf s = rowids are distinct, an invariant of every reachable state
   (C09_wf_reachable).  removed s s' r = r is a row of s and not of s'.  passed now r = expire_time r < now. *)
From Coq Require Import QArith.
From DC Require Import DCPrelude Val DiskBase SqlBase Gen_Disk Disk Gen_Sql Cache Gen_Fanout EvictBridge EvictFacts.
Open Scope Z_scope.

Theorem C09_wf_reachable : forall c l, wf (run_ops c init_st l).
Proof. exact wf_reachable. Qed.
Print Assumptions C09_wf_reachable.

Theorem C09_wf_step : forall c s o now vols, wf s -> wf (fst (step c s o now vols)).
Proof. exact wf_step. Qed.
Print Assumptions C09_wf_step.

(* _cull only deletes *)
Theorem C09_cull_sub : forall c now pg s r, In r (rows (fst (cull c now pg s))) -> In r (rows s).
Proof. exact cull_sub. Qed.
Print Assumptions C09_cull_sub.

(* a row that is not passed is removed only with volume >= size_limit (after the expired rows are gone), a policy
   other than none and cull_limit <> 0 *)
Theorem C09_only_at_limit : forall c now pg s r,
  wf s -> removed s (fst (cull c now pg s)) r -> passed now r = false ->
  c_size_limit c <= volume pg (stage1 c now s) /\ c_policy c <> PNone /\ c_cull_limit c <> 0.
Proof. exact cull_only_at_limit. Qed.
Print Assumptions C09_only_at_limit.

Theorem C09_bound : forall c now pg s,
  wf s -> 0 <= c_cull_limit c ->
  Z.of_nat (length (rows s)) - Z.of_nat (length (rows (fst (cull c now pg s)))) <= c_cull_limit c.
Proof. exact cull_bound. Qed.
Print Assumptions C09_bound.

Theorem C09_bound_zero : forall c now pg s, c_cull_limit c = 0 -> cull c now pg s = (s, []).
Proof. exact cull_zero. Qed.
Print Assumptions C09_bound_zero.

(* lifted to the API: set / add / incr / push leave the table of the row change minus at most cull_limit rows *)
Theorem C09_bound_write : forall c s o now vols s' res,
  wf s -> 0 <= c_cull_limit c -> is_write o = true -> step c s o now vols = (s', res) ->
  exists t2,
    (t2 = rows s
     \/ (exists sel dbk raw, write_rows now sel dbk raw (rows s) t2)
     \/ (exists r0 v, t2 = map (fun r => if rowid r =? rowid r0 then incr_refresh (c_policy c) now v r else r) (rows s)))
    /\ (length (rows s) <= length t2)%nat
    /\ (forall r, In r (rows s') -> In r t2)
    /\ Z.of_nat (length t2) - Z.of_nat (length (rows s')) <= c_cull_limit c
    /\ (c_cull_limit c = 0 -> rows s' = t2).
Proof. exact write_bound. Qed.
Print Assumptions C09_bound_write.

(* policy order, tie-insensitive: every row removed by policy precedes (<=) every survivor in the policy key *)
Theorem C09_order : forall c now pg s r r',
  wf s -> removed s (fst (cull c now pg s)) r -> passed now r = false ->
  In r' (rows (fst (cull c now pg s))) ->
  policy_key (c_policy c) r <= policy_key (c_policy c) r'.
Proof. exact cull_order. Qed.
Print Assumptions C09_order.

Theorem C09_expired_first : forall c now pg s,
  let er := cull_expired_select now (c_cull_limit c) (rows s) in
  (forall r, In r er -> In r (rows s) /\ exists e, expire_time r = Some e /\ e < now)
  /\ (0 <= c_cull_limit c -> Z.of_nat (length er) <= c_cull_limit c)
  /\ (forall r r' e e', In r er -> In r' (rows s) -> ~ In r' er -> expire_time r = Some e ->
                        expire_time r' = Some e' -> e' < now -> e <= e')
  /\ (wf s -> c_cull_limit c <> 0 -> forall r, In r er -> ~ In r (rows (fst (cull c now pg s))))
  /\ (wf s -> forall r, removed s (fst (cull c now pg s)) r -> passed now r = false ->
              forall r', In r' (rows s) -> passed now r' = true -> ~ In r' (rows (fst (cull c now pg s))))
  /\ (wf s -> forall r, removed s (fst (cull c now pg s)) r -> passed now r = true -> In r er).
Proof. exact cull_expired_first. Qed.
Print Assumptions C09_expired_first.

Theorem C09_none_never_cull : forall c now pg s r,
  c_policy c = PNone -> wf s -> removed s (fst (cull c now pg s)) r -> passed now r = true.
Proof. exact cull_none_never. Qed.
Print Assumptions C09_none_never_cull.

Theorem C09_none_never_op_cull : forall c s now vols s' res r,
  c_policy c = PNone -> wf s -> op_cull c s now vols = (s', res) -> removed s s' r -> passed now r = true.
Proof. exact op_cull_none_never. Qed.
Print Assumptions C09_none_never_op_cull.

(* get removes nothing under any policy, and changes nothing under none / least-recently-stored *)
Theorem C09_none_never_get : forall c s k read now s' res,
  op_get c s k read now = (s', res) ->
  map rowid (rows s') = map rowid (rows s) /\ (c_policy c = PNone \/ c_policy c = PLRS -> rows s' = rows s).
Proof. exact op_get_keeps. Qed.
Print Assumptions C09_none_never_get.

(* every eviction theorem, for the _cull that ends a stored set / add / incr / push *)
Theorem C09_write_evicts : forall c now pg sel dbk raw s s',
  wf s -> stored_then_cull c now pg sel dbk raw s s' ->
  exists s2,
    write_rows now sel dbk raw (rows s) (rows s2) /\ size_tracks s s2 /\ wf s2
    /\ (forall r, In r (rows s') -> In r (rows s2))
    /\ (0 <= c_cull_limit c -> Z.of_nat (length (rows s2)) - Z.of_nat (length (rows s')) <= c_cull_limit c)
    /\ (c_cull_limit c = 0 -> rows s' = rows s2)
    /\ (forall r, In r (rows s2) -> ~ In r (rows s') -> passed now r = false ->
          c_size_limit c <= volume pg (stage1 c now s2) /\ c_policy c <> PNone /\ c_cull_limit c <> 0
          /\ forall r', In r' (rows s') -> policy_key (c_policy c) r <= policy_key (c_policy c) r')
    /\ (c_policy c = PNone -> forall r, In r (rows s2) -> ~ In r (rows s') -> passed now r = true).
Proof. exact stored_evicts. Qed.
Print Assumptions C09_write_evicts.

(* ---- policy-key maintenance ---- *)
Theorem C09_keys_set : forall c s k v read e tag now pg s' res,
  op_set c s k v read e tag now pg = (s', res) ->
  (s' = s /\ res <> RBool true)
  \/ exists dbk raw, put (c_codec c) k = PutOk dbk raw /\ res = RBool true
       /\ stored_then_cull c now pg (set_select dbk (b2z raw) (rows s)) dbk raw s s'.
Proof. exact op_set_decompose. Qed.
Print Assumptions C09_keys_set.

Theorem C09_keys_add : forall c s k v read e tag now pg s' res,
  op_add c s k v read e tag now pg = (s', res) ->
  (rows s' = rows s /\ n_size s' = n_size s /\ res <> RBool true)
  \/ exists dbk raw, put (c_codec c) k = PutOk dbk raw /\ res = RBool true
       /\ stored_then_cull c now pg (add_select dbk (b2z raw) (rows s)) dbk raw s s'.
Proof. exact op_add_decompose. Qed.
Print Assumptions C09_keys_add.

Theorem C09_keys_push : forall c s v read prefix sd_ e tag now pg s' res,
  op_push c s v read prefix sd_ e tag now pg = (s', res) ->
  (s' = s /\ res = RRaise EStore)
  \/ exists dbk, res = RKey dbk /\ stored_then_cull c now pg [] dbk true s s'.
Proof. exact op_push_decompose. Qed.
Print Assumptions C09_keys_push.

Theorem C09_keys_incr : forall c s k delta default now pg s' res,
  op_incr c s k delta default now pg = (s', res) ->
  (s' = s /\ exists e, res = RRaise e)
  \/ (exists dbk raw, put (c_codec c) k = PutOk dbk raw
        /\ match incr_select dbk (b2z raw) (rows s) with
           | [] => True
           | r0 :: _ => incr_expired (expire_time r0) now = true
           end
        /\ stored_then_cull c now pg (incr_select dbk (b2z raw) (rows s)) dbk raw s s')
  \/ (exists dbk raw r0 l z, put (c_codec c) k = PutOk dbk raw
        /\ incr_select dbk (b2z raw) (rows s) = r0 :: l /\ incr_expired (expire_time r0) now = false
        /\ rows s' = map (fun r => if rowid r =? rowid r0 then incr_refresh (c_policy c) now (SInt z) r else r) (rows s)).
Proof. exact op_incr_decompose. Qed.
Print Assumptions C09_keys_incr.

(* the written row carries store_time = access_time = now, access_count = 0; every other row is untouched *)
Theorem C09_keys_written : forall now sel dbk raw t t2,
  incl sel t -> write_rows now sel dbk raw t t2 ->
  (exists r, In r t2 /\ stamped now r
             /\ match sel with
                | [] => rkey r = dbk /\ rraw r = raw /\ rowid r = next_rowid t
                | r0 :: _ => rowid r = rowid r0 /\ rkey r = rkey r0 /\ rraw r = rraw r0
                end)
  /\ (forall r, In r t2 -> stamped now r \/ In r t).
Proof. exact write_rows_keys. Qed.
Print Assumptions C09_keys_written.

Theorem C09_keys_get : forall c s k read now s' res,
  op_get c s k read now = (s', res) ->
  match res with
  | RVal _ _ _ =>
      exists dbk raw r0 l, put (c_codec c) k = PutOk dbk raw /\ get_select dbk (b2z raw) now (rows s) = r0 :: l
        /\ rows s' = map (fun r => if rowid r =? rowid r0 then get_refresh (c_policy c) now r else r) (rows s)
  | _ => rows s' = rows s
  end.
Proof. exact op_get_rows. Qed.
Print Assumptions C09_keys_get.

Theorem C09_keys_refresh : forall p now v r,
  (p = PLRU -> access_time (get_refresh p now r) = now /\ access_count (get_refresh p now r) = access_count r)
  /\ (p = PLFU -> access_count (get_refresh p now r) = access_count r + 1 /\ access_time (get_refresh p now r) = access_time r)
  /\ (p = PLRS \/ p = PNone -> get_refresh p now r = r)
  /\ store_time (get_refresh p now r) = store_time r
  /\ store_time (incr_refresh p now v r) = now
  /\ access_time (incr_refresh p now v r) = access_time (get_refresh p now r)
  /\ access_count (incr_refresh p now v r) = access_count (get_refresh p now r)
  /\ rowid (get_refresh p now r) = rowid r /\ rowid (incr_refresh p now v r) = rowid r
  /\ expire_time (get_refresh p now r) = expire_time r /\ expire_time (incr_refresh p now v r) = expire_time r.
Proof. exact refresh_keys. Qed.
Print Assumptions C09_keys_refresh.

(* ---- cull() ---- *)
Theorem C09_cull : forall c s now vols s' n,
  wf s -> op_cull c s now vols = (s', RInt n) ->
  exists s1 n1,
    op_expire s now = (s1, RInt n1)
    /\ (forall r, removed s s1 r -> passed now r = true)
    /\ (forall r, In r (rows s1) -> expire_due 0 now r = false)
    /\ (forall r, In r (rows s') -> In r (rows s1)) /\ (forall r, In r (rows s1) -> In r (rows s))
    /\ (forall r r', removed s1 s' r -> In r' (rows s') -> policy_key (c_policy c) r <= policy_key (c_policy c) r')
    /\ (c_policy c = PNone -> s' = s1)
    /\ (c_policy c <> PNone ->
        exists j : nat,
          (volume (hd_vol (skipn j vols)) s' <= c_size_limit c \/ rows s' = [])
          /\ Z.of_nat j * cull_page - cull_page < Z.of_nat (length (rows s1)) - Z.of_nat (length (rows s'))
             <= Z.of_nat j * cull_page)
    /\ n = Z.of_nat (length (rows s)) - Z.of_nat (length (rows s'))
    /\ wf s'.
Proof. exact op_cull_spec. Qed.
Print Assumptions C09_cull.

Theorem C09_cull_total : forall c s now vols, wf s -> exists s' n, op_cull c s now vols = (s', RInt n).
Proof. exact op_cull_total. Qed.
Print Assumptions C09_cull_total.

(* ---- FanoutCache: each shard gets size_limit / shards ---- *)
Theorem C09_fanout : forall l n, n <> 0 -> (shard_size_limit l n * inject_Z n == inject_Z l)%Q.
Proof. exact shard_limit_times. Qed.
Print Assumptions C09_fanout.

Theorem C09_fanout_exact : forall l n, 0 < n -> (n | l) -> (shard_size_limit l n == inject_Z (l / n))%Q.
Proof. exact shard_limit_exact. Qed.
Print Assumptions C09_fanout_exact.
