(* C19 -- DjangoCache honours the Django cache-backend contract.
   Property theorems only; each is closed by `exact` of a lemma proved in proofs/.
   dj_step = DjangoCache of model/Django.v (built from the generated delegation table and
   get_backend_timeout of gen/Gen_Django.v); dj_spec = the contract dictionary keyed by (version, key). *)
From DC Require Import DCPrelude ArgsKeyBase DjangoBase Gen_Django Django DjangoKeyFacts DjangoFacts.

(* Keys are namespaced by prefix and version: for a fixed prefix (any string) and integer versions the
   made key '%s:%s:%s' determines (version, key), for ALL keys (colons allowed). *)
Theorem C19_make_key_inj : forall prefix v k v' k',
  make_key prefix v k = make_key prefix v' k' -> v = v' /\ k = k'.
Proof. exact make_key_inj. Qed.
Print Assumptions C19_make_key_inj.

(* ... and caches with different colon-free prefixes sharing one directory never collide either. *)
Theorem C19_make_key_inj_prefix : forall p v k p' v' k',
  ~ In colon p -> ~ In colon p' ->
  make_key p v k = make_key p' v' k' -> p = p' /\ v = v' /\ k = k'.
Proof. exact make_key_inj_prefix. Qed.
Print Assumptions C19_make_key_inj_prefix.

(* The generated get_backend_timeout: DEFAULT -> backend default; None -> never; 0 -> already expired
   (an expiry <= now: invisible to every lookup); t < 0 -> already expired; t > 0 -> now + t. *)
Theorem C19_timeout_map : forall dflt now,
  expiry dflt now DjDefault = abs_exp now dflt
  /\ expiry dflt now DjNone = None
  /\ (exists e, expiry dflt now (DjNum 0) = Some e /\ e <= now)
  /\ (forall t, t < 0 -> exists e, expiry dflt now (DjNum t) = Some e /\ e <= now)
  /\ (forall t, t > 0 -> expiry dflt now (DjNum t) = Some (now + t)).
Proof. exact timeout_map. Qed.
Print Assumptions C19_timeout_map.

(* the DEFAULT_TIMEOUT sentinel never reaches FanoutCache *)
Theorem C19_timeout_total : forall dflt t, gbt_sentinel_escapes dflt t = false.
Proof. exact bridge_gbt_no_escape. Qed.
Print Assumptions C19_timeout_total.

(* One call: from related states, for every operation, every clock value and every configuration (prefix,
   default version, default timeout) the backend returns what the contract returns and the states stay
   related.  (Until D6 was fixed in core.py this carried the exclusion "not incr/decr exactly at the expiry
   instant"; finding C19-F1, now `fixed:`.) *)
Theorem C19_step_refines : forall c now sp bk o,
  R c now sp bk ->
  snd (dj_step c bk o now) = snd (dj_spec c sp o now) /\
  R c now (fst (dj_spec c sp o now)) (fst (dj_step c bk o now)).
Proof. exact step_refines. Qed.
Print Assumptions C19_step_refines.

(* Full statement, lifted to all call sequences by induction: add, get, set, touch, delete, incr, decr,
   has_key, get_many, set_many, delete_many, get_or_set, incr_version, decr_version, pop, clear in any order,
   under any clock that does not run backwards. *)
Theorem C19_refines : forall c t0 h,
  clock_ok t0 h = true -> snd (run (dj_step c) [] h) = snd (run (dj_spec c) [] h).
Proof. exact refines. Qed.
Print Assumptions C19_refines.

(* The clock hypothesis is genuinely needed: set(k, v, timeout=0) leaves a row with expire_time = now - 1 s
   which the contract has forgotten; a clock jumping back by more than a second makes get see it again. *)
Theorem C19_refines_needs_clock :
  exists c h, clock_ok 0 h = false /\ snd (run (dj_step c) [] h) <> snd (run (dj_spec c) [] h).
Proof. exact refines_needs_clock. Qed.
Print Assumptions C19_refines_needs_clock.

(* incr/decr on a missing or expired key raise ValueError -- stated for the backend directly: *)
Theorem C19_incr_missing_raises_ValueError : forall c now sp bk k delta ver,
  R c now sp bk -> slive now (ver_of c ver, k) sp = None ->
  snd (dj_step c bk (OIncr k delta ver) now) = RRaise ValueError /\
  snd (dj_step c bk (ODecr k delta ver) now) = RRaise ValueError.
Proof. exact incr_missing_raises. Qed.
Print Assumptions C19_incr_missing_raises_ValueError.

(* Culling of expired rows (which the model leaves out) cannot be observed: removing a row that no
   lookup can see (expire_time <= now) keeps the abstraction relation, hence every later answer. *)
Theorem C19_cull_unobservable : forall c now sp bk key,
  R c now sp bk -> R c now sp (cull_key now key bk).
Proof. exact cull_unobservable. Qed.
Print Assumptions C19_cull_unobservable.
