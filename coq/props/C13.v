(* C13 -- a sharded cache is observably one cache with a fixed key-to-shard mapping.
   Model: model/Fanout.v (routing = generated hash plan over Disk.put's database key; a sharded cache = list of
   dictionaries-with-expiry; every FanoutCache method interpreted from the generated table gen/Gen_Fanout.v). *)
From Coq Require Import QArith Permutation.
From DC Require Import DCPrelude Val DiskBase Gen_Disk Disk DiskFacts FanoutBase Gen_Fanout Fanout FanoutFacts.
Local Open Scope Z_scope.

(* Every sequence of operations, every shard count n >= 1, every key identity `cls`: if routing respects key
   identity on the keys of the history, every operation of the sharded cache returns what ONE dictionary holding all
   items returns (an iteration returns the same keys, each exactly once), and the shards together always hold
   exactly that dictionary's items: shard i holds, in order, the items routed to i (split), and the merge of all
   shards is a permutation of the dictionary. *)
Theorem C13_refines : forall (C : Type) (ceqb : C -> C -> bool) (cls : pyval -> C) (hashf : pyval -> Z),
  (forall a b, ceqb a b = true <-> a = b) ->
  forall n ops, 0 < n ->
  (forall k1 k2, In k1 (history_keys ops) -> In k2 (history_keys ops) -> cls k1 = cls k2 ->
                 hashf k1 mod n = hashf k2 mod n) ->
  Forall2 res_agree (snd (fan_run C ceqb cls hashf n ops (fan_empty n))) (snd (dict_run C ceqb cls ops [])) /\
  Permutation (merge (fst (fan_run C ceqb cls hashf n ops (fan_empty n)))) (fst (dict_run C ceqb cls ops [])) /\
  fst (fan_run C ceqb cls hashf n ops (fan_empty n)) = split hashf n (fst (dict_run C ceqb cls ops [])).
Proof. exact refines_history. Qed.
Print Assumptions C13_refines.

(* The same over Python keys with the routing of the code: any key identity at least as fine as the documented
   equality (key_eq), histories without a pair from the excluded region of C13_routing_respects_eq_partial. *)
Theorem C13_refines_pyval : forall (C : Type) (ceqb : C -> C -> bool) (cls : pyval -> C) (c : codec) (h : hcodec),
  (forall a b, ceqb a b = true <-> a = b) ->
  forall n ops, 0 < n ->
  (forall k1 k2, In k1 (history_keys ops) -> In k2 (history_keys ops) -> cls k1 = cls k2 ->
                 key_eq k1 k2 = true /\ route_excluded k1 k2 = false) ->
  Forall2 res_agree (snd (fan_run C ceqb cls (hash_or0 c h) n ops (fan_empty n))) (snd (dict_run C ceqb cls ops [])) /\
  Permutation (merge (fst (fan_run C ceqb cls (hash_or0 c h) n ops (fan_empty n)))) (fst (dict_run C ceqb cls ops [])).
Proof. exact refines_history_pyval. Qed.
Print Assumptions C13_refines_pyval.

(* len / volume / stats are sums over the shards; check concatenates; clear / expire / evict / cull call the shard
   method on every shard exactly once (in order) and add the counts; iteration chains the shards (reversed: the
   exact reverse); transact locks shards 0..n-1 in order. *)
Theorem C13_aggregates :
  (forall st, fan_len st = sumZ (map d_len st)) /\
  (forall vol st, fan_volume vol st = sumZ (map vol st)) /\
  (forall (ss : dict -> Z * Z) st, fan_stats ss st = (sumZ (map (fun s => fst (ss s)) st), sumZ (map (fun s => snd (ss s)) st))) /\
  (forall W (chk : dict -> list W) st, fan_check chk st = concat (map chk st)) /\
  (forall (f : dict -> dict * Z) st,
     fan_remove f st = (map (fun s => fst (f s)) st, sumZ (map (fun s => snd (f s)) st))) /\
  (forall cullf now tg,
     shard_removal cullf agg_clear (env_of_now 0) = d_clear /\
     shard_removal cullf agg_expire (env_of_now now) = d_expire now /\
     shard_removal cullf agg_evict (env_of_tag tg) = d_evict tg /\
     shard_removal cullf agg_cull (env_of_now now) = cullf) /\
  (forall st, fan_iter agg_iter_t st = concat (map d_keys st)) /\
  (forall st, fan_iter agg_reversed_t st = rev (concat (map d_keys st))) /\
  (forall n, fan_transact_order n = seq 0 n).
Proof. exact aggregates_cover_each_shard_once. Qed.
Print Assumptions C13_aggregates.

(* Which shard holds a key is a function of the database key Disk.put produces and of the shard count only. *)
Theorem C13_routing_pure : forall c c' h k k' n, put c k = put c' k' -> shard c h k n = shard c' h k' n.
Proof. exact routing_pure. Qed.
Print Assumptions C13_routing_pure.

(* float('nan') is pickled by Disk.put (repair of finding C02-F2), so it is routed like every pickled key, by adler32 of its
   pickle: all NaNs (one key: C02_nan_is_one_key) go to one shard; every other float is routed by adler32 of its 8 packed bytes,
   as released. *)
Theorem C13_routing_nan : forall c h n,
  shard c h (VFloat FNaN) n = Some (Z.land (adler32 (pkk c (VFloat FNaN))) 4294967295 mod n).
Proof. exact shard_nan. Qed.
Print Assumptions C13_routing_nan.

Theorem C13_routing_float : forall c h f n, is_nan (VFloat f) = false ->
  shard c h (VFloat f) n = Some (Z.land (adler32 (pack_d h f)) 4294967295 mod n).
Proof. exact shard_float. Qed.
Print Assumptions C13_routing_float.

(* C13_routing_respects_eq, FULL statement:
     forall c h k1 k2 n, key_domain k1 = true -> key_domain k2 = true -> key_eq k1 k2 = true -> 0 < n ->
                         shard c h k1 n = shard c h k2 n.
   False of the code (known finding C13-F1): 1 and 1.0 are one key but live in different shards. *)
Theorem C13_routing_respects_eq_refuted :
  exists k1 k2 n,
    key_domain k1 = true /\ key_domain k2 = true /\ key_eq k1 k2 = true /\ 0 < n /\
    forall c h, pack_d h (FFin 1 0) = [63; 240; 0; 0; 0; 0; 0; 0] -> shard c h k1 n <> shard c h k2 n.
Proof. exact routing_respects_eq_refuted. Qed.
Print Assumptions C13_routing_respects_eq_refuted.

Theorem C13_routing_zeros_refuted :
  exists n, 0 < n /\
    key_eq (VInt 0) (VFloat (FZero false)) = true /\ key_eq (VFloat (FZero false)) (VFloat (FZero true)) = true /\
    forall c h, pack_d h (FZero false) = [0; 0; 0; 0; 0; 0; 0; 0] -> pack_d h (FZero true) = [128; 0; 0; 0; 0; 0; 0; 0] ->
      shard c h (VInt 0) n <> shard c h (VFloat (FZero false)) n /\
      shard c h (VFloat (FZero false)) n <> shard c h (VFloat (FZero true)) n.
Proof. exact routing_zeros_refuted. Qed.
Print Assumptions C13_routing_zeros_refuted.

(* Strongest true restriction: outside the excluded region (an int paired with a float; two floats that are not
   the same float, i.e. 0.0 / -0.0) keys the cache treats as equal are routed to the same shard. *)
Theorem C13_routing_respects_eq_partial : forall c h k1 k2 n,
  key_eq k1 k2 = true -> route_excluded k1 k2 = false -> shard c h k1 n = shard c h k2 n.
Proof. exact routing_respects_eq_partial. Qed.
Print Assumptions C13_routing_respects_eq_partial.

(* The total size limit is divided among the shards: each of the n shards gets the same limit and the n limits add
   up to the total (exact rationals; Python's true division rounds the quotient to binary64). *)
Theorem C13_limit_divided : forall given n,
  0 < n ->
  (inject_Z n * shard_limit given n == inject_Z (match given with Some l => l | None => default_size_limit end))%Q.
Proof. exact limit_divided. Qed.
Print Assumptions C13_limit_divided.

(* FanoutCache.__init__ hands that share to a shard whenever size_limit is given and whenever the shard is new (its database
   file does not exist before the open); a shard that exists and is opened without size_limit is handed nothing and keeps
   the share stored in it (C18_fanout_reopen_settings). *)
Theorem C13_limit_handed : forall given shard_exists n,
  shard_limit_handed given shard_exists n =
  match given, shard_exists with
  | None, true => None
  | _, _ => Some (shard_limit given n)
  end.
Proof. exact limit_handed. Qed.
Print Assumptions C13_limit_handed.

Theorem C13_limit_exact : forall l n, 0 < n -> (n | l) -> (shard_size_limit l n == inject_Z (l / n))%Q.
Proof. exact limit_exact. Qed.
Print Assumptions C13_limit_exact.
