(* C11 -- Deque is a persistent collections.deque.
   Property theorems only; each is closed by `exact` of a lemma proved in proofs/.
   Model: model/Deque.v (calls the definitions generated from persistent.py), abstract cache: model/QCache.v,
   specification: the list functions `ldq_step` of model/Deque.v (validated against collections.deque by the
   harness on every run). *)
From DC Require Import DCPrelude PersistentBase Gen_Persistent QCache Deque QCacheFacts DequeFacts DequeConcFacts.

(* Every operation -- append(left), extend(left), +=, pop(left), peek(left), d[i], d[i] = x, del d[i] for every
   i : Z, rotate n for every n : Z, reverse, remove, count, the six comparisons, iteration both ways, len,
   clear, maxlen := m -- returns what the list specification returns and leaves the same contents. *)
Theorem C11_refines : forall d o, DInv d ->
  let '(d', r) := dq_step d o in DInv d' /\ ldq_step (absd d) o = (absd d', r).
Proof. exact deque_refines. Qed.
Print Assumptions C11_refines.

(* ... hence for histories of any length: all results and all intermediate contents agree. *)
Theorem C11_history_refines : forall os d, DInv d -> dq_results d os = ldq_results (absd d) os.
Proof. exact deque_history_refines. Qed.
Print Assumptions C11_history_refines.

(* the hypothesis DInv is satisfiable: every freshly constructed Deque(iterable, maxlen=m) satisfies it *)
Theorem C11_constructor_establishes_invariant : forall m vs, DInv (dq_new (option_map Z.of_nat m) vs).
Proof. exact DInv_new. Qed.
Print Assumptions C11_constructor_establishes_invariant.

Theorem C11_len_le_maxlen : forall m vs os d',
  d' = dq_run (dq_new (option_map Z.of_nat m) vs) os ->
  match dq_maxlen d' with Some b => Z.of_nat (length (view d')) <= b | None => True end.
Proof. exact deque_len_le_maxlen. Qed.
Print Assumptions C11_len_le_maxlen.

(* reopen / copy / unpickle see the same sequence; maxlen travels with copy() and in the pickle state *)
Theorem C11_persistent : forall d,
  (forall m, view (dq_reopen m d) = view d /\ dq_maxlen (dq_reopen m d) = m) /\
  (view (dq_copy d) = view d /\ dq_maxlen (dq_copy d) = dq_maxlen d) /\
  (view (dq_unpickle_pickle d) = view d /\ dq_maxlen (dq_unpickle_pickle d) = dq_maxlen d).
Proof. exact deque_persistent. Qed.
Print Assumptions C11_persistent.

Theorem C11_persistent_handles_keep_invariant : forall d, DInv d ->
  DInv (dq_copy d) /\ DInv (dq_unpickle_pickle d) /\ DInv (dq_reopen (dq_maxlen d) d).
Proof. exact DInv_handles. Qed.
Print Assumptions C11_persistent_handles_keep_invariant.

(* never loses: cache built with eviction_policy='none'; on an unbounded deque no operation other than
   pop / popleft / del / remove / clear / maxlen := m shrinks the sequence or drops an element
   (d[i] = x replaces one) *)
Theorem C11_never_loses : forall d o, DInv d -> dq_maxlen d = None -> removing o = false ->
  deque_init_policy = PolNone /\
  let d' := fst (dq_step d o) in
  (length (view d) <= length (view d'))%nat /\
  (match o with OSet _ _ => True | _ => forall x, In x (view d) -> In x (view d') end).
Proof. exact deque_never_loses. Qed.
Print Assumptions C11_never_loses.

(* ... with multiplicities: every value occurs afterwards at least as often as before *)
Theorem C11_never_loses_multiset : forall d o, DInv d -> dq_maxlen d = None -> removing o = false ->
  match o with
  | OSet _ _ => True
  | _ => forall x, (count_occ Z.eq_dec (view d) x <= count_occ Z.eq_dec (view (fst (dq_step d o))) x)%nat
  end.
Proof. exact deque_never_loses_multiset. Qed.
Print Assumptions C11_never_loses_multiset.

(* concurrent producers and consumers (atomic operations, every interleaving): popped values in call order
   followed by the remaining contents = appended values in call order *)
Theorem C11_exactly_once : forall os d, DInv d -> dq_maxlen d = None -> forallb fifo_op os = true ->
  let '(popped, d') := run_collect d os in popped ++ view d' = view d ++ appended os.
Proof. exact deque_fifo_exactly_once. Qed.
Print Assumptions C11_exactly_once.

Theorem C11_exactly_once_mirror : forall os d, DInv d -> dq_maxlen d = None -> forallb lifo_mirror_op os = true ->
  let '(popped, d') := run_collect d os in popped ++ rev (view d') = rev (view d) ++ appended os.
Proof. exact deque_lifo_mirror_exactly_once. Qed.
Print Assumptions C11_exactly_once_mirror.

Theorem C11_per_producer_order : forall (mine : val -> bool) os d,
  DInv d -> dq_maxlen d = None -> forallb fifo_op os = true ->
  let '(popped, d') := run_collect d os in
  filter mine popped ++ filter mine (view d') = filter mine (view d) ++ filter mine (appended os).
Proof. exact deque_fifo_per_producer. Qed.
Print Assumptions C11_per_producer_order.
