(* C10 -- push / pull / peek implement a double-ended queue per prefix; exactly-once delivery.
   Definitions: proofs/QueueFacts.v (queue_view, prefix_clean, qinv, push_num, push_state, push_row, drop_expired,
   deliver, oriented, frame, cull_quiet, prefix_disjoint), proofs/QueueBridge.v (in_range), model/QueueConc.v. *)
From Coq Require Import Sorted Permutation.
From DC Require Import DCPrelude Val DiskBase SqlBase Gen_Disk Disk Gen_Sql Cache QueueConc SortFacts QueueBridge QueueFacts.

(* For every state satisfying the queue invariant (rowids unique, no foreign key in the range of p, value files of the
   queue distinct and present): push at the back appends the inserted row to the view and returns its key, at the
   front prepends; pull drops the heads whose expire time has passed, returns the first live row of that side and
   removes exactly it; peek returns the same row without removing it.  Integer queue (p = None) and every string
   prefix.  Side conditions of push: the new number stays inside the key range (C10_range) and _cull is quiet. *)
Theorem C10_deque_refines : forall c p s,
  qinv c p s ->
  (forall v read sd_ expire tag now pg sd,
     store (c_codec c) (c_min_file_size c) v read = StOk sd ->
     push_min_key < push_num p sd_ (queue_view p s) < push_max_key ->
     cull_quiet c now pg (push_state s p sd_ expire tag now sd) ->
     let s' := push_state s p sd_ expire tag now sd in
     let r := push_row s p sd_ expire tag now sd in
     op_push c s v read p sd_ expire tag now pg = (s', RKey (rkey r))
     /\ rows s' = rows s ++ [r]
     /\ queue_view p s' = match sd_ with Back => queue_view p s ++ [r] | Front => r :: queue_view p s end
     /\ st_ok s' /\ prefix_clean p s'
     /\ rraw r = true /\ expire_time r = expire_at now expire /\ rtag r = tag
     /\ rmode r = s_mode sd /\ rvalue r = s_col sd /\ rfile r = snd (fs_write s (s_file sd))) /\
  (forall sd now s' res, op_pull c s p sd now = (s', res) ->
     let L := drop_expired now (oriented sd (queue_view p s)) in
     res = deliver c s L /\ oriented sd (queue_view p s') = tl L /\ qinv c p s' /\
     (forall r, In r (tl L) -> fetch_row c s' r false = fetch_row c s r false) /\ frame p s s') /\
  (forall sd now s' res, op_peek c s p sd now = (s', res) ->
     let L := drop_expired now (oriented sd (queue_view p s)) in
     res = deliver c s L /\ oriented sd (queue_view p s') = L /\ qinv c p s' /\
     (forall r, In r L -> fetch_row c s' r false = fetch_row c s r false) /\ frame p s s').
Proof. exact deque_refines. Qed.
Print Assumptions C10_deque_refines.

(* sufficient conditions for "_cull is quiet" in terms of the state before the push *)
Theorem C10_push_cull_quiet : forall c s p sd_ expire tag now pg sd,
  c_cull_limit c = 0 \/
  ((forall r, In r (rows s) -> cull_expired_row now r = false) /\
   match expire with Some d => 0 <= d | None => True end /\
   (policy_has_cull (c_policy c) = false \/ pg + n_size s + s_size sd < c_size_limit c)) ->
  cull_quiet c now pg (push_state s p sd_ expire tag now sd).
Proof. exact push_cull_quiet. Qed.
Print Assumptions C10_push_cull_quiet.

Theorem C10_peek_is_next_pull : forall c s p sd now,
  qinv c p s ->
  snd (op_peek c s p sd now) = snd (op_pull c s p sd now)
  /\ snd (op_pull c (fst (op_peek c s p sd now)) p sd now) = snd (op_peek c s p sd now)
  /\ oriented sd (queue_view p (fst (op_peek c s p sd now))) = drop_expired now (oriented sd (queue_view p s)).
Proof. exact peek_is_next_pull. Qed.
Print Assumptions C10_peek_is_next_pull.

(* FULL isolation -- for all p <> q a pull on p leaves the queue of q alone -- is false of the code (finding
   C10-F1 / D11): the range of 'a' contains every key of the queue 'a-5'. *)
Theorem C10_isolation_refuted : ~ (forall c s p q sd now, p <> q -> st_ok s -> prefix_clean q s ->
    queue_view q (fst (op_pull c s p sd now)) = queue_view q s).
Proof. exact isolation_refuted. Qed.
Print Assumptions C10_isolation_refuted.

(* the concrete witness replayed on the implementation by the harness: push 7 to 'a-5', pull from 'a' *)
Theorem C10_isolation_refuted_witness :
  wit_p <> wit_q /\ st_ok wit_s1 /\ prefix_clean wit_q wit_s1 /\
  snd (op_push wit_cfg init_st (VInt 7) false wit_q Back None SNull 0 0) = RKey wit_key /\
  snd (op_pull wit_cfg wit_s1 wit_p Front 0) = RKV wit_key true (FVal (VInt 7)) None SNull /\
  length (queue_view wit_q wit_s1) = 1%nat /\
  queue_view wit_q (fst (op_pull wit_cfg wit_s1 wit_p Front 0)) = [].
Proof. exact isolation_refuted_witness. Qed.
Print Assumptions C10_isolation_refuted_witness.

(* the strongest true restriction: prefixes where neither "p-" followed by a digit is a prefix of "q-" nor the
   converse (and None against any string).  No assumption on what sits in the range of p.  Every row outside the
   range of p -- other queues, ordinary keys -- is untouched (frame); push adds exactly one row. *)
Theorem C10_isolation_partial : forall c s p q,
  prefix_disjoint p q -> st_ok s ->
  (forall sd now, let s' := fst (op_pull c s p sd now) in queue_view q s' = queue_view q s /\ frame p s s') /\
  (forall sd now, let s' := fst (op_peek c s p sd now) in queue_view q s' = queue_view q s /\ frame p s s') /\
  (forall v read sd_ expire tag now pg sd,
     store (c_codec c) (c_min_file_size c) v read = StOk sd ->
     cull_quiet c now pg (push_state s p sd_ expire tag now sd) ->
     let s' := fst (op_push c s v read p sd_ expire tag now pg) in
     queue_view q s' = queue_view q s /\
     exists r, rows s' = rows s ++ [r] /\ RKey (rkey r) = snd (op_push c s v read p sd_ expire tag now pg)).
Proof. exact isolation_partial. Qed.
Print Assumptions C10_isolation_partial.

Theorem C10_ranges_disjoint : forall p q r, prefix_disjoint p q -> in_range p r = true -> in_range q r = false.
Proof. exact ranges_disjoint. Qed.
Print Assumptions C10_ranges_disjoint.

(* ordinary keys that no queue operation on prefix p can touch *)
Theorem C10_ordinary_outside : forall p r,
  rraw r = false \/ rkey r = SNull \/ (exists b, rkey r = SBlob b) \/
  (p = None /\ exists t, rkey r = SText t) \/
  (p = None /\ exists z, rkey r = SInt z /\ (z <= push_min_key \/ push_max_key <= z)) \/
  (p <> None /\ ((exists z, rkey r = SInt z) \/ (exists f, rkey r = SReal f))) ->
  in_range p r = false.
Proof. exact ordinary_outside. Qed.
Print Assumptions C10_ordinary_outside.

(* validity range of the key scheme: a pushed key is visible to pull/peek iff its number is strictly between
   0 and 999999999999999; counted from the start key 500000000000000 that is at most 499999999999999 extensions
   at the front and 499999999999998 at the back; string keys keep 15 digits that read back as the number *)
Theorem C10_range : forall p r n,
  0 <= n < key_bound -> rkey r = qkey_make p n -> rraw r = true ->
  (in_range p r = true <-> push_min_key < n < push_max_key).
Proof. exact key_range. Qed.
Print Assumptions C10_range.

Theorem C10_range_counts : forall n_front n_back,
  0 <= n_front -> 0 <= n_back ->
  ((push_min_key < push_start - n_front /\ push_start + n_back < push_max_key) <->
   (n_front <= 499999999999999 /\ n_back <= 499999999999998)).
Proof. exact range_counts. Qed.
Print Assumptions C10_range_counts.

Theorem C10_key_digits : forall p n, 0 <= n < key_bound ->
  exists d, qkey_make (Some p) n = SText (p ++ 45 :: d) /\ length d = 15%nat /\ parse_digits 0 d = n /\
            (forall x, In x d -> 48 <= x <= 57).
Proof. exact key_digits. Qed.
Print Assumptions C10_key_digits.

Theorem C10_key_order : forall p a b, 0 <= a < key_bound -> 0 <= b < key_bound ->
  sql_cmp (qkey_make p a) (qkey_make p b) = (a ?= b).
Proof. exact sql_cmp_make. Qed.
Print Assumptions C10_key_order.

(* Exactly-once, atomic layer (model/QueueConc.v): ANY number of producers and consumers, EVERY interleaving.
   Assumption: each push and each successful pull is one atomic step (C05). *)
Theorem C10_exactly_once : forall (A : Type) (sched : list (event A)),
  forallb (fun e => fifo_op (snd e)) sched = true ->
  let st := q_run q_init sched in
  delivered st ++ q_items st = pushed sched /\
  (forall c, by_producer c (delivered st) ++ by_producer c (q_items st) = map (pair c) (pushes_of (program c sched))) /\
  (NoDup (pushed sched) -> NoDup (delivered st ++ q_items st)).
Proof. exact (@exactly_once_fifo). Qed.
Print Assumptions C10_exactly_once.

Theorem C10_exactly_once_mirror : forall (A : Type) (sched : list (event A)),
  forallb (fun e => mirror_op (snd e)) sched = true ->
  let st := q_run q_init sched in
  delivered st ++ rev (q_items st) = pushed sched /\
  (forall c, by_producer c (delivered st) ++ by_producer c (rev (q_items st)) = map (pair c) (pushes_of (program c sched))) /\
  (NoDup (pushed sched) -> NoDup (delivered st ++ q_items st)).
Proof. exact (@exactly_once_mirror). Qed.
Print Assumptions C10_exactly_once_mirror.

(* any mix of sides: conservation as multisets *)
Theorem C10_exactly_once_any : forall (A : Type) (sched : list (event A)),
  let st := q_run q_init sched in
  Permutation (delivered st ++ q_items st) (pushed sched) /\
  (NoDup (pushed sched) -> NoDup (delivered st ++ q_items st)).
Proof. exact (@exactly_once_any). Qed.
Print Assumptions C10_exactly_once_any.

(* The invariant is inductive: every state reachable from the empty cache by pushes (inside the key range, _cull
   quiet), pulls and peeks on prefix p satisfies qinv (plus the fresh-file-name invariant), so the clauses of
   C10_deque_refines hold at every point of every such history. *)
Theorem C10_reachable_invariant : forall c p s, q_reach c p s -> qinv_full c p s.
Proof. exact q_reach_inv. Qed.
Print Assumptions C10_reachable_invariant.

Theorem C10_push_preserves : forall c s v read p sd_ expire tag now sd,
  qinv_full c p s ->
  store (c_codec c) (c_min_file_size c) v read = StOk sd ->
  push_min_key < push_num p sd_ (queue_view p s) < push_max_key ->
  qinv_full c p (push_state s p sd_ expire tag now sd).
Proof. exact push_preserves. Qed.
Print Assumptions C10_push_preserves.

(* ------------------------------------------------------------------ concurrency: the queue calls in the micro-step machine
   push / pull / peek with their real transaction bodies (model/TxnQueue.v) are calls of the machine of model/Conc.v:
   for every program of such calls (mixed with set/add/delete/pop/touch/incr/get/contains), every number of clients
   and every schedule with kills, the machine invariant holds, and the commit step of a pull that delivers an item
   removes exactly that row -- which was committed and in the prefix's range -- atomically, under the write lock, so no
   second pull can deliver it.  harness/queuecorr.py drives this instance by the schedules of the implementation. *)
From DC Require Import Refs Conc Txn TxnQueue SinvFacts ConcFacts TxnFacts TxnQueueFacts.
Theorem C10_queue_schedules : forall c (progs : nat -> list qcall) sched,
  let cf := exec (init_config init_st (fun i => map (qcompile c) (progs i))) sched in
  Inv refs Winv cf /\ Winv (db cf) /\ (forall g, In g (refs (db cf)) -> files cf g = FDone) /\
  forall i retry p sd now f o k raw v e t,
    c_pc (cl cf i) = AtCommit (w_pull retry c p sd now) f o -> bo_res o = RKV k raw v e t ->
    exists r0 cf',
      In r0 (rows (db cf)) /\ in_range p r0 = true /\ rkey r0 = k /\
      cstep cf i = Some cf' /\
      rows (db cf') = filter (fun r => negb (rowid r =? rowid r0)) (rows (db cf)) /\
      ~ In r0 (rows (db cf')) /\
      (forall r, In r (rows (db cf)) -> r <> r0 -> In r (rows (db cf'))) /\
      commits cf' = commits cf ++ [(i, db cf')] /\ lock cf' = None.
Proof. exact queue_schedules. Qed.
Print Assumptions C10_queue_schedules.

Theorem C10_queue_call_is_step : forall c x s, Winv s -> qcall_side c x s -> qcall_run c x s = qcall_step c x s.
Proof. exact qcall_run_is_step. Qed.
Print Assumptions C10_queue_call_is_step.
