(* C04 -- items are visible until their expiry time passes and never afterwards (row level; every state,
   key, clock value).  live = now < expire_time (or no expiry); passed = expire_time < now. *)
From DC Require Import DCPrelude Val DiskBase SqlBase Gen_Disk Disk Gen_Sql Cache SqlBridge ExpiryFacts.

Theorem C04_get_never_after : forall c s k rd now s' v e t,
  op_get c s k rd now = (s', RVal v e t) -> exists r, served c s k now r /\ e = expire_time r /\ t = rtag r.
Proof. exact get_hit_live. Qed.
Print Assumptions C04_get_never_after.

Theorem C04_contains_never_after : forall c s k now s',
  op_contains c s k now = (s', RBool true) -> exists r, served c s k now r.
Proof. exact contains_true_live. Qed.
Print Assumptions C04_contains_never_after.

Theorem C04_pop_never_after : forall c s k now s' v e t,
  op_pop c s k now = (s', RVal v e t) -> exists r, served c s k now r /\ e = expire_time r.
Proof. exact pop_hit_live. Qed.
Print Assumptions C04_pop_never_after.

Theorem C04_delete_never_after : forall c s k di now s',
  op_delete c s k di now = (s', RBool true) -> exists r, served c s k now r.
Proof. exact delete_true_live. Qed.
Print Assumptions C04_delete_never_after.

Theorem C04_touch_never_revives : forall c s k e now s',
  op_touch c s k e now = (s', RBool true) -> exists r, served c s k now r.
Proof. exact touch_true_live. Qed.
Print Assumptions C04_touch_never_revives.

Theorem C04_add_refused_only_by_live : forall c s k v rd e tag now pg s',
  op_add c s k v rd e tag now pg = (s', RBool false) -> exists r, In r (rows s) /\ live_at now r = true.
Proof. exact add_refused_live. Qed.
Print Assumptions C04_add_refused_only_by_live.

Theorem C04_incr_never_increments_expired : forall c s k d df now pg dbk raw r0 rs,
  put (c_codec c) k = PutOk dbk raw ->
  filter (key_match dbk (b2z raw)) (rows s) = r0 :: rs ->
  live_at now r0 = false ->
  snd (op_incr c s k d df now pg) =
  match df with
  | None => RRaise EKeyError
  | Some d0 => match store (c_codec c) (c_min_file_size c) (VInt (d0 + d)) false with
               | StRaise => RRaise EStore
               | StOk _ => RVal (FVal (VInt (d0 + d))) None SNull
               end
  end.
Proof. exact incr_expired_restarts. Qed.
Print Assumptions C04_incr_never_increments_expired.

Theorem C04_pull_delivers_live : forall c p sd now fuel s s' k raw v e t,
  op_pull_loop fuel c s p sd now = (s', RKV k raw v e t) ->
  exists r, In r (rows s) /\ live_at now r = true /\ k = rkey r /\ e = expire_time r.
Proof. exact pull_delivers_live. Qed.
Print Assumptions C04_pull_delivers_live.

Theorem C04_peek_delivers_live : forall c p sd now fuel s s' k raw v e t,
  op_peek_loop fuel c s p sd now = (s', RKV k raw v e t) ->
  exists r, In r (rows s) /\ live_at now r = true /\ k = rkey r /\ e = expire_time r.
Proof. exact peek_delivers_live. Qed.
Print Assumptions C04_peek_delivers_live.

Theorem C04_peekitem_delivers_live : forall c l now fuel s s' k raw v e t,
  op_peekitem_loop fuel c s l now = (s', RKV k raw v e t) ->
  exists r, In r (rows s) /\ live_at now r = true /\ k = rkey r /\ e = expire_time r.
Proof. exact peekitem_delivers_live. Qed.
Print Assumptions C04_peekitem_delivers_live.

Theorem C04_visible_until_expiry : forall c s k now dbk raw r,
  put (c_codec c) k = PutOk dbk raw -> In r (rows s) -> key_match dbk (b2z raw) r = true -> live_at now r = true ->
  snd (op_contains c s k now) = RBool true /\
  (forall rd, (forall r', In r' (rows s) -> fetch_row c s r' rd <> FIOError) -> snd (op_get c s k rd now) <> RDefault) /\
  (forall e, snd (op_touch c s k e now) = RBool true \/
             exists r', In r' (rows s) /\ key_match dbk (b2z raw) r' = true /\ live_at now r' = false).
Proof. exact live_row_is_found. Qed.
Print Assumptions C04_visible_until_expiry.

Theorem C04_no_ttl_forever : forall r, expire_time r = None -> forall now, live_at now r = true /\ passed now r = false.
Proof. exact no_ttl_never_expires. Qed.
Print Assumptions C04_no_ttl_forever.

Theorem C04_lazy_cull_only_passed : forall now lim t r,
  In r (cull_expired_select now lim t) -> In r t /\ passed now r = true.
Proof. exact lazy_cull_selects_passed. Qed.
Print Assumptions C04_lazy_cull_only_passed.

Theorem C04_lazy_cull_bounded : forall now lim t, 0 <= lim -> Z.of_nat (length (cull_expired_select now lim t)) <= lim.
Proof. exact lazy_cull_bounded. Qed.
Print Assumptions C04_lazy_cull_bounded.

Theorem C04_expire_only_passed : forall lo now lim t r,
  In r (expire_select lo now lim t) -> In r t /\ passed now r = true.
Proof. exact expire_selects_passed. Qed.
Print Assumptions C04_expire_only_passed.


Theorem C04_expire_negative_time_refuted :
  exists s now r, In r (rows s) /\ passed now r = true /\ In r (rows (fst (op_expire s now))).
Proof. exact expire_negative_time_refuted. Qed.
Print Assumptions C04_expire_negative_time_refuted.

From DC Require Import EvictBridge EvictFacts ExpireExact.

(* expire(): for every table with distinct rowids (every reachable state), any number of items, any sharing
   of expiry times, any number of 100-row pages: it removes only passed items, it leaves no item with
   0 <= expire_time < now, and it returns the number of items it removed.  (Full statement "every passed
   item" is refuted above for negative absolute expiry times: finding C04-F1.) *)
Theorem C04_expire_exact_partial : forall s now s' n,
  wf s -> op_expire s now = (s', RInt n) ->
  (forall r, In r (rows s') -> In r (rows s))
  /\ (forall r, removed s s' r -> passed now r = true)
  /\ (forall r, In r (rows s') -> expire_due 0 now r = false)
  /\ n = Z.of_nat (length (rows s)) - Z.of_nat (length (rows s')).
Proof. exact expire_exact_partial. Qed.
Print Assumptions C04_expire_exact_partial.
