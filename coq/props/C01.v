(* C01 -- stored values come back identical, whatever their type, size or storage path.
   Quantified over every value (any Z, any float class, any code-point list, any byte list, any other
   object, any stream), every min_file_size, every codec with pickle.load (pickle.dumps v) = v. *)
From DC Require Import DCPrelude Val DiskBase Gen_Disk Disk DiskFacts.

Theorem C01_roundtrip : forall c m value read s,
  codec_ok c -> shape_ok value read = true ->
  store c m value read = StOk s ->
  fetch c (s_mode s) (s_file s) (s_col s) false = FVal (expected value)
  /\ (forall b, value = VStream b -> fetch c (s_mode s) (s_file s) (s_col s) true = FHandleOn b)
  /\ s_size s = (match s_file s with Some f => fsize f | None => 0 end).
Proof. exact store_fetch_roundtrip. Qed.
Print Assumptions C01_roundtrip.

Theorem C01_rejected_never_altered : forall c m value read,
  codec_ok c -> shape_ok value read = true ->
  match store c m value read with
  | StRaise => True
  | StOk s => fetch c (s_mode s) (s_file s) (s_col s) false = FVal (expected value)
  end.
Proof. exact store_rejects_or_preserves. Qed.
Print Assumptions C01_rejected_never_altered.

Theorem C01_rejects_exactly_unencodable_text : forall c m value read,
  shape_ok value read = true ->
  (store c m value read = StRaise <-> exists st, value = VStr st /\ encodable st = false).
Proof. exact store_accepts. Qed.
Print Assumptions C01_rejects_exactly_unencodable_text.

Theorem C01_json_roundtrip : forall c j m value s,
  jcodec_ok j -> (forall b, value <> VStream b) ->
  jstore c j m value false = StOk s ->
  jfetch c j (s_mode s) (s_file s) (s_col s) false = FVal value.
Proof. exact json_store_fetch_roundtrip. Qed.
Print Assumptions C01_json_roundtrip.

Theorem C01_json_stream_handle : forall c j m b s,
  jstore c j m (VStream b) true = StOk s ->
  jfetch c j (s_mode s) (s_file s) (s_col s) true = FHandleOn b.
Proof. exact json_stream_handle. Qed.
Print Assumptions C01_json_stream_handle.

(* JSONDisk + stream + plain lookup: the full statement fails (known finding C01-F3) *)
Theorem C01_json_stream_plain_get_refuted : forall c j m b s,
  unjz j b = None ->
  jstore c j m (VStream b) true = StOk s ->
  jfetch c j (s_mode s) (s_file s) (s_col s) false = FBad.
Proof. exact json_stream_plain_get_refuted. Qed.
Print Assumptions C01_json_stream_plain_get_refuted.
