(* C20 -- Averager counts every add once; throttle never exceeds its rate.
   Property theorems only; each is closed by `exact` of a lemma proved in proofs/.

   Averager: model/Recipes.v `astep`/`arun` -- any number of clients with arbitrary programs of
   add / get / pop, any schedule; one step = `Averager.add`'s transact block, the lock-free `get`,
   or the atomic `pop` (atomicity ASSUMED: C05/C06).  `a_ledger` is ghost state: the values of the
   adds completed since the last pop.  A reported mean is the pair (total, count).

   throttle: `thr_attempt` is one pass through the wrapper's transact block at clock reading `now`;
   `thr_run` takes ANY list of (caller, clock reading): all numbers of callers, all arrival patterns.
   Arithmetic is exact over Q (the implementation's is binary64; the harness uses values on which
   binary64 is exact).  Hypotheses: count >= 1, seconds > 0, clock readings of successive blocks
   never go back (`monotone`).

   "Every call is eventually let through": under contention this needs a fair scheduler and is NOT
   claimed; C20_throttle_lone_progress is the provable part. *)
From Coq Require Import QArith.
From DC Require Import DCPrelude RecipesBase Gen_Recipes Recipes AveragerFacts ThrottleFacts.

(* ---- Averager ---- *)
Local Open Scope Z_scope.

Theorem C20_averager_exact : forall progs sched,
  let cfg := arun sched (ainit progs) in
  avg_view (a_shared cfg) = (sumZ (a_ledger cfg), Z.of_nat (length (a_ledger cfg))).
Proof. exact avg_exact. Qed.
Print Assumptions C20_averager_exact.

Theorem C20_averager_add_counts_once : forall progs sched c v rest,
  let cfg := arun sched (ainit progs) in
  nth_error (a_clients cfg) c = Some (AAdd v :: rest) ->
  let cfg' := astep cfg c in
  avg_view (a_shared cfg') = (sumZ (a_ledger cfg) + v, Z.of_nat (length (a_ledger cfg)) + 1) /\
  a_ledger cfg' = v :: a_ledger cfg.
Proof. exact avg_add_counts_once. Qed.
Print Assumptions C20_averager_add_counts_once.

(* get reports total/count of the adds since the last pop, None when there are none *)
Theorem C20_averager_get : forall progs sched c rest,
  let cfg := arun sched (ainit progs) in
  nth_error (a_clients cfg) c = Some (AGet :: rest) ->
  let cfg' := astep cfg c in
  hd_error (a_trace cfg') = Some (c, AGot (ledger_mean (a_ledger cfg))) /\
  a_shared cfg' = a_shared cfg /\ a_ledger cfg' = a_ledger cfg.
Proof. exact avg_get_reports. Qed.
Print Assumptions C20_averager_get.

(* pop reports the same and starts a new ledger: each add is reported by exactly one pop *)
Theorem C20_averager_pop : forall progs sched c rest,
  let cfg := arun sched (ainit progs) in
  nth_error (a_clients cfg) c = Some (APop :: rest) ->
  let cfg' := astep cfg c in
  hd_error (a_trace cfg') = Some (c, APopped (ledger_mean (a_ledger cfg))) /\
  a_shared cfg' = None /\ a_ledger cfg' = [].
Proof. exact avg_pop_reports. Qed.
Print Assumptions C20_averager_pop.

(* ---- throttle ---- *)
Local Open Scope Q_scope.

Theorem C20_throttle_rate : forall count seconds t0 att t W,
  1 <= count -> 0 < seconds -> 0 <= W -> monotone t0 att ->
  let es := snd (thr_run count (thr_rate count seconds) (thr_init t0 count) att) in
  inject_Z (starts_in t (t + W) es) <= count + (count / seconds) * W.
Proof. exact thr_rate_bound. Qed.
Print Assumptions C20_throttle_rate.

Theorem C20_throttle_bucket : forall count rate s att,
  1 <= count -> bucket_ok count s -> bucket_ok count (fst (thr_run count rate s att)).
Proof. exact thr_bucket_invariant. Qed.
Print Assumptions C20_throttle_bucket.

Theorem C20_throttle_start_spends_one : forall count rate last tally now,
  let y := tally + (now - last) * rate in
  match snd (thr_attempt count rate (last, tally) now) with
  | TStart t => t = now /\ fst (fst (thr_attempt count rate (last, tally) now)) = now /\
                (if Qltb count y then snd (fst (thr_attempt count rate (last, tally) now)) = count - 1
                 else snd (fst (thr_attempt count rate (last, tally) now)) = y - 1 /\ 1 <= y)
  | TSleep dl => fst (thr_attempt count rate (last, tally) now) = (last, tally) /\ dl = (1 - y) / rate /\ y < 1
  end.
Proof. exact thr_attempt_spends_one. Qed.
Print Assumptions C20_throttle_start_spends_one.

Theorem C20_throttle_lone_progress : forall count rate s now dl now',
  0 < rate -> snd (thr_attempt count rate s now) = TSleep dl -> now + dl <= now' ->
  0 < dl /\ fst (thr_attempt count rate s now) = s /\
  snd (thr_attempt count rate (fst (thr_attempt count rate s now)) now') = TStart now'.
Proof. exact thr_lone_progress. Qed.
Print Assumptions C20_throttle_lone_progress.
