(* C17 -- check(fix=True) repairs any out-of-band damage; plain check() only reports.
   State = rows (rowid, size, filename) + Settings.count/size + the directory tree below the cache
   directory, with NO invariant relating them (any numbers of rows, files, directories; only rowids are
   unique, as INTEGER PRIMARY KEY guarantees).  check1 interprets the guards, repairs, pass order and
   walk directions regenerated from Cache.check (gen/Gen_Check.v). *)
From DC Require Import DCPrelude CheckBase Gen_Check Check CheckFacts.

(* plain check(): nothing changes, for every state *)
Theorem C17_plain_pure : forall s, fst (check1 s false) = s.
Proof. exact check1_plain_pure. Qed.
Print Assumptions C17_plain_pure.

(* plain check() reports exactly the inconsistencies of the state: missing files, wrong sizes, unknown
   files, empty directories, wrong counters (damage is stated without reference to check) *)
Theorem C17_reports_all : forall s w, In w (snd (check1 s false)) <-> damage s w.
Proof. exact check1_reports_all. Qed.
Print Assumptions C17_reports_all.

(* check(fix=True) reports, by (kind, name), the same inconsistencies as plain check() plus only the
   directories that its own file removals emptied *)
Theorem C17_fix_reports_same : forall s k,
  In k (map wkey (snd (check1 s true))) <->
  In k (map wkey (snd (check1 s false))) \/ exists z, k = wkey (WEmptyDir z) /\ emptied s z.
Proof. exact check1_fix_reports_same. Qed.
Print Assumptions C17_fix_reports_same.

(* after the repair every remaining row resolves to a file of the recorded size *)
Theorem C17_readable : forall s, rows_unique s ->
  forall r f, In r (rows (fst (check1 s true))) -> r_file r = Some f ->
  lookup_file (tree (fst (check1 s true))) f = Some (r_size r).
Proof. exact check1_readable. Qed.
Print Assumptions C17_readable.

(* undamaged rows (inline, or file present with the recorded size) stay, their files stay and keep their
   size; no file belonging to a row or to the database is removed *)
Theorem C17_preserves : forall s, rows_unique s ->
  (forall r, In r (rows s) -> row_ok s r ->
     In r (rows (fst (check1 s true))) /\
     forall f, r_file r = Some f -> lookup_file (tree (fst (check1 s true))) f = lookup_file (tree s) f) /\
  (forall x, In x (all_files (tree s)) -> file_owned s x -> In x (all_files (tree (fst (check1 s true))))).
Proof. exact check1_preserves. Qed.
Print Assumptions C17_preserves.

Theorem C17_counters_fixed : forall s,
  s_count (fst (check1 s true)) = row_count (fst (check1 s true)) /\
  s_size (fst (check1 s true)) = row_sum (fst (check1 s true)).
Proof. exact check1_counters_fixed. Qed.
Print Assumptions C17_counters_fixed.

(* a second check after check(fix=True) reports nothing, for every damaged state.  (Before commit 63db292 the
   empty-directory repair was os.rmdir and this was false: finding D16, now `fixed:`; the exact residue of
   that version is CheckFacts.second_check_rmdir, its witness d16_state / d16_second_rmdir.) *)
Theorem C17_converges : forall s, rows_unique s -> snd (check1 (fst (check1 s true)) false) = [].
Proof. exact check1_converges. Qed.
Print Assumptions C17_converges.

(* the hypothesis is satisfiable by a damaged state: 9 warnings, then a clean second check *)
Example C17_converges_example :
  rows_unique ok_state /\ length (snd (check1 ok_state true)) = 9%nat /\ snd (check1 (fst (check1 ok_state true)) false) = [].
Proof. exact ok_state_example. Qed.

(* the former witness of D16 (an intact item, a stray file in 3/4/, an empty directory 5/6/): everything the
   repair empties is gone, only the item's directories remain *)
Theorem C17_converges_regression :
  snd (check1 (fst (check1 d16_state true)) false) = []
  /\ root_subs (tree (fst (check1 d16_state true))) =
     [ {| d1_id := 1; d1_files := []; d1_subs := [ {| d2_id := 2; d2_files := [ {| f_id := 10; f_size := 10; f_db := false |} ] |} ] |} ].
Proof. exact d16_second. Qed.
Print Assumptions C17_converges_regression.

(* FanoutCache.check = every shard checked once with the same fix flag, warnings concatenated in shard order *)
Theorem C17_fanout : forall ss fx,
  check_fanout ss fx = (map (fun s => fst (check1 s fx)) ss, flat_map (fun s => snd (check1 s fx)) ss).
Proof. exact check_fanout_spec. Qed.
Print Assumptions C17_fanout.
