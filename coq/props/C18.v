(* C18 -- data and settings persist and are shared by every handle on the directory; the released on-disk
   format stays readable.
   Proved here: (1) everything the translator reads off the current source about the on-disk format equals
   the frozen copy of the 5.6.3 format (model/Format_5_6_3.v, hand-written once from the pinned source);
   (2) the settings a handle sees are defaults (+) Settings table (+) arguments, a later open sees the same,
   reopening is idempotent -- for all dictionaries; (3) for FanoutCache this FAILS at size_limit (finding
   C18-F1 / D17) and holds for every other setting; (4) a pickled handle carries the directory, the timeout
   and the disk class (and the shard count) and nothing else, and __setstate__ feeds exactly these back
   into __init__.  Visibility across threads, processes and fork is runtime behaviour of SQLite and of the
   pid check in Cache._con: exercised by harness/props/c18.py, not proved. *)
From DC Require Import DCPrelude Val DiskBase FormatBase Gen_Disk Disk Gen_Format Format_5_6_3 Open FormatFacts.

Theorem C18_format_frozen :
  (Gen_Format.DBNAME = Format_5_6_3.DBNAME /\
   Gen_Format.DEFAULT_SETTINGS = Format_5_6_3.DEFAULT_SETTINGS /\
   Gen_Format.METADATA = Format_5_6_3.METADATA /\
   Gen_Format.merge_order = Format_5_6_3.merge_order /\
   Gen_Format.merge_drops_metadata = Format_5_6_3.merge_drops_metadata /\
   Gen_Format.init_ddl = Format_5_6_3.init_ddl /\
   Gen_Format.policy_ddl = Format_5_6_3.policy_ddl /\
   Gen_Format.tag_index_ddl = Format_5_6_3.tag_index_ddl /\
   Gen_Format.value_file_layout = Format_5_6_3.value_file_layout /\
   Gen_Format.queue = Format_5_6_3.queue /\
   Gen_Format.shard_dir_format = Format_5_6_3.shard_dir_format /\
   (* the one recorded difference (repair of C18-F1): released = handed to every shard on every open; current = handed
      when given or when the shard is new.  C18_fanout_rule_compatible: the two agree on new shards and whenever
      size_limit is given, so a directory written by the released code is opened as before except that a plain reopen
      no longer overwrites the stored per-shard limit *)
   (Format_5_6_3.fanout_size_limit_rule = SLAlwaysPassed /\ Gen_Format.fanout_size_limit_rule = SLWhenGivenOrNew) /\
   Gen_Format.cache_getstate = Format_5_6_3.cache_getstate /\
   Gen_Format.cache_init_params = Format_5_6_3.cache_init_params /\
   Gen_Format.fanout_getstate = Format_5_6_3.fanout_getstate /\
   Gen_Format.fanout_init_params = Format_5_6_3.fanout_init_params) /\
  (Gen_Disk.MODE_NONE = Format_5_6_3.MODE_NONE /\ Gen_Disk.MODE_RAW = Format_5_6_3.MODE_RAW /\
   Gen_Disk.MODE_BINARY = Format_5_6_3.MODE_BINARY /\ Gen_Disk.MODE_TEXT = Format_5_6_3.MODE_TEXT /\
   Gen_Disk.MODE_PICKLE = Format_5_6_3.MODE_PICKLE /\ Gen_Disk.hash_mask = Format_5_6_3.hash_mask) /\
  (* the second recorded difference (repair of C02-F2 / C03-F1): released = a float NaN KEY is bound natively, which SQLite
     stores as NULL (C18_released_put_nan_null); current = it is pickled like every non-native key.  Every other key gets the
     released decision (C18_put_compatible: the same database key), so every entry written by released code is found as
     before; rows that released code stored under NaN (key NULL) were unreachable by key then and stay so, and are removed
     by clear / expire / evict / cull like any row *)
  ((forall key, is_nan key = false -> Gen_Disk.put_plan_of key = Format_5_6_3.put_plan_of key) /\
   Format_5_6_3.put_plan_of (VFloat FNaN) = PutNative true /\ Gen_Disk.put_plan_of (VFloat FNaN) = PutPickle false) /\
  (forall m pkv value read, Gen_Disk.store_plan_of m pkv value read = Format_5_6_3.store_plan_of m pkv value read) /\
  (forall mode n r, Gen_Disk.fetch_plan_of mode n r = Format_5_6_3.fetch_plan_of mode n r) /\
  (forall e, Gen_Disk.write_newline e = Format_5_6_3.write_newline e) /\
  (forall k, Gen_Disk.hash_plan_of k = Format_5_6_3.hash_plan_of k).
Proof. exact format_frozen. Qed.
Print Assumptions C18_format_frozen.

(* The former finding C02-F2 as a statement about the RELEASED Disk.put (the frozen decision tree under the interpretation of
   model/Disk.v): float('nan') becomes the database key NULL with raw = 1 -- which addresses no row
   (C03_null_key_matches_nothing) -- while the current put gives the BLOB key pkk NaN with raw = 0. *)
Theorem C18_released_put_nan_null : forall c,
  put_with Format_5_6_3.put_plan_of c (VFloat FNaN) = PutOk SNull true /\
  put c (VFloat FNaN) = PutOk (SBlob (pkk c (VFloat FNaN))) false.
Proof. exact released_and_current_put_nan. Qed.
Print Assumptions C18_released_put_nan_null.

(* The repair changes nothing else: every other key is given the database key (and raw flag) the released code gave it. *)
Theorem C18_put_compatible : forall c key, is_nan key = false -> put c key = put_with Format_5_6_3.put_plan_of c key.
Proof. exact put_compatible. Qed.
Print Assumptions C18_put_compatible.

(* for all dictionaries of defaults, stored settings and arguments, over any type of values; `meta` is what
   INSERT OR IGNORE puts into the Settings table for the METADATA keys *)
Theorem C18_reopen_settings : forall (V : Type) (meta defaults stored given : @dict V),
  map fst meta = map fst Gen_Format.METADATA ->
  (forall k, lookup k (open_settings defaults stored given) =
             if mem k (map fst Gen_Format.METADATA) then None
             else first_some (lookup k given) (first_some (lookup k stored) (lookup k defaults))) /\
  (forall g2 k, lookup k g2 = None ->
     lookup k (open_settings defaults (stored_after meta defaults stored given) g2) = lookup k (open_settings defaults stored given)) /\
  (forall k v, mem k (map fst Gen_Format.METADATA) = false -> lookup k given = Some v ->
     lookup k (open_settings defaults (stored_after meta defaults stored given) []) = Some v) /\
  (forall k, lookup k (stored_after meta defaults (stored_after meta defaults stored given) []) =
             lookup k (stored_after meta defaults stored given)).
Proof. exact (@reopen_settings_all). Qed.
Print Assumptions C18_reopen_settings.

Example C18_reopen_settings_example :
  map fst Gen_Format.METADATA = map fst Gen_Format.METADATA /\
  lookup size_limit_key (open_settings Gen_Format.DEFAULT_SETTINGS [] d17_given) = Some (SVInt 1000).
Proof. exact reopen_settings_example. Qed.

(* The full statement for one shard of a FanoutCache, for all dictionaries and every setting (size_limit included).
   `existed`: the shard's database file was there before the open; `divide` is "/ shards".  After any open the shard
   exists, so the later open is taken with existed = true. *)
Theorem C18_fanout_reopen_settings : forall (V : Type) (divide : V -> V) (meta defaults stored given : @dict V) (existed : bool),
  map fst meta = map fst Gen_Format.METADATA ->
  (forall g2 k, lookup k g2 = None ->
     lookup k (fanout_open_settings divide true defaults (fanout_stored_after divide existed meta defaults stored given) g2) =
     lookup k (fanout_open_settings divide existed defaults stored given)) /\
  (* (a) an existing shard opened without size_limit shows the stored limit and leaves it stored *)
  (forall v, existed = true -> lookup size_limit_key stored = Some v -> lookup size_limit_key given = None ->
     lookup size_limit_key (fanout_open_settings divide existed defaults stored given) = Some v /\
     lookup size_limit_key (fanout_stored_after divide existed meta defaults stored given) = Some v) /\
  (* (b) a new shard opened without size_limit gets the default total divided *)
  (forall d, existed = false -> lookup size_limit_key given = None -> lookup size_limit_key defaults = Some d ->
     lookup size_limit_key (fanout_open_settings divide existed defaults stored given) = Some (divide d) /\
     lookup size_limit_key (fanout_stored_after divide existed meta defaults stored given) = Some (divide d)) /\
  (* (c) a given size_limit is divided, shown and stored, for new and existing shards *)
  (forall v, lookup size_limit_key given = Some v ->
     lookup size_limit_key (fanout_open_settings divide existed defaults stored given) = Some (divide v) /\
     lookup size_limit_key (fanout_stored_after divide existed meta defaults stored given) = Some (divide v)) /\
  (* every other setting is treated as by a plain Cache *)
  (forall k, zlist_eqb k size_limit_key = false ->
     lookup k (fanout_open_settings divide existed defaults stored given) = lookup k (open_settings defaults stored given)).
Proof. exact (@fanout_reopen_settings_all). Qed.
Print Assumptions C18_fanout_reopen_settings.

(* the hypotheses are satisfiable, on the witness of the former finding: FanoutCache(d, shards=2, size_limit=1000) shows
   500 per shard; reopened without the argument it shows 500 and 500 stays stored; a new one shows DEFAULT / 2 *)
Example C18_fanout_reopen_settings_example :
  map fst Gen_Format.METADATA = map fst Gen_Format.METADATA /\
  lookup size_limit_key (fanout_open_settings (sval_div 2) false Gen_Format.DEFAULT_SETTINGS [] d17_given) = Some (SVInt 500) /\
  lookup size_limit_key
    (fanout_open_settings (sval_div 2) true Gen_Format.DEFAULT_SETTINGS
       (fanout_stored_after (sval_div 2) false Gen_Format.METADATA Gen_Format.DEFAULT_SETTINGS [] d17_given) [])
  = Some (SVInt 500) /\
  lookup size_limit_key
    (fanout_stored_after (sval_div 2) true Gen_Format.METADATA Gen_Format.DEFAULT_SETTINGS
       (fanout_stored_after (sval_div 2) false Gen_Format.METADATA Gen_Format.DEFAULT_SETTINGS [] d17_given) [])
  = Some (SVInt 500) /\
  lookup size_limit_key (fanout_open_settings (sval_div 2) false Gen_Format.DEFAULT_SETTINGS [] []) = Some (SVInt 536870912).
Proof. exact fanout_reopen_settings_example. Qed.

(* The former finding C18-F1 / D17 as a statement about the RELEASED rule (Format_5_6_3.fanout_size_limit_rule =
   SLAlwaysPassed): FanoutCache(dir, shards=2, size_limit=1000) gives every shard 500; reopened without the argument
   every shard is given DEFAULT/2 = 536870912, which overwrites the stored 500. *)
Theorem C18_released_fanout_size_limit_refuted :
  exists (defaults meta given : @dict sval) (divide : sval -> sval) v,
    map fst meta = map fst Gen_Format.METADATA /\
    lookup size_limit_key (fanout_open_settings_with Format_5_6_3.fanout_size_limit_rule divide false defaults [] given) = Some v /\
    lookup size_limit_key
      (fanout_open_settings_with Format_5_6_3.fanout_size_limit_rule divide true defaults
         (fanout_stored_after_with Format_5_6_3.fanout_size_limit_rule divide false meta defaults [] given) []) <> Some v.
Proof. exact released_fanout_size_limit_refuted_ex. Qed.
Print Assumptions C18_released_fanout_size_limit_refuted.

(* The repair changes nothing else: a new shard, and any shard when size_limit is given, is handed the very same
   dictionary by the current rule and by the released one. *)
Theorem C18_fanout_rule_compatible : forall (V : Type) (divide : V -> V) (existed : bool) (defaults given : @dict V),
  existed = false \/ lookup size_limit_key given <> None ->
  fanout_given Gen_Format.fanout_size_limit_rule size_limit_key divide existed defaults given =
  fanout_given Format_5_6_3.fanout_size_limit_rule size_limit_key divide existed defaults given.
Proof. exact (@fanout_rule_compatible_all). Qed.
Print Assumptions C18_fanout_rule_compatible.

(* what a handle carries: __getstate__ lists exactly the leading positional parameters of __init__, so
   unpickling (and copy) reopens the same directory with the same timeout and disk class (and shard count);
   everything else a handle shows comes from the directory (C18_reopen_settings) *)
Theorem C18_handle_free :
  (forall h d, let h' := setstate Gen_Format.cache_init_params (getstate Gen_Format.cache_getstate h) d in
     h_directory h' = h_directory h /\ h_timeout h' = h_timeout h /\ h_disk h' = h_disk h /\
     h_shards h' = h_shards d /\ h_maxlen h' = h_maxlen d) /\
  (forall h d, let h' := setstate Gen_Format.fanout_init_params (getstate Gen_Format.fanout_getstate h) d in
     h_directory h' = h_directory h /\ h_shards h' = h_shards h /\ h_timeout h' = h_timeout h /\ h_disk h' = h_disk h).
Proof. exact handle_free. Qed.
Print Assumptions C18_handle_free.
