#!/bin/bash
# Build the Coq development: regenerate _CoqProject file list and Makefile, then make the given targets.
# usage: coq/mk.sh [make-args...]     (run from anywhere)
SELF="$(readlink -f "$0")"
cd "$(dirname "$SELF")" || exit 2
mkdir -p ../build
# one build at a time (several checks / developers share this directory)
if [ -z "$DC_MK_LOCKED" ]; then export DC_MK_LOCKED=1; exec flock ../build/mk.lock "$SELF" "$@"; fi
{
  cat _CoqProject.head
  find base gen model proofs props -name '*.v' | LC_ALL=C sort
} > _CoqProject.new
if ! cmp -s _CoqProject.new _CoqProject; then mv _CoqProject.new _CoqProject; rm -f Makefile.coq Makefile.coq.conf; else rm _CoqProject.new; fi
if [ ! -f Makefile.coq ]; then coq_makefile -f _CoqProject -o Makefile.coq >/dev/null || exit 2; fi
exec make -f Makefile.coq "$@"
