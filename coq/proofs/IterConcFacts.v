(* A lock-free iteration among writers (model/IterConc.v).  For EVERY sequence of committed tables read by its statements (= every
   schedule of the other clients), each table in rowid order (state invariant):
   (1) no phantom: every row yielded was read from one of the committed tables, and lies in the rowid window fixed at the start;
   (2) the rows come out in strictly ascending rowid order: nothing is yielded twice;
   (3) stability: a row that is in EVERY table the iteration reads and was there when MAX(rowid) was read is yielded, once the iteration
       has come to its end;
   (4) the full statement "the keys yielded are the keys of ONE committed state" is FALSE (findings C05-F1 / C06-F5): witness
       t0 = {a}; another client stores b and deletes a; the page reads {b}: nothing is yielded, and the cache was never empty. *)
From Coq Require Import ZArith List Bool Lia Sorted Permutation.
From DC Require Import DCPrelude DCPreludeFacts Val DiskBase SqlBase Gen_Disk Disk Gen_Sql Cache Refs
  TableFacts TableRows SqlBridge ExpiryFacts SortFacts SqlOrderFacts SinvFacts IterFacts IterConc.

Lemma ssorted_app {A} (R : A -> A -> Prop) (a b : list A) :
  StronglySorted R a -> StronglySorted R b -> (forall x y, In x a -> In y b -> R x y) -> StronglySorted R (a ++ b).
Proof.
  induction a as [|x a IH]; intros Sa Sb H; cbn [app]; [exact Sb|].
  inversion Sa as [|? ? Sa' Fa]; subst. constructor.
  - apply IH; [exact Sa'|exact Sb|]. intros u v Iu Iv. apply H; [right; exact Iu|exact Iv].
  - apply Forall_app. split; [exact Fa|]. apply Forall_forall. intros y Iy. apply H; [left; reflexivity|exact Iy].
Qed.

Definition window (pos bound : Z) (r : row) : bool := (pos <? rowid r) && (rowid r <? bound).

(* a page is the first rows of the table's window *)
Lemma page_is_take pos bound t : asc t ->
  iter_select_asc pos bound iter_page t = take page_n (filter (window pos bound) t).
Proof.
  intros A. rewrite bridge_iter_select_asc. rewrite sql_order_rowid_asc by (apply asc_filter; exact A).
  rewrite sql_limit_take by (pose proof bridge_iter_page_pos; lia). reflexivity.
Qed.

Lemma in_take {A} n (l : list A) x : In x (take n l) -> In x l.
Proof. intros I. rewrite (take_app_drop n l). apply in_or_app. left. exact I. Qed.

Lemma asc_take n t : asc t -> asc (take n t).
Proof. intros A. rewrite (take_app_drop n t) in A. apply asc_app_inv in A. tauto. Qed.

Lemma page_facts pos bound t pg : asc t -> iter_select_asc pos bound iter_page t = pg ->
  asc pg /\ (forall x, In x pg -> In x t /\ pos < rowid x < bound) /\
  (forall r, In r t -> pos < rowid r < bound -> In r pg \/ (pg <> [] /\ rowid (last pg dummy_row) < rowid r)).
Proof.
  intros A E. rewrite (page_is_take pos bound t A) in E. subst pg.
  set (w := filter (window pos bound) t). assert (Aw : asc w) by (apply asc_filter; exact A).
  split; [apply asc_take; exact Aw|]. split.
  - intros x I. apply in_take in I. unfold w in I. apply filter_In in I as [I W].
    unfold window in W. apply andb_true_iff in W as [W1 W2]. apply Z.ltb_lt in W1, W2. split; [exact I|lia].
  - intros r I W. assert (Iw : In r w).
    { unfold w. apply filter_In. split; [exact I|]. unfold window. apply andb_true_iff. split; apply Z.ltb_lt; lia. }
    assert (Ne : take page_n w <> []).
    { apply take_nonempty; [exact page_n_pos|]. intros E. rewrite E in Iw. destruct Iw. }
    pose proof Iw as Iw2. rewrite (take_app_drop page_n w) in Iw2. apply in_app_or in Iw2 as [Iw2|Iw2]; [left; exact Iw2|right].
    split; [exact Ne|].
    pose proof Aw as Aw'. rewrite (take_app_drop page_n w) in Aw'. apply asc_app_inv in Aw' as [_ [_ Lt]].
    apply Lt; [apply last_in; exact Ne|exact Iw2].
Qed.

Section Schedule.
  Variable tb : tables.
  Hypothesis tb_asc : forall n, asc (tb n).

  (* (1) + window *)
  Lemma pages_no_phantom bound fuel : forall n pos r, In r (pages fuel n pos bound tb) ->
    (exists m, (n <= m)%nat /\ In r (tb m)) /\ pos < rowid r < bound.
  Proof.
    induction fuel as [|f IH]; intros n pos r I; cbn [pages] in I; [destruct I|].
    destruct (iter_select_asc pos bound iter_page (tb n)) as [|x pg] eqn:E; [destruct I|].
    destruct (page_facts pos bound (tb n) (x :: pg) (tb_asc n) E) as [Apg [Sub _]].
    apply in_app_or in I as [I|I].
    - destruct (Sub r I) as [It W]. split; [exists n; split; [lia|exact It]|exact W].
    - destruct (IH (S n) _ r I) as [[m [Hm Im]] W]. split; [exists m; split; [lia|exact Im]|].
      assert (pos < rowid (last (x :: pg) dummy_row)).
      { destruct (Sub (last (x :: pg) dummy_row)) as [_ W']; [apply last_in; discriminate|lia]. }
      lia.
  Qed.

  (* (2) strictly ascending *)
  Lemma pages_asc bound fuel : forall n pos, asc (pages fuel n pos bound tb).
  Proof.
    induction fuel as [|f IH]; intros n pos; cbn [pages]; [constructor|].
    destruct (iter_select_asc pos bound iter_page (tb n)) as [|x pg] eqn:E; [constructor|].
    destruct (page_facts pos bound (tb n) (x :: pg) (tb_asc n) E) as [Apg [Sub _]].
    unfold asc. rewrite map_app. apply ssorted_app; [exact Apg|apply IH|].
    intros a b Ia Ib. apply in_map_iff in Ia as [ra [<- Ia]]. apply in_map_iff in Ib as [rb [<- Ib]].
    destruct (pages_no_phantom bound f (S n) _ rb Ib) as [_ W].
    pose proof (asc_last_max (x :: pg) ra dummy_row Apg Ia). lia.
  Qed.

  (* (3) a row that every page statement finds is yielded when the iteration comes to its end *)
  Lemma pages_stable bound fuel : forall n pos r,
    (forall m, (n <= m)%nat -> In r (tb m)) -> pos < rowid r < bound ->
    pages_done fuel n pos bound tb = true -> In r (pages fuel n pos bound tb).
  Proof.
    induction fuel as [|f IH]; intros n pos r All W D; cbn [pages pages_done] in *; [discriminate|].
    destruct (iter_select_asc pos bound iter_page (tb n)) as [|x pg] eqn:E.
    - destruct (page_facts pos bound (tb n) [] (tb_asc n) E) as [_ [_ Cov]].
      destruct (Cov r (All n (le_n n)) W) as [[]|[Ne _]]. exfalso. apply Ne. reflexivity.
    - destruct (page_facts pos bound (tb n) (x :: pg) (tb_asc n) E) as [_ [_ Cov]].
      apply in_or_app. destruct (Cov r (All n (le_n n)) W) as [I|[_ Lt]]; [left; exact I|right].
      apply IH; [intros m Hm; apply All; lia|lia|exact D].
  Qed.
End Schedule.

Theorem iter_no_phantom tb fuel r : (forall n, asc (tb n)) ->
  In r (iter_among_writers fuel tb) -> exists m, (1 <= m)%nat /\ In r (tb m).
Proof.
  intros A I. unfold iter_among_writers in I. destruct (iter_max (tb O)) as [mx|]; [|destruct I].
  destruct (pages_no_phantom tb A (mx + 1) fuel 1 0 r I) as [H _]. exact H.
Qed.

Theorem iter_no_repeat tb fuel : (forall n, asc (tb n)) -> asc (iter_among_writers fuel tb).
Proof.
  intros A. unfold iter_among_writers. destruct (iter_max (tb O)) as [mx|]; [apply pages_asc; exact A|constructor].
Qed.

Theorem iter_stable tb fuel r : (forall n, asc (tb n)) -> (forall n, In r (tb n)) -> 0 < rowid r ->
  iter_done fuel tb = true -> In r (iter_among_writers fuel tb).
Proof.
  intros A All Pos D. unfold iter_among_writers, iter_done in *. rewrite bridge_iter_max in *.
  destruct (max_opt (map rowid (tb O))) as [mx|] eqn:M.
  - apply pages_stable; [exact A|intros m _; apply All| |exact D].
    pose proof (max_opt_ge (map rowid (tb O)) (rowid r) (in_map rowid _ _ (All O))) as G. rewrite M in G. lia.
  - apply max_opt_none, map_eq_nil in M. pose proof (All O) as I. rewrite M in I. destruct I.
Qed.

(* (4) the witness: keys a (rowid 1) and b (rowid 2) *)
Definition mk (i : Z) (k : Z) : row :=
  {| rowid := i; rkey := SInt k; rraw := true; store_time := 0; expire_time := None; access_time := 0;
     access_count := 0; rtag := SNull; rsize := 0; rmode := 1; rfile := None; rvalue := SInt 5 |}.
Definition ra := mk 1 1.
Definition rb := mk 2 2.
(* statement 0 (MAX) reads {a}; the other client stores b ({a, b}: read by nobody) and deletes a; every page statement reads {b} *)
Definition torn_tables : tables := fun n => match n with O => [ra] | _ => [rb] end.
Definition committed_states : list (list row) := [[ra]; [ra; rb]; [rb]].

Lemma iter_torn_witness :
  iter_done 3 torn_tables = true /\ keys_of (iter_among_writers 3 torn_tables) = [] /\
  forallb (fun t => negb (Nat.eqb (length (keys_of t)) 0)) committed_states = true.
Proof. vm_compute. repeat split; reflexivity. Qed.

Print Assumptions iter_stable.
Print Assumptions iter_no_repeat.
