(* What the table primitives do to the list of rows, and the rowid invariant (strictly ascending rowids,
   hence unique) for every reachable state. *)
From DC Require Import DCPrelude DCPreludeFacts Val DiskBase SqlBase Gen_Disk Disk Gen_Sql Cache TableFacts.
From Coq Require Import Sorted.

Lemma rows_t_insert mk s : rows (t_insert mk s) = rows s ++ [mk (next_rowid (rows s))].
Proof. reflexivity. Qed.

Lemma upd_rows_fst wh f : forall t sz, fst (upd_rows wh f t sz) = map (fun r => if wh r then f r else r) t.
Proof.
  induction t as [|r t IH]; intros sz; cbn; [reflexivity|].
  destruct (wh r).
  - specialize (IH (trig_update_size sz (f r) r)). destruct (upd_rows wh f t _) as [t' sz']. cbn in *. congruence.
  - specialize (IH sz). destruct (upd_rows wh f t sz) as [t' sz']. cbn in *. congruence.
Qed.

Lemma rows_t_update wh f s : rows (t_update wh f s) = map (fun r => if wh r then f r else r) (rows s).
Proof.
  unfold t_update. pose proof (upd_rows_fst wh f (rows s) (n_size s)) as U.
  destruct (upd_rows wh f (rows s) (n_size s)) as [t' sz']. exact U.
Qed.

Lemma del_rows_fst wh : forall t cnt sz, fst (fst (del_rows wh t cnt sz)) = filter (fun r => negb (wh r)) t.
Proof.
  induction t as [|r t IH]; intros cnt sz; cbn [del_rows filter]; [reflexivity|].
  destruct (wh r); cbn [negb].
  - apply IH.
  - specialize (IH cnt sz). destruct (del_rows wh t cnt sz) as [[t' c'] s']. cbn in *. congruence.
Qed.

Lemma rows_t_delete wh s : rows (t_delete wh s) = filter (fun r => negb (wh r)) (rows s).
Proof.
  unfold t_delete. pose proof (del_rows_fst wh (rows s) (n_count s) (n_size s)) as U.
  destruct (del_rows wh (rows s) (n_count s) (n_size s)) as [[t' c'] s']. exact U.
Qed.

Lemma rows_set_fs s f n : rows (set_fs s f n) = rows s.
Proof. reflexivity. Qed.
Lemma rows_set_stats s h m b : rows (set_stats s h m b) = rows s.
Proof. reflexivity. Qed.
Lemma rows_fs_write s c : rows (fst (fs_write s c)) = rows s.
Proof. destruct c; reflexivity. Qed.
Lemma rows_fs_remove l : forall s, rows (fs_remove s l) = rows s.
Proof. unfold fs_remove. induction l as [|o l IH]; cbn; auto. intros s. rewrite IH. destruct o; reflexivity. Qed.
Lemma rows_bump s b : rows (bump s b) = rows s.
Proof. unfold bump. destruct (statistics s), b; reflexivity. Qed.

(* ---- rowids strictly ascending ---- *)
Definition rowids_ok (s : st) : Prop := StronglySorted Z.lt (map rowid (rows s)).

Lemma max_opt_ge l : forall x, In x l -> match max_opt l with Some m => x <= m | None => False end.
Proof.
  induction l as [|y l IH]; cbn; [intros x []|].
  intros x [->|I].
  - destruct (max_opt l); lia.
  - specialize (IH x I). destruct (max_opt l); [lia|contradiction].
Qed.

Lemma next_rowid_gt t r : In r t -> rowid r < next_rowid t.
Proof.
  intros I. unfold next_rowid. pose proof (max_opt_ge (map rowid t) (rowid r) (in_map rowid t r I)) as M.
  destruct (max_opt (map rowid t)); [lia|contradiction].
Qed.

Lemma sorted_app_one l x : StronglySorted Z.lt l -> (forall y, In y l -> y < x) -> StronglySorted Z.lt (l ++ [x]).
Proof.
  induction l as [|a l IH]; cbn; intros S H.
  - repeat constructor.
  - inversion S; subst. constructor.
    + apply IH; auto.
    + apply Forall_app. split; [assumption|]. constructor; [apply H; auto|constructor].
Qed.

Lemma sorted_filter (f : Z -> bool) l : StronglySorted Z.lt l -> StronglySorted Z.lt (filter f l).
Proof.
  induction l as [|a l IH]; cbn; intros S; [constructor|]. inversion S; subst.
  destruct (f a); [|auto]. constructor; [auto|].
  apply Forall_forall. intros y I. apply filter_In in I as [I _]. eapply Forall_forall in H2; eauto.
Qed.

Lemma sorted_rows_filter (wh : row -> bool) t :
  StronglySorted Z.lt (map rowid t) -> StronglySorted Z.lt (map rowid (filter wh t)).
Proof.
  induction t as [|a t IH]; cbn; intros S; [constructor|]. inversion S; subst.
  destruct (wh a); cbn; [|auto]. constructor; [auto|].
  apply Forall_forall. intros y I. apply in_map_iff in I as [r [<- I]]. apply filter_In in I as [I _].
  eapply Forall_forall in H2; [exact H2|]. apply in_map. exact I.
Qed.

Lemma sorted_rows_map (g : row -> row) t :
  (forall r, rowid (g r) = rowid r) -> map rowid (map g t) = map rowid t.
Proof. intros H. rewrite map_map. apply map_ext. exact H. Qed.

Lemma rowids_closed : prim_closed rowids_ok.
Proof.
  split; unfold rowids_ok.
  - intros mk s Hm S. rewrite rows_t_insert, map_app. cbn. rewrite Hm.
    apply sorted_app_one; [exact S|].
    intros y I. apply in_map_iff in I as [r [<- I]]. apply next_rowid_gt, I.
  - intros wh f s Hf S. rewrite rows_t_update, sorted_rows_map; [exact S|].
    intros r. destruct (wh r); [apply Hf | reflexivity].
  - intros wh s S. rewrite rows_t_delete. apply sorted_rows_filter, S.
  - intros s f n S. exact S.
  - intros s h m b S. exact S.
Qed.

Theorem rowids_step c s o now vols : rowids_ok s -> rowids_ok (fst (step c s o now vols)).
Proof. apply step_closed, rowids_closed. Qed.

Theorem rowids_run c h s : rowids_ok s -> rowids_ok (run c s h).
Proof. apply run_closed, rowids_closed. Qed.

Lemma rowids_init : rowids_ok init_st.
Proof. constructor. Qed.

Lemma sorted_nodup l : StronglySorted Z.lt l -> NoDup l.
Proof.
  induction l as [|a l IH]; intros S; [constructor|]. inversion S; subst. constructor; [|auto].
  intros I. eapply Forall_forall in H2; eauto. lia.
Qed.

(* a rowid identifies a row *)
Lemma nodup_map_inj {A} (f : A -> Z) (t : list A) x y :
  NoDup (map f t) -> In x t -> In y t -> f x = f y -> x = y.
Proof.
  induction t as [|a t IH]; cbn; intros N Ix Iy E; [contradiction|]. inversion N; subst.
  destruct Ix as [->|Ix], Iy as [->|Iy]; auto.
  - exfalso. apply H1. rewrite E. apply in_map, Iy.
  - exfalso. apply H1. rewrite <- E. apply in_map, Ix.
Qed.

Lemma rowid_unique s r r' : rowids_ok s -> In r (rows s) -> In r' (rows s) -> rowid r = rowid r' -> r = r'.
Proof. unfold rowids_ok. intros S. apply sorted_nodup in S. apply nodup_map_inj, S. Qed.
