(* The queue bodies of model/TxnQueue.v (push, pull, peek) meet what the concurrency machine asks of a body
   (ConcFacts.body_ok with Dinv := Winv), and run without interleaving they are op_push / op_pull / op_peek of
   model/Cache.v (the sequential model that C10_deque_refines is about) under the stated side conditions:
     push: the key it computes is not there yet (SinvFacts.push_fresh; C10 shows it for clean prefixes),
     pull: the selected head is not expired and its value can be read,
     peek: the selected head is not expired and its value is stored inline.
   Hence the all-schedule theorems of ConcTheorems.v hold for programs containing queue calls, and a COMMIT of
   a pull that delivers an item removes exactly that row from the committed state it was selected from. *)
From Coq Require Import ZArith List Bool Lia Sorted Permutation.
From DC Require Import DCPrelude DCPreludeFacts Val DiskBase SqlBase Gen_Disk Disk Gen_Sql Cache Refs Conc Txn TxnQueue
  TableFacts TableRows SqlBridge ExpiryFacts DiskFacts SortFacts SqlOrderFacts SinvFacts ConcFacts ConcTheorems
  QueueBridge QueueFacts TxnFacts.

(* ================================================================== the generated pieces, readably *)
Lemma push_dbk_is_push_key p sd t : push_dbk p sd t = push_key t p sd.
Proof. reflexivity. Qed.

Lemma push_collides_spec dbk t : push_collides dbk t = existsb (key_match dbk 1) t.
Proof. reflexivity. Qed.

Lemma push_collides_false dbk t r : push_collides dbk t = false -> In r t -> key_match dbk 1 r = false.
Proof.
  rewrite push_collides_spec. intros H I. apply not_true_is_false. intros T.
  assert (E : existsb (key_match dbk 1) t = true) by (apply existsb_exists; exists r; split; assumption).
  rewrite H in E. discriminate E.
Qed.

Lemma push_fresh_no_collision s p sd : push_fresh s p sd = true -> push_collides (push_dbk p sd (rows s)) (rows s) = false.
Proof.
  unfold push_fresh. rewrite push_dbk_is_push_key, push_collides_spec. intros H. apply not_true_is_false. intros E.
  apply existsb_exists in E as [r [I T]]. rewrite forallb_forall in H. specialize (H r I). rewrite T in H. discriminate H.
Qed.

(* ================================================================== sequential equivalence *)
Theorem seq_push retry c s v rd p sd e tag now pg :
  TxnFacts.fs_fresh s -> push_fresh s p sd = true ->
  run_seq (w_push retry c v rd p sd e tag now pg) s = op_push c s v rd p sd e tag now pg.
Proof.
  intros Fr Pf. unfold run_seq. cbn [w_store w_body w_push]. unfold body_push, op_push, stores_file.
  destruct (store _ _ v rd) as [sd0|]; [|reflexivity].
  pose proof (push_fresh_no_collision s p sd Pf) as Nc.
  destruct (s_file sd0) as [content|] eqn:Ef; cbn [is_some attach].
  - rewrite <- (fs_put_is_fs_write s content Fr).
    change (rows (fs_put s (next_file s) content)) with (rows s). cbv beta iota zeta. rewrite Nc.
    unfold push_dbk. cbv zeta. destruct (cull _ _ _ _) as [s3 cl2].
    cbn [ok_out bo_ok bo_db bo_cleanup bo_fetch bo_res ofile map]. rewrite fs_remove_somes. reflexivity.
  - cbn [fs_write]. cbv beta iota zeta. rewrite Nc.
    unfold push_dbk. cbv zeta. destruct (cull _ _ _ _) as [s3 cl2].
    cbn [ok_out bo_ok bo_db bo_cleanup bo_fetch bo_res ofile map]. rewrite fs_remove_somes. reflexivity.
Qed.

(* pull: the head (if any) is live and its value readable *)
Definition pull_side (c : cfg) (s : st) (p : option (list Z)) (sd : side) (now : Z) : Prop :=
  match pull_select sd p (rows s) with
  | [] => True
  | r0 :: _ => pull_expired (expire_time r0) now = false /\ fetch_row c s r0 false <> FIOError
  end.

Theorem seq_pull retry c s p sd now :
  pull_side c s p sd now -> run_seq (w_pull retry c p sd now) s = op_pull c s p sd now.
Proof.
  intros Sd. unfold run_seq, op_pull, pull_side in *. cbn [w_store w_body w_pull op_pull_loop]. unfold body_pull.
  destruct (pull_select sd p (rows s)) as [|r0 rs]; [reflexivity|]. destruct Sd as [Le Fe]. cbv zeta. rewrite Le.
  cbn [ok_out bo_ok bo_db bo_cleanup bo_fetch bo_res somes flat_map map].
  assert (Ff : fetch_row c (t_delete (pull_delete (rowid r0) (rows s)) s) r0 false = fetch_row c s r0 false)
    by (apply fetch_row_same_fs, fs_t_delete).
  rewrite Ff.
  assert (E : fs_remove (fs_remove (t_delete (pull_delete (rowid r0) (rows s)) s) []) (map Some (ofile (rfile r0))) =
              fs_remove (t_delete (pull_delete (rowid r0) (rows s)) s) [rfile r0]).
  { destruct (rfile r0); reflexivity. }
  rewrite E. unfold kv_result. destruct (fetch_row c s r0 false); try reflexivity. exfalso. apply Fe. reflexivity.
Qed.

(* under the row-level invariant a head that has a file can be read *)
Lemma winv_file_readable c s r0 g : Winv s -> In r0 (rows s) -> rfile r0 = Some g -> fetch_row c s r0 false <> FIOError.
Proof.
  intros W I Ef. pose proof (w_file s W r0 I) as F. unfold file_ok in F. rewrite Ef in F. destruct F as [c0 [F _]].
  unfold fetch_row, fs_lookup. rewrite Ef, F. apply fetch_some_not_ioerror.
Qed.

(* peek: the head (if any) is live and stored inline *)
Definition peek_side (s : st) (p : option (list Z)) (sd : side) (now : Z) : Prop :=
  match peek_select sd p (rows s) with
  | [] => True
  | r0 :: _ => peek_expired (expire_time r0) now = false /\ rfile r0 = None
  end.

Theorem seq_peek retry c s p sd now :
  peek_side s p sd now -> run_seq (w_peek retry c p sd now) s = op_peek c s p sd now.
Proof.
  intros Sd. unfold run_seq, op_peek, peek_side in *. cbn [w_store w_body w_peek op_peek_loop]. unfold body_peek.
  destruct (peek_select sd p (rows s)) as [|r0 rs]; [reflexivity|]. destruct Sd as [Le Fn]. rewrite Le, Fn.
  cbn [ok_out bo_ok bo_db bo_cleanup bo_fetch bo_res somes flat_map map ofile fs_remove fold_left].
  unfold kv_result, outside. destruct (fetch_row c s r0 false); reflexivity.
Qed.

(* ================================================================== body_ok *)
Theorem body_ok_push retry c v rd p sd e tag now pg : body_ok refs Winv (w_push retry c v rd p sd e tag now pg).
Proof.
  apply body_ok_intro. intros d f W Hf _. cbn [w_body w_push]. unfold body_push.
  destruct (store _ _ v rd) as [sd0|] eqn:St; [|apply out_ok_raise, W].
  destruct (attach d f (s_file sd0)) as [[s1 fid]|] eqn:At; [|apply out_ok_raise, W].
  destruct (attach_ok d f _ s1 fid W Hf At) as [W1 [R1 [Rw [-> Fok]]]].
  rewrite <- (store_size_ok _ _ _ _ _ St) in Fok.
  cbv zeta. destruct (push_collides (push_dbk p sd (rows s1)) (rows s1)) eqn:Pc; [apply out_ok_raise, W|].
  pose proof (insert_tail_ok c now pg d f s1 (push_dbk p sd (rows s1)) true (expire_at now e) tag sd0) as Tl. cbv zeta in Tl.
  destruct (cull c now pg _) as [s3 cl2] eqn:C. cbn [fst snd] in Tl. apply Tl; auto.
  - intros r I. apply (push_collides_false _ _ r Pc I).
  - unfold push_dbk. cbv zeta. apply qkey_make_wf.
  - unfold push_dbk. cbv zeta. apply qkey_make_nonnull.
Qed.

Theorem body_ok_pull retry c p sd now : body_ok refs Winv (w_pull retry c p sd now).
Proof.
  apply body_ok_intro. intros d f W Hf Hs. cbn [w_body w_pull w_store] in *. rewrite (Hs eq_refl). unfold body_pull.
  destruct (pull_select sd p (rows d)) as [|r0 rs] eqn:S; [apply unchanged_ok; auto|].
  assert (I0 : In r0 (rows d)) by (apply (pull_select_in sd p); rewrite S; left; reflexivity).
  cbv zeta. destruct (pull_expired _ _).
  - apply (delete_one_ok d _ r0); auto.
    + intros x. apply SqlBridge.bridge_pull_delete.
    + cbn. rewrite !app_nil_r. apply Permutation_refl.
  - apply (delete_one_ok d _ r0); auto.
    intros x. apply SqlBridge.bridge_pull_delete.
Qed.

Theorem body_ok_peek retry c p sd now : body_ok refs Winv (w_peek retry c p sd now).
Proof.
  apply body_ok_intro. intros d f W Hf Hs. cbn [w_body w_peek w_store] in *. rewrite (Hs eq_refl). unfold body_peek.
  destruct (peek_select sd p (rows d)) as [|r0 rs] eqn:S; [apply unchanged_ok; auto|].
  assert (I0 : In r0 (rows d)) by (apply (peek_select_in sd p); rewrite S; left; reflexivity).
  destruct (peek_expired _ _).
  - apply (delete_one_ok d _ r0); auto.
    + intros x. apply SqlBridge.bridge_peek_delete.
    + cbn. rewrite !app_nil_r. apply Permutation_refl.
  - destruct (rfile r0); apply unchanged_ok; auto.
Qed.

(* ================================================================== programs with queue calls, every schedule *)
Inductive qcall :=
| QPush (retry : bool) (v : pyval) (rd : bool) (p : option (list Z)) (sd : side) (e : option Z) (tag : sqlval) (now pg : Z)
| QPull (retry : bool) (p : option (list Z)) (sd : side) (now : Z)
| QPeek (retry : bool) (p : option (list Z)) (sd : side) (now : Z)
| QCall (x : call).                 (* set / add / delete / pop / touch / incr / get / contains *)

Definition qcompile (c : cfg) (x : qcall) : Conc.op st result :=
  match x with
  | QPush retry v rd p sd e tag now pg => OWrite (w_push retry c v rd p sd e tag now pg)
  | QPull retry p sd now => OWrite (w_pull retry c p sd now)
  | QPeek retry p sd now => OWrite (w_peek retry c p sd now)
  | QCall y => compile c y
  end.

Theorem qcompile_ok c x : op_ok refs Winv (qcompile c x).
Proof.
  destruct x; cbn [qcompile op_ok].
  - apply body_ok_push.
  - apply body_ok_pull.
  - apply body_ok_peek.
  - apply compile_ok.
Qed.

(* the machine invariant holds in every configuration reachable by any schedule (with kills) of any programs
   made of queue calls and dictionary calls, from the empty cache *)
Theorem queue_inv c (progs : nat -> list qcall) sched :
  Inv refs Winv (exec (init_config init_st (fun i => map (qcompile c) (progs i))) sched).
Proof.
  apply inv_exec, inv_init.
  - apply sinv_init.
  - reflexivity.
  - intros i. apply Forall_forall. intros o I. apply in_map_iff in I as [x [<- _]]. apply qcompile_ok.
Qed.

(* ---- what a delivering pull does to the state it ran on ---- *)
Lemma body_pull_delivers c p sd now d f k raw v e t :
  bo_res (body_pull c p sd now d f) = RKV k raw v e t ->
  exists r0, In r0 (rows d) /\ in_range p r0 = true /\ rkey r0 = k /\ bo_ok (body_pull c p sd now d f) = true /\
    rows (bo_db (body_pull c p sd now d f)) = filter (fun r => negb (rowid r =? rowid r0)) (rows d).
Proof.
  unfold body_pull. destruct (pull_select sd p (rows d)) as [|r0 rs] eqn:S; [discriminate|].
  rewrite QueueBridge.bridge_pull_select in S. destruct (selected_in_range p sd (rows d) r0 rs S) as [I0 Rg].
  cbv zeta. destruct (pull_expired _ _); [discriminate|].
  cbn [ok_out bo_res bo_ok bo_db]. unfold kv_result. intros E. exists r0.
  split; [exact I0|]. split; [exact Rg|]. split.
  - destruct (fetch_row _ _ _ _); try discriminate; inversion E; reflexivity.
  - split; [reflexivity|]. rewrite rows_t_delete. apply filter_ext. intros r.
    rewrite SqlBridge.bridge_pull_delete. reflexivity.
Qed.

(* Exactly-once at the level of the machine, every schedule: when a pull is about to COMMIT with an item as
   its result, that item's row is in the CURRENT committed state (nobody removed it since the pull's SELECT:
   writers are serial), it lies in the range of the pull's prefix, the transaction commits, and the commit
   removes exactly the rows with that rowid -- by Winv exactly that one row -- so no later transaction of any
   client can select (and deliver) it again. *)
Theorem pull_commit_removes_delivered c (cf : config st result) i retry p sd now f o k raw v e t :
  Inv refs Winv cf ->
  c_pc (cl cf i) = AtCommit (w_pull retry c p sd now) f o -> bo_res o = RKV k raw v e t ->
  exists r0 cf',
    In r0 (rows (db cf)) /\ in_range p r0 = true /\ rkey r0 = k /\
    cstep cf i = Some cf' /\
    rows (db cf') = filter (fun r => negb (rowid r =? rowid r0)) (rows (db cf)) /\
    ~ In r0 (rows (db cf')) /\
    (forall r, In r (rows (db cf)) -> r <> r0 -> In r (rows (db cf'))) /\
    commits cf' = commits cf ++ [(i, db cf')] /\ lock cf' = None.
Proof.
  intros H E Rs.
  assert (T : in_txn (c_pc (cl cf i)) = true) by (rewrite E; reflexivity).
  destruct (@txn_holder _ _ refs Winv cf i H T) as [wk L].
  destruct (@i_lock_some _ _ refs Winv cf H i wk L) as [_ [_ Hm]].
  rewrite E in Hm. destruct Hm as [_ Ho]. cbn [w_body w_pull] in Ho. subst o.
  destruct (body_pull_delivers c p sd now (db cf) f k raw v e t Rs) as [r0 [I0 [Rg [Kk [Ok Rw]]]]].
  eexists r0, _. split; [exact I0|]. split; [exact Rg|]. split; [exact Kk|].
  split; [unfold cstep; rewrite E, Ok; reflexivity|].
  cbn [db commits lock]. split; [exact Rw|]. split; [|split; [|split; reflexivity]].
  - rewrite Rw. intros I. apply filter_In in I as [_ N]. rewrite Z.eqb_refl in N. discriminate N.
  - intros r I N. rewrite Rw. apply filter_In. split; [exact I|]. apply negb_true_iff, Z.eqb_neq. intros Q. apply N.
    pose proof (@i_dinv _ _ refs Winv cf H) as W. apply (rowid_unique (db cf) r r0 (w_rowids _ W) I I0 Q).
Qed.

(* both together, for the programs compiled from queue calls *)
Theorem queue_schedules c (progs : nat -> list qcall) sched :
  let cf := exec (init_config init_st (fun i => map (qcompile c) (progs i))) sched in
  Inv refs Winv cf /\ Winv (db cf) /\ (forall g, In g (refs (db cf)) -> files cf g = FDone) /\
  forall i retry p sd now f o k raw v e t,
    c_pc (cl cf i) = AtCommit (w_pull retry c p sd now) f o -> bo_res o = RKV k raw v e t ->
    exists r0 cf',
      In r0 (rows (db cf)) /\ in_range p r0 = true /\ rkey r0 = k /\
      cstep cf i = Some cf' /\
      rows (db cf') = filter (fun r => negb (rowid r =? rowid r0)) (rows (db cf)) /\
      ~ In r0 (rows (db cf')) /\
      (forall r, In r (rows (db cf)) -> r <> r0 -> In r (rows (db cf'))) /\
      commits cf' = commits cf ++ [(i, db cf')] /\ lock cf' = None.
Proof.
  cbv zeta. pose proof (queue_inv c progs sched) as H.
  split; [exact H|]. split; [apply (@i_dinv _ _ _ _ _ H)|]. split; [apply (@i_ref _ _ _ _ _ H)|].
  intros i retry p sd now f o k raw v e t E Rs. eapply pull_commit_removes_delivered; eauto.
Qed.

(* ================================================================== a queue call run alone = Cache.step *)
Definition qcall_run (c : cfg) (x : qcall) (s : st) : st * result :=
  match qcompile c x with
  | OWrite w => run_seq w s
  | ORead r => (s, run_rop r s)
  end.
Definition qcall_step (c : cfg) (x : qcall) (s : st) : st * result :=
  match x with
  | QPush _ v rd p sd e tag now pg => step c s (OPush v rd p sd e tag) now [pg]
  | QPull _ p sd now => step c s (OPull p sd) now []
  | QPeek _ p sd now => step c s (OPeek p sd) now []
  | QCall y => call_step c y s
  end.
Definition qcall_side (c : cfg) (x : qcall) (s : st) : Prop :=
  match x with
  | QPush _ _ _ p sd _ _ _ _ => push_fresh s p sd = true
  | QPull _ p sd now => pull_side c s p sd now
  | QPeek _ p sd now => peek_side s p sd now
  | QCall y => call_side c y s
  end.

Theorem qcall_run_is_step c x s : Winv s -> qcall_side c x s -> qcall_run c x s = qcall_step c x s.
Proof.
  intros W Sd. destruct x; unfold qcall_run; cbn [qcompile qcall_step step hd_vol qcall_side] in *.
  - apply seq_push; [apply sinv_fs_fresh, W|exact Sd].
  - apply seq_pull, Sd.
  - apply seq_peek, Sd.
  - apply (call_run_is_step c x s W Sd).
Qed.

(* the side conditions are satisfiable: the empty cache meets all of them *)
Example qcall_side_init c v rd p sd e tag now pg retry :
  qcall_side c (QPush retry v rd p sd e tag now pg) init_st /\ qcall_side c (QPull retry p sd now) init_st /\
  qcall_side c (QPeek retry p sd now) init_st.
Proof. split; [reflexivity|]. split; destruct sd; exact I. Qed.

Print Assumptions seq_push.
Print Assumptions seq_pull.
Print Assumptions seq_peek.
Print Assumptions qcompile_ok.
Print Assumptions queue_inv.
Print Assumptions pull_commit_removes_delivered.
Print Assumptions queue_schedules.
Print Assumptions qcall_run_is_step.
