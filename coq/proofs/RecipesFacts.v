(* Facts about the contender machine of model/Recipes.v instantiated with Lock, RLock and
   BoundedSemaphore (C15).  Bridge lemmas first: they are the only places that look inside the
   generated definitions of gen/Gen_Recipes.v.  All invariants are proved by induction over an
   ARBITRARY schedule (list of client ids) for an ARBITRARY list of clients. *)
From DC Require Import DCPrelude RecipesBase Gen_Recipes Recipes.

(* ------------------------------------------------------------------------------------------ *)
(* bridge lemmas                                                                                *)

Lemma bridge_retry_flags :
  lock_acquire_retry = true /\ lock_release_retry = true /\ rlock_acquire_retry = true /\
  rlock_release_retry = true /\ sem_acquire_retry = true /\ sem_release_retry = true.
Proof. repeat split; reflexivity. Qed.

Lemma bridge_lock_acq me s :
  lock_acq me s = match s with None => Some (Some tt) | Some _ => None end.
Proof. destruct s; reflexivity. Qed.

Lemma bridge_lock_rel me s : lock_rel me s = Some None.
Proof. reflexivity. Qed.

Lemma bridge_lock_probe s : lock_probe s = is_some s.
Proof. reflexivity. Qed.

Lemma bridge_rlock_defaults : rlock_acquire_default = (None, 0) /\ rlock_release_default = (None, 0).
Proof. split; reflexivity. Qed.

Lemma bridge_rlock_acq me s :
  rlock_acq me s =
  if optZ_eqb (Some me) (rlock_owner s) || (rlock_count s =? 0)
  then Some (Some (Some me, rlock_count s + 1)) else None.
Proof.
  unfold rlock_acq, rlock_owner, rlock_count.
  destruct (k_get rlock_acquire_default s) as [o n]. reflexivity.
Qed.

Lemma bridge_rlock_rel me s :
  rlock_rel me s =
  if optZ_eqb (Some me) (rlock_owner s) && (rlock_count s >? 0)
  then Some (Some (rlock_owner s, rlock_count s - 1)) else None.
Proof.
  unfold rlock_rel, rlock_owner, rlock_count.
  replace rlock_release_default with rlock_acquire_default by reflexivity.
  destruct (k_get rlock_acquire_default s) as [o n]. reflexivity.
Qed.

Lemma bridge_sem_acq v0 me s :
  sem_acq v0 me s = if sem_permits v0 s >? 0 then Some (Some (sem_permits v0 s - 1)) else None.
Proof. reflexivity. Qed.

Lemma bridge_sem_rel v0 me s :
  sem_rel v0 me s = if v0 >? sem_permits v0 s then Some (Some (sem_permits v0 s + 1)) else None.
Proof. reflexivity. Qed.

Lemma bridge_sem_permits v0 s : sem_permits v0 s = match s with Some p => p | None => v0 end.
Proof. destruct s; reflexivity. Qed.

Lemma bridge_barrier_call : barrier_call = [OAcq; OWork; ORel].
Proof. reflexivity. Qed.

(* ------------------------------------------------------------------------------------------ *)
(* lists of clients                                                                             *)

Lemma nth_error_upd_same {A} (l : list A) : forall c x y,
  nth_error l c = Some y -> nth_error (upd c x l) c = Some x.
Proof.
  induction l as [|a l IH]; intros [|c] x y H; cbn in *; try discriminate; auto.
  eapply IH; eauto.
Qed.

Lemma nth_error_upd_other {A} (l : list A) : forall c c' x,
  c <> c' -> nth_error (upd c x l) c' = nth_error l c'.
Proof.
  induction l as [|a l IH]; intros [|c] [|c'] x H; cbn; auto; try congruence.
Qed.

Lemma Forall_upd {A} (P : A -> Prop) (l : list A) : forall c x,
  Forall P l -> P x -> Forall P (upd c x l).
Proof.
  induction l as [|a l IH]; intros [|c] x F Px; cbn; auto; inversion F; subst; constructor; auto.
Qed.

Lemma Forall_nth_error {A} (P : A -> Prop) (l : list A) c x :
  Forall P l -> nth_error l c = Some x -> P x.
Proof. intros F H. rewrite Forall_forall in F. apply F. eapply nth_error_In; eauto. Qed.

Lemma sum_held_upd (l : list client) : forall c cl cl',
  nth_error l c = Some cl -> sum_held (upd c cl' l) = sum_held l - held cl + held cl'.
Proof.
  unfold sum_held.
  induction l as [|a l IH]; intros [|c] cl cl' H; cbn in *; try discriminate.
  - inversion H; subst. lia.
  - rewrite (IH c cl cl' H). lia.
Qed.

Definition nonneg (l : list client) : Prop := Forall (fun cl => 0 <= held cl) l.

Lemma sum_held_nonneg l : nonneg l -> 0 <= sum_held l.
Proof.
  unfold nonneg, sum_held. induction 1 as [|a l Ha F IH]; cbn; lia.
Qed.

Lemma held_le_sum l : forall c cl, nonneg l -> nth_error l c = Some cl -> held cl <= sum_held l.
Proof.
  unfold nonneg, sum_held.
  induction l as [|a l IH]; intros [|c] cl F H; cbn in *; try discriminate; inversion F; subst.
  - inversion H; subst. pose proof (sum_held_nonneg l H3) as N. unfold sum_held in N. lia.
  - specialize (IH c cl H3 H). lia.
Qed.

Lemma holders_le_sum l : nonneg l -> holders l <= sum_held l.
Proof.
  unfold nonneg, holders, sum_held, in_cs.
  induction 1 as [|a l Ha F IH]; cbn; [lia|].
  destruct (0 <? held a) eqn:E; cbn [length]; lia.
Qed.

Lemma holders_eq_sum l : nonneg l -> sum_held l <= 1 -> holders l = sum_held l.
Proof.
  unfold nonneg, holders, sum_held, in_cs.
  induction 1 as [|a l Ha F IH]; cbn; intros S1; [reflexivity|].
  pose proof (sum_held_nonneg l F) as N. unfold sum_held in N.
  destruct (0 <? held a) eqn:E; cbn [length]; lia.
Qed.

Lemma filter_length_le {A} (f g : A -> bool) (l : list A) :
  (forall x, In x l -> f x = true -> g x = true) -> (length (filter f l) <= length (filter g l))%nat.
Proof.
  induction l as [|a l IH]; cbn; intros H; [lia|].
  assert (IH' := IH (fun x I => H x (or_intror I))).
  destruct (f a) eqn:Ef.
  - rewrite (H a (or_introl eq_refl) Ef). cbn. lia.
  - destruct (g a); cbn; lia.
Qed.

(* ------------------------------------------------------------------------------------------ *)
(* program discipline: what the invariants need from `balanced` / `bracketed`                  *)

Definition discipline (d : Z -> list op -> bool) : Prop :=
  (forall h r, d h (OAcq :: r) = true -> d (h + 1) r = true) /\
  (forall h r, d h (ORel :: r) = true -> 0 < h /\ d (h - 1) r = true) /\
  (forall h r, d h (OWork :: r) = true -> d h r = true) /\
  (forall h r, d h (OProbe :: r) = true -> d h r = true).

Lemma balanced_discipline : discipline balanced.
Proof.
  unfold discipline. split; [|split; [|split]]; intros h r H; cbn in H; auto.
  - apply andb_true_iff in H as [H1 H2]. apply Z.ltb_lt in H1. auto.
Qed.

Lemma bracketed_discipline : discipline bracketed.
Proof.
  unfold discipline. split; [|split; [|split]]; intros h r H; cbn in H; auto.
  - apply andb_true_iff in H as [H1 H2]. apply Z.ltb_lt in H1. auto.
  - apply andb_true_iff in H as [H1 H2]. auto.
Qed.

Lemma bracketed_work h r : bracketed h (OWork :: r) = true -> 0 < h.
Proof. cbn. intros H. apply andb_true_iff in H as [H _]. apply Z.ltb_lt in H. exact H. Qed.

Definition disciplined (d : Z -> list op -> bool) (l : list client) : Prop :=
  Forall (fun cl => 0 <= held cl /\ d (held cl) (prog cl) = true) l.

Lemma disciplined_nonneg d l : disciplined d l -> nonneg l.
Proof. unfold disciplined, nonneg. apply Forall_impl. tauto. Qed.

Lemma disciplined_init d progs :
  Forall (fun p => d 0 p = true) progs ->
  disciplined d (map (fun p => {| prog := p; held := 0 |}) progs).
Proof.
  unfold disciplined. induction 1; cbn; constructor; auto. cbn. split; [lia|auto].
Qed.

(* run = iterate step: invariants go through by induction on the schedule *)
Lemma run_invariant {St} acq rel probe (I : config St -> Prop) :
  (forall cfg c, I cfg -> I (step St acq rel probe cfg c)) ->
  forall sched cfg, I cfg -> I (run St acq rel probe sched cfg).
Proof.
  intros Hs sched. unfold run. induction sched as [|c r IH]; cbn; intros cfg H; auto.
Qed.

(* working clients are holders when programs are bracketed *)
Lemma working_le_holders l : disciplined bracketed l -> working l <= holders l.
Proof.
  intros D. unfold working, holders. apply inj_le, filter_length_le.
  intros cl I W. unfold disciplined in D. rewrite Forall_forall in D. destruct (D cl I) as [_ B].
  unfold in_work in W. destruct (prog cl) as [|[] r]; try discriminate.
  unfold in_cs. apply Z.ltb_lt. eapply bracketed_work; eauto.
Qed.

(* ------------------------------------------------------------------------------------------ *)
(* Lock                                                                                         *)

Section LockInv.
  Variable d : Z -> list op -> bool.
  Hypothesis D : discipline d.

  Definition lock_inv (cfg : config lock_state) : Prop :=
    sum_held (clients cfg) = (if is_some (shared cfg) then 1 else 0) /\ disciplined d (clients cfg).

  Lemma lock_step_inv cfg c : lock_inv cfg -> lock_inv (step _ lock_acq lock_rel lock_probe cfg c).
  Proof.
    destruct D as (DA & DR & DW & DP).
    unfold lock_inv. intros [Hs Hd]. unfold step.
    destruct (nth_error (clients cfg) c) as [cl|] eqn:En; [|split; assumption].
    destruct (prog cl) as [|o rest] eqn:Ep; [split; assumption|].
    pose proof (Forall_nth_error _ _ _ _ Hd En) as [Hn Hb]. cbn beta in Hn, Hb. rewrite Ep in Hb.
    destruct o.
    - rewrite bridge_lock_acq. destruct (shared cfg) as [u|] eqn:Es; cbn [shared clients].
      + split; [exact Hs | exact Hd].
      + split; cbn [shared clients].
        * rewrite (sum_held_upd _ _ _ _ En). cbn in *. lia.
        * apply Forall_upd; [assumption|cbn; split; [lia|apply DA; assumption]].
    - rewrite bridge_lock_rel. cbn [shared clients]. destruct (DR _ _ Hb) as [Hpos Hb'].
      pose proof (held_le_sum _ _ _ (disciplined_nonneg _ _ Hd) En) as Hle.
      split.
      + rewrite (sum_held_upd _ _ _ _ En). cbn [held is_some].
        destruct (shared cfg); cbn in Hs; lia.
      + apply Forall_upd; [assumption|cbn; split; [lia|assumption]].
    - cbn [shared clients]. split.
      + rewrite (sum_held_upd _ _ _ _ En). cbn [held]. lia.
      + apply Forall_upd; [assumption|cbn; split; [lia|eauto]].
    - cbn [shared clients]. split.
      + rewrite (sum_held_upd _ _ _ _ En). cbn [held]. lia.
      + apply Forall_upd; [assumption|cbn; split; [lia|eauto]].
  Qed.

  Lemma lock_run_inv sched cfg :
    lock_inv cfg -> lock_inv (run _ lock_acq lock_rel lock_probe sched cfg).
  Proof. apply run_invariant. apply lock_step_inv. Qed.

  Lemma lock_init_inv progs :
    Forall (fun p => d 0 p = true) progs -> lock_inv (init _ None progs).
  Proof.
    intros F. split; [|apply disciplined_init; auto]. cbn.
    unfold sum_held. rewrite map_map. cbn. clear F. induction progs; cbn; lia.
  Qed.
End LockInv.

(* Mutual exclusion: for every number of clients, all programs that release only what they hold,
   and every schedule. *)
Theorem lock_mutex progs sched :
  Forall (fun p => balanced 0 p = true) progs ->
  let cfg := run _ lock_acq lock_rel lock_probe sched (init _ None progs) in
  holders (clients cfg) <= 1 /\ (holders (clients cfg) = 1 <-> shared cfg = Some tt).
Proof.
  intros F cfg.
  destruct (lock_run_inv balanced balanced_discipline sched _ (lock_init_inv balanced progs F)) as [Hs Hd].
  fold cfg in Hs, Hd. pose proof (disciplined_nonneg _ _ Hd) as N.
  assert (L : sum_held (clients cfg) <= 1) by (destruct (shared cfg); cbn in Hs; lia).
  rewrite (holders_eq_sum _ N L), Hs.
  destruct (shared cfg) as [[]|]; cbn; split; try lia; split; intros; try reflexivity; try discriminate; lia.
Qed.

(* The hypothesis is needed: Lock.release deletes the key whoever holds it. *)
Example lock_foreign_release_breaks_exclusion :
  let cfg := run _ lock_acq lock_rel lock_probe [0; 1; 1]%nat (init _ None [[OAcq; OWork; ORel]; [ORel; OAcq; OWork; ORel]]) in
  working (clients cfg) = 2.
Proof. vm_compute. reflexivity. Qed.

Example lock_mutex_nonvacuous :
  Forall (fun p => balanced 0 p = true) [[OAcq; OWork; ORel; OAcq; ORel]; [OProbe; OAcq; OWork; ORel]; barrier_calls 2] /\
  let cfg := run _ lock_acq lock_rel lock_probe [0; 1; 2; 1; 0; 0; 1; 2; 2]%nat
                 (init _ None [[OAcq; OWork; ORel; OAcq; ORel]; [OProbe; OAcq; OWork; ORel]; barrier_calls 2]) in
  holders (clients cfg) = 1 /\ shared cfg = Some tt.
Proof. split; [repeat constructor|vm_compute; auto]. Qed.

(* progress: a free lock is taken by the next attempt of any contender; a release frees it *)
Lemma lock_progress (cfg : config lock_state) c cl rest :
  nth_error (clients cfg) c = Some cl -> prog cl = OAcq :: rest -> shared cfg = None ->
  let cfg' := step _ lock_acq lock_rel lock_probe cfg c in
  hd_error (trace cfg') = Some (c, EAcqOk) /\
  nth_error (clients cfg') c = Some {| prog := rest; held := held cl + 1 |}.
Proof.
  intros En Ep Es. unfold step. rewrite En, Ep, bridge_lock_acq, Es. cbn. split; auto.
  eapply nth_error_upd_same; eauto.
Qed.

Lemma lock_release_frees (cfg : config lock_state) c cl rest :
  nth_error (clients cfg) c = Some cl -> prog cl = ORel :: rest ->
  shared (step _ lock_acq lock_rel lock_probe cfg c) = None.
Proof. intros En Ep. unfold step. rewrite En, Ep, bridge_lock_rel. reflexivity. Qed.

(* barrier over Lock: at most one client is inside the wrapped function, and it holds the lock *)
Lemma barrier_calls_bracketed n : bracketed 0 (barrier_calls n) = true.
Proof.
  induction n as [|n IH]; [reflexivity|]. cbn [barrier_calls]. rewrite bridge_barrier_call. cbn. exact IH.
Qed.

Theorem lock_barrier ns sched :
  let cfg := run _ lock_acq lock_rel lock_probe sched (init _ None (map barrier_calls ns)) in
  working (clients cfg) <= 1 /\
  (forall c cl, nth_error (clients cfg) c = Some cl -> in_work cl = true -> 0 < held cl /\ shared cfg = Some tt).
Proof.
  intros cfg.
  assert (F : Forall (fun p => bracketed 0 p = true) (map barrier_calls ns)).
  { apply Forall_forall. intros p I. apply in_map_iff in I as [n [<- _]]. apply barrier_calls_bracketed. }
  destruct (lock_run_inv bracketed bracketed_discipline sched _ (lock_init_inv bracketed _ F)) as [Hs Hd].
  fold cfg in Hs, Hd. pose proof (disciplined_nonneg _ _ Hd) as N.
  assert (L : sum_held (clients cfg) <= 1) by (destruct (shared cfg); cbn in Hs; lia).
  split.
  - pose proof (working_le_holders _ Hd). rewrite (holders_eq_sum _ N L) in H. lia.
  - intros c cl En W. pose proof (Forall_nth_error _ _ _ _ Hd En) as [_ B]. cbn beta in B.
    unfold in_work in W. destruct (prog cl) as [|[] r]; try discriminate.
    apply bracketed_work in B. split; auto.
    pose proof (held_le_sum _ _ _ N En). destruct (shared cfg) as [[]|]; cbn in Hs; auto; lia.
Qed.

(* ------------------------------------------------------------------------------------------ *)
(* BoundedSemaphore                                                                             *)

Section SemInv.
  Variable d : Z -> list op -> bool.
  Hypothesis D : discipline d.
  Variable v0 : Z.

  Definition sem_inv (cfg : config sem_state) : Prop :=
    sum_held (clients cfg) + sem_permits v0 (shared cfg) = v0 /\ 0 <= sem_permits v0 (shared cfg) /\
    disciplined d (clients cfg).

  Lemma sem_step_inv cfg c :
    sem_inv cfg -> sem_inv (step _ (sem_acq v0) (sem_rel v0) (sem_probe v0) cfg c).
  Proof.
    destruct D as (DA & DR & DW & DP).
    unfold sem_inv. intros (Hs & Hp & Hd). unfold step.
    destruct (nth_error (clients cfg) c) as [cl|] eqn:En; [|repeat split; assumption].
    destruct (prog cl) as [|o rest] eqn:Ep; [repeat split; assumption|].
    pose proof (Forall_nth_error _ _ _ _ Hd En) as [Hn Hb]. cbn beta in Hn, Hb. rewrite Ep in Hb.
    destruct o.
    - rewrite bridge_sem_acq. destruct (sem_permits v0 (shared cfg) >? 0) eqn:G; cbn [shared clients].
      + apply Z.gtb_lt in G. rewrite (sum_held_upd _ _ _ _ En). cbn [held].
        rewrite bridge_sem_permits. repeat split; try lia.
        apply Forall_upd; [assumption|cbn; split; [lia|apply DA; assumption]].
      + repeat split; assumption.
    - destruct (DR _ _ Hb) as [Hpos Hb'].
      pose proof (held_le_sum _ _ _ (disciplined_nonneg _ _ Hd) En) as Hle.
      rewrite bridge_sem_rel. destruct (v0 >? sem_permits v0 (shared cfg)) eqn:G; cbn [shared clients].
      + rewrite (sum_held_upd _ _ _ _ En). cbn [held]. rewrite (bridge_sem_permits v0 (Some _)).
        repeat split; try lia. apply Forall_upd; [assumption|cbn; split; [lia|assumption]].
      + exfalso. rewrite Z.gtb_ltb in G. apply Z.ltb_ge in G. lia.
    - cbn [shared clients]. rewrite (sum_held_upd _ _ _ _ En). cbn [held].
      repeat split; try lia. apply Forall_upd; [assumption|cbn; split; [lia|eauto]].
    - cbn [shared clients]. rewrite (sum_held_upd _ _ _ _ En). cbn [held].
      repeat split; try lia. apply Forall_upd; [assumption|cbn; split; [lia|eauto]].
  Qed.

  Lemma sem_run_inv sched cfg :
    sem_inv cfg -> sem_inv (run _ (sem_acq v0) (sem_rel v0) (sem_probe v0) sched cfg).
  Proof. apply run_invariant. apply sem_step_inv. Qed.

  Lemma sem_init_inv progs :
    0 <= v0 -> Forall (fun p => d 0 p = true) progs -> sem_inv (init _ None progs).
  Proof.
    intros V F. unfold sem_inv. cbn [init shared clients].
    assert (P : sem_permits v0 None = v0) by (rewrite bridge_sem_permits; reflexivity).
    rewrite P. split; [|split; [lia|apply disciplined_init; auto]].
    unfold sum_held. rewrite map_map. cbn [held]. clear F.
    assert (E : sumZ (map (fun _ : list op => 0) progs) = 0) by (induction progs; cbn; lia). lia.
  Qed.
End SemInv.

Theorem sem_bound v0 progs sched :
  0 <= v0 -> Forall (fun p => balanced 0 p = true) progs ->
  let cfg := run _ (sem_acq v0) (sem_rel v0) (sem_probe v0) sched (init _ None progs) in
  sum_held (clients cfg) + sem_permits v0 (shared cfg) = v0 /\
  0 <= sem_permits v0 (shared cfg) /\
  sum_held (clients cfg) <= v0 /\ holders (clients cfg) <= v0.
Proof.
  intros V F cfg.
  destruct (sem_run_inv balanced balanced_discipline v0 sched _ (sem_init_inv balanced v0 progs V F)) as (Hs & Hp & Hd).
  fold cfg in Hs, Hp, Hd.
  pose proof (holders_le_sum _ (disciplined_nonneg _ _ Hd)). repeat split; lia.
Qed.

Example sem_bound_nonvacuous :
  let progs := [[OAcq; OAcq; OWork; ORel; ORel]; [OAcq; OWork; ORel]; barrier_calls 1] in
  Forall (fun p => balanced 0 p = true) progs /\
  let cfg := run _ (sem_acq 2) (sem_rel 2) (sem_probe 2) [0; 1; 0; 2; 1; 1; 0; 2]%nat (init _ None progs) in
  sum_held (clients cfg) = 2 /\ shared cfg = Some 0.
Proof. split; [repeat constructor|vm_compute; auto]. Qed.

(* release with every permit free is refused (AssertionError), whoever calls it *)
Lemma sem_release_full_refused v0 me s : v0 <= sem_permits v0 s -> sem_rel v0 me s = None.
Proof.
  intros H. rewrite bridge_sem_rel. destruct (v0 >? sem_permits v0 s) eqn:G; auto.
  apply Z.gtb_lt in G. lia.
Qed.

Lemma step_refused_unchanged {St} acq rel probe (cfg : config St) c cl rest :
  nth_error (clients cfg) c = Some cl -> prog cl = ORel :: rest -> rel (Z.of_nat c) (shared cfg) = None ->
  let cfg' := step St acq rel probe cfg c in
  shared cfg' = shared cfg /\ hd_error (trace cfg') = Some (c, ERelRefused) /\
  nth_error (clients cfg') c = Some {| prog := rest; held := held cl |}.
Proof.
  intros En Ep Er. unfold step. rewrite En, Ep, Er. cbn. repeat split.
  eapply nth_error_upd_same; eauto.
Qed.

Lemma step_acquire_ok {St} acq rel probe (cfg : config St) c cl rest s' :
  nth_error (clients cfg) c = Some cl -> prog cl = OAcq :: rest -> acq (Z.of_nat c) (shared cfg) = Some s' ->
  let cfg' := step St acq rel probe cfg c in
  shared cfg' = s' /\ hd_error (trace cfg') = Some (c, EAcqOk) /\
  nth_error (clients cfg') c = Some {| prog := rest; held := held cl + 1 |}.
Proof.
  intros En Ep Ea. unfold step. rewrite En, Ep, Ea. cbn. repeat split.
  eapply nth_error_upd_same; eauto.
Qed.

Lemma sem_progress v0 (cfg : config sem_state) c cl rest :
  nth_error (clients cfg) c = Some cl -> prog cl = OAcq :: rest -> 0 < sem_permits v0 (shared cfg) ->
  let cfg' := step _ (sem_acq v0) (sem_rel v0) (sem_probe v0) cfg c in
  hd_error (trace cfg') = Some (c, EAcqOk) /\
  nth_error (clients cfg') c = Some {| prog := rest; held := held cl + 1 |}.
Proof.
  intros En Ep Hp.
  assert (Ea : sem_acq v0 (Z.of_nat c) (shared cfg) = Some (Some (sem_permits v0 (shared cfg) - 1))).
  { rewrite bridge_sem_acq. destruct (sem_permits v0 (shared cfg) >? 0) eqn:G; auto.
    rewrite Z.gtb_ltb in G. apply Z.ltb_ge in G. lia. }
  destruct (step_acquire_ok _ (sem_rel v0) (sem_probe v0) _ _ _ _ _ En Ep Ea) as (_ & H1 & H2). auto.
Qed.

Lemma sem_release_frees v0 me s s' : 0 <= sem_permits v0 s -> sem_rel v0 me s = Some s' -> 0 < sem_permits v0 s'.
Proof.
  intros Hp. rewrite bridge_sem_rel. destruct (v0 >? sem_permits v0 s); [|discriminate].
  intros E; inversion E; subst. rewrite bridge_sem_permits. lia.
Qed.

Theorem sem_barrier v0 ns sched :
  0 <= v0 ->
  let cfg := run _ (sem_acq v0) (sem_rel v0) (sem_probe v0) sched (init _ None (map barrier_calls ns)) in
  working (clients cfg) <= v0 /\
  (forall c cl, nth_error (clients cfg) c = Some cl -> in_work cl = true -> 0 < held cl).
Proof.
  intros V cfg.
  assert (F : Forall (fun p => bracketed 0 p = true) (map barrier_calls ns)).
  { apply Forall_forall. intros p I. apply in_map_iff in I as [n [<- _]]. apply barrier_calls_bracketed. }
  destruct (sem_run_inv bracketed bracketed_discipline v0 sched _ (sem_init_inv bracketed v0 _ V F)) as (Hs & Hp & Hd).
  fold cfg in Hs, Hp, Hd. split.
  - pose proof (working_le_holders _ Hd). pose proof (holders_le_sum _ (disciplined_nonneg _ _ Hd)). lia.
  - intros c cl En W. pose proof (Forall_nth_error _ _ _ _ Hd En) as [_ B]. cbn beta in B.
    unfold in_work in W. destruct (prog cl) as [|[] r]; try discriminate.
    eapply bracketed_work; eauto.
Qed.
