(* A lock-free lookup that overlaps the replacement of a file-backed value, on the machine of model/Conc.v with the real
   transaction bodies (model/Txn.v): the schedule of the former finding C12-F1 (reader SELECT; writer store, BEGIN,
   UPDATE, COMMIT, remove the old file; reader open), replayed
     - with the reader the code had before the repair (Txn.r_get_old: a file that is gone is a miss): the lookup
       reports the default although the key is present in every committed state;
     - with the reader of the code as it is (Txn.r_get, r_again = Gen_Sql.get_retries_after_missing_file): the lookup
       looks the row up again and returns the NEW value; under every placement of the writer among the reader's steps
       it returns the old or the new value.
   The statements for every schedule are ConcTheorems.lookup_looks_again / lookup_answer_justified (generic machine) and
   IndexConcFacts.continuous_presence (reader/writers machine). *)
From DC Require Import DCPrelude Val DiskBase SqlBase Gen_Disk Disk Gen_Sql Cache CacheRun Refs Conc Txn TxnBlock TxnBlockFacts.

Definition wbig2 : pyval := VStr (repeat 121 20%nat).
Definition set_k (v : pyval) : Conc.op st result := OWrite (w_set true wcfg wkey v false None SNull wnow 0).

(* client 2 has stored k := wbig and returned; client 0 is about to look k up, client 1 to replace its value *)
Definition lookup_vs_replace (reader : crop) : config st result :=
  exec (init_config init_st (fun i => match i with
                                      | 0%nat => [ORead reader]
                                      | 1%nat => [set_k wbig2]
                                      | 2%nat => [set_k wbig]
                                      | _ => []
                                      end)) (repeat (Step 2) 12).

(* n steps of the reader, then the whole writer, then the reader to its end *)
Definition writer_after (n : nat) : list ev := repeat (Step 0) n ++ repeat (Step 1) 12 ++ repeat (Step 0) 6.
Definition lookup_outcome (reader : crop) (n : nat) : list (outcome result) * bool :=
  let c := exec (lookup_vs_replace reader) (writer_after n) in
  (c_done (cl c 0), match c_pc (cl c 0), c_todo (cl c 0), c_todo (cl c 1), lock c with Idle, [], [], None => true | _, _, _, _ => false end).

Definition found (v : pyval) : outcome result := ORes (RVal (FVal v) None SNull).

Lemma setup_done : map rfile (rows (db (lookup_vs_replace (r_get wcfg wkey false wnow)))) = [Some 0] /\
                   c_todo (cl (lookup_vs_replace (r_get wcfg wkey false wnow)) 2) = [].
Proof. vm_compute. split; reflexivity. Qed.

(* the old reader under the schedule of the finding: SELECT, then the writer, then the open *)
Lemma old_reader_misses_present_key : lookup_outcome (r_get_old wcfg wkey false wnow) 1 = ([ORes RDefault], true).
Proof. vm_compute. reflexivity. Qed.

(* the reader of the code as it is, same schedule *)
Lemma repaired_reader_finds_new_value : lookup_outcome (r_get wcfg wkey false wnow) 1 = ([found wbig2], true).
Proof. vm_compute. reflexivity. Qed.

Definition outcome_in (o : list (outcome result) * bool) (vs : list pyval) : bool :=
  match o with
  | ([ORes r], true) => existsb (fun v => result_eqb r (RVal (FVal v) None SNull)) vs
  | _ => false
  end.

(* every placement of the writer: the old or the new value, never a miss *)
Lemma repaired_reader_every_placement :
  forallb (fun n => outcome_in (lookup_outcome (r_get wcfg wkey false wnow) n) [wbig; wbig2]) (seq 0 6) = true.
Proof. vm_compute. reflexivity. Qed.

Lemma old_reader_other_placements :
  forallb (fun n => outcome_in (lookup_outcome (r_get_old wcfg wkey false wnow) n) [wbig; wbig2]) [0; 2; 3; 4; 5]%nat = true.
Proof. vm_compute. reflexivity. Qed.

Theorem lookup_overlapping_replace_on_the_machine :
  lookup_outcome (r_get_old wcfg wkey false wnow) 1 = ([ORes RDefault], true) /\
  lookup_outcome (r_get wcfg wkey false wnow) 1 = ([found wbig2], true) /\
  forallb (fun n => outcome_in (lookup_outcome (r_get wcfg wkey false wnow) n) [wbig; wbig2]) (seq 0 6) = true.
Proof. exact (conj old_reader_misses_present_key (conj repaired_reader_finds_new_value repaired_reader_every_placement)). Qed.

Print Assumptions lookup_overlapping_replace_on_the_machine.
