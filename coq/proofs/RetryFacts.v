(* Facts about the statement-level retry loop (model/Retry.v over gen/Gen_Retry.v). *)
From DC Require Import DCPrelude Gen_Retry Retry.

(* bridge lemmas: what the proofs need from the generated definitions *)
Lemma bridge_gives_up : forall d, retry_gives_up d = true <-> d > retry_limit_us.
Proof. intro d. unfold retry_gives_up. rewrite Z.gtb_lt. lia. Qed.

Lemma bridge_sleep_pos : 0 < retry_sleep_us.
Proof. reflexivity. Qed.

Lemma bridge_limit_nonneg : 0 <= retry_limit_us.
Proof. discriminate. Qed.

Section Oracles.
Variable out : nat -> attempt.
Variable clk : nat -> Z.
Variable start : Z.

Definition waited (i : nat) : Prop :=
  forall j, (j < i)%nat -> is_locked (out j) = true /\ clk j - start <= retry_limit_us.

Lemma waited_S : forall i, waited i -> is_locked (out i) = true -> clk i - start <= retry_limit_us -> waited (S i).
Proof.
  intros i W L T j Hj. destruct (Nat.eq_dec j i) as [->|N]; [split; assumption|]. apply W. lia.
Qed.

Lemma locked_not_ok : forall a, is_locked a = true -> a <> AOk.
Proof. intros a H E. subst a. discriminate H. Qed.

(* what each result means, from any loop position reached after only waiting *)
Lemma retry_from_sound : forall fuel i, waited i ->
  match retry_from out clk start fuel i with
  | Returned k => (i <= k)%nat /\ out k = AOk /\ waited k
  | Reraised k => (i <= k)%nat /\ out k <> AOk /\ is_locked (out k) = false /\ waited k
  | GaveUp k => (i <= k)%nat /\ is_locked (out k) = true /\ clk k - start > retry_limit_us /\ waited k
  | OutOfFuel => waited (i + fuel)
  end.
Proof.
  induction fuel as [|fuel IH]; intros i W; cbn [retry_from].
  - rewrite Nat.add_0_r. exact W.
  - destruct (out i) eqn:O.
    + repeat split; [lia|exact O|apply W|apply W]; assumption.
    + rewrite <- O. destruct (is_locked (out i)) eqn:L.
      * destruct (retry_gives_up (clk i - start)) eqn:G.
        -- apply bridge_gives_up in G. split; [lia|]. split; [exact L|]. split; [exact G|exact W].
        -- assert (T : clk i - start <= retry_limit_us).
           { destruct (Z_le_gt_dec (clk i - start) retry_limit_us) as [H|H]; [exact H|].
             apply bridge_gives_up in H. congruence. }
           specialize (IH (S i) (waited_S i W L T)).
           destruct (retry_from out clk start fuel (S i)); try (destruct IH as [H1 H2]; split; [lia|exact H2]).
           replace (i + S fuel)%nat with (S i + fuel)%nat by lia. exact IH.
      * split; [lia|]. split; [rewrite O; discriminate|]. split; [exact L|exact W].
    + rewrite <- O. destruct (is_locked (out i)) eqn:L.
      * rewrite O in L. discriminate L.
      * split; [lia|]. split; [rewrite O; discriminate|]. split; [exact L|exact W].
Qed.

Lemma waited_0 : waited 0.
Proof. intros j Hj. lia. Qed.

Theorem sql_retry_sound : forall fuel,
  match sql_retry out clk start fuel with
  | Returned k => out k = AOk /\ waited k
  | Reraised k => out k <> AOk /\ is_locked (out k) = false /\ waited k
  | GaveUp k => is_locked (out k) = true /\ clk k - start > retry_limit_us /\ waited k
  | OutOfFuel => waited fuel
  end.
Proof.
  intro fuel. unfold sql_retry. pose proof (retry_from_sound fuel 0 waited_0) as H.
  destruct (retry_from out clk start fuel 0); try (destruct H as [_ H]; exact H). exact H.
Qed.

(* the clock: the first reading is not before `start`, and each pause lasts at least retry_sleep_us *)
Hypothesis clk_start : start <= clk 0.
Hypothesis clk_sleep : forall i, clk i + retry_sleep_us <= clk (S i).

Lemma clk_lower : forall i, start + Z.of_nat i * retry_sleep_us <= clk i.
Proof.
  induction i as [|i IH]; [simpl; lia|]. specialize (clk_sleep i). rewrite Nat2Z.inj_succ. lia.
Qed.

(* bounded wait: the loop ends within retry_attempt_bound attempts, whatever the statement does *)
Theorem sql_retry_terminates : forall fuel, retry_attempt_bound <= Z.of_nat fuel ->
  sql_retry out clk start fuel <> OutOfFuel.
Proof.
  intros fuel B E. pose proof (sql_retry_sound fuel) as H. rewrite E in H.
  unfold retry_attempt_bound in B. pose proof bridge_sleep_pos as SP. pose proof bridge_limit_nonneg as LN.
  set (q := retry_limit_us / retry_sleep_us) in *.
  assert (Q : 0 <= q) by (apply Z.div_pos; assumption).
  assert (J : (Z.to_nat (q + 1) < fuel)%nat) by lia.
  destruct (H _ J) as [_ T]. pose proof (clk_lower (Z.to_nat (q + 1))) as C.
  rewrite Z2Nat.id in C by lia.
  assert (M : retry_limit_us < (q + 1) * retry_sleep_us).
  { pose proof (Z.mul_succ_div_gt retry_limit_us retry_sleep_us SP) as G. fold q in G. unfold Z.succ in G. lia. }
  lia.
Qed.

End Oracles.

(* non-vacuity: a clock meeting the hypotheses under which the lock never frees: the call gives up, at the attempt
   whose reading is the first beyond the limit *)
Example retry_gives_up_example :
  sql_retry (fun _ => AOpErr retry_locked_msg) (fun i => Z.of_nat i * 30000000) 0 5 = GaveUp 3.
Proof. vm_compute. reflexivity. Qed.

Example retry_returns_example :
  sql_retry (script_out [AOpErr retry_locked_msg; AOpErr retry_locked_msg; AOk]) (script_clk [10; 2000]) 0 5 = Returned 2.
Proof. vm_compute. reflexivity. Qed.

Example retry_other_error_example :
  sql_retry (script_out [AOpErr retry_locked_msg; AOpErr [110; 111]]) (script_clk [10; 2000]) 0 5 = Reraised 1.
Proof. vm_compute. reflexivity. Qed.
