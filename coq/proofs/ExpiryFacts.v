(* C04 at the row level: lookups serve only live items, live items are found, the lazy cull and expire()
   select only passed items.  For every state, key, clock value. *)
From DC Require Import DCPrelude DCPreludeFacts Val DiskBase SqlBase Gen_Disk Disk Gen_Sql Cache SqlBridge.

Lemma filter_cons_in {A} (f : A -> bool) l x rest : filter f l = x :: rest -> In x l /\ f x = true.
Proof. intros E. assert (I : In x (filter f l)) by (rewrite E; left; reflexivity). apply filter_In in I. exact I. Qed.

Lemma filter_nil_none {A} (f : A -> bool) l x : filter f l = [] -> In x l -> f x = false.
Proof.
  intros E I. destruct (f x) eqn:F; auto.
  assert (I' : In x (filter f l)) by (apply filter_In; auto). rewrite E in I'. destruct I'.
Qed.

(* what `served c s k now r` means: r is a row of s addressed by k and live at now *)
Definition served (c : cfg) (s : st) (k : pyval) (now : Z) (r : row) : Prop :=
  In r (rows s) /\ live_at now r = true /\
  exists dbk raw, put (c_codec c) k = PutOk dbk raw /\ key_match dbk (b2z raw) r = true.

Theorem get_hit_live c s k rd now s' v e t :
  op_get c s k rd now = (s', RVal v e t) ->
  exists r, served c s k now r /\ e = expire_time r /\ t = rtag r.
Proof.
  unfold op_get. destruct (put (c_codec c) k) as [dbk raw|] eqn:P; [|discriminate].
  rewrite bridge_get_select.
  destruct (filter _ (rows s)) as [|r0 rs] eqn:F.
  - destruct (get_fast_path _ _); discriminate.
  - apply filter_cons_in in F as [I M]. apply andb_true_iff in M as [M L].
    assert (S : served c s k now r0) by (repeat split; eauto).
    destruct (get_fast_path _ _); destruct (fetch_row c s r0 rd); intros E; inversion E; subst; eauto.
Qed.

Theorem contains_true_live c s k now s' :
  op_contains c s k now = (s', RBool true) -> exists r, served c s k now r.
Proof.
  unfold op_contains. destruct (put (c_codec c) k) as [dbk raw|] eqn:P; [|discriminate].
  rewrite bridge_contains_select. destruct (filter _ (rows s)) as [|r0 rs] eqn:F; [discriminate|].
  apply filter_cons_in in F as [I M]. apply andb_true_iff in M as [M L].
  intros _. exists r0. repeat split; eauto.
Qed.

Theorem pop_hit_live c s k now s' v e t :
  op_pop c s k now = (s', RVal v e t) -> exists r, served c s k now r /\ e = expire_time r.
Proof.
  unfold op_pop. destruct (put (c_codec c) k) as [dbk raw|] eqn:P; [|discriminate].
  rewrite bridge_pop_select. destruct (filter _ (rows s)) as [|r0 rs] eqn:F; [discriminate|].
  apply filter_cons_in in F as [I M]. apply andb_true_iff in M as [M L]. cbv zeta.
  destruct (fetch_row _ _ r0 false); intros E; inversion E; subst; exists r0; repeat split; eauto.
Qed.

Theorem delete_true_live c s k di now s' :
  op_delete c s k di now = (s', RBool true) -> exists r, served c s k now r.
Proof.
  unfold op_delete. destruct (put (c_codec c) k) as [dbk raw|] eqn:P; [|discriminate].
  rewrite bridge_del_select. destruct (filter _ (rows s)) as [|r0 rs] eqn:F; [destruct di; discriminate|].
  apply filter_cons_in in F as [I M]. apply andb_true_iff in M as [M L].
  intros _. exists r0. repeat split; eauto.
Qed.

(* touch brings nothing back to life: it succeeds only on a live item *)
Theorem touch_true_live c s k e now s' :
  op_touch c s k e now = (s', RBool true) -> exists r, served c s k now r.
Proof.
  unfold op_touch. destruct (put (c_codec c) k) as [dbk raw|] eqn:P; [|discriminate].
  rewrite bridge_touch_select. destruct (filter _ (rows s)) as [|r0 rs] eqn:F; [discriminate|].
  apply filter_cons_in in F as [I M]. rewrite bridge_touch_live.
  destruct (live_opt now (expire_time r0)) eqn:L; [|discriminate].
  intros _. exists r0. repeat split; eauto.
Qed.

(* add refuses only in favour of a live item *)
Theorem add_refused_live c s k v rd e tag now pg s' :
  op_add c s k v rd e tag now pg = (s', RBool false) ->
  exists r, In r (rows s) /\ live_at now r = true.
Proof.
  unfold op_add. destruct (put (c_codec c) k) as [dbk raw|] eqn:P; [|discriminate].
  destruct (store _ _ v rd) as [sd|]; [|discriminate].
  destruct (fs_write s (s_file sd)) as [s1 fid] eqn:W.
  assert (R : rows s1 = rows s).
  { unfold fs_write in W. destruct (s_file sd); inversion W; subst; reflexivity. }
  rewrite bridge_add_select. destruct (filter _ (rows s1)) as [|r0 rs] eqn:F.
  - destruct (cull _ _ _ _); discriminate.
  - apply filter_cons_in in F as [I M]. rewrite bridge_add_live.
    destruct (live_opt now (expire_time r0)) eqn:L.
    + intros _. exists r0. rewrite <- R. auto.
    + destruct (cull _ _ _ _); discriminate.
Qed.

(* an expired item is never incremented: incr then starts again from the default *)
Theorem incr_expired_restarts c s k d df now pg dbk raw r0 rs :
  put (c_codec c) k = PutOk dbk raw ->
  filter (key_match dbk (b2z raw)) (rows s) = r0 :: rs ->
  live_at now r0 = false ->
  snd (op_incr c s k d df now pg) =
  match df with
  | None => RRaise EKeyError
  | Some d0 => match store (c_codec c) (c_min_file_size c) (VInt (d0 + d)) false with
               | StRaise => RRaise EStore
               | StOk _ => RVal (FVal (VInt (d0 + d))) None SNull
               end
  end.
Proof.
  intros P F L. unfold op_incr. rewrite P, bridge_incr_select, F, bridge_incr_expired.
  unfold live_at in L. rewrite L. cbn [negb].
  destruct df as [d0|]; [|reflexivity].
  destruct (store _ _ _ _) as [sd|]; [|reflexivity].
  destruct (fs_write s (s_file sd)) as [s1 fid]. destruct (cull _ _ _ _). reflexivity.
Qed.

(* pull / peek / peekitem deliver only live items *)
Lemma del_rows_in wh : forall t cnt sz r, In r (fst (fst (del_rows wh t cnt sz))) -> In r t.
Proof.
  induction t as [|x t IH]; intros cnt sz r; cbn [del_rows]; [auto|].
  destruct (wh x).
  - intros I. right. eapply IH, I.
  - specialize (IH cnt sz r). destruct (del_rows wh t cnt sz) as [[t' c'] s']. cbn in *. intuition.
Qed.

Lemma t_delete_in wh s r : In r (rows (t_delete wh s)) -> In r (rows s).
Proof.
  unfold t_delete. pose proof (del_rows_in wh (rows s) (n_count s) (n_size s) r) as D.
  destruct (del_rows wh (rows s) (n_count s) (n_size s)) as [[t' c'] s']. cbn in *. exact D.
Qed.

Lemma fs_remove_rows l : forall s, rows (fs_remove s l) = rows s.
Proof.
  unfold fs_remove. induction l as [|o l IH]; cbn; auto. intros s. rewrite IH. destruct o; reflexivity.
Qed.

Lemma sql_order_in d ks t r : In r (sql_order d ks t) -> In r t.
Proof.
  unfold sql_order. destruct d; [rewrite <- in_rev|]; apply sort_stable_in.
Qed.

Lemma take_in {A} n : forall (l : list A) x, In x (take n l) -> In x l.
Proof. induction n as [|n IH]; intros [|y l] x; cbn; try tauto. intros [E|I]; [left; exact E|right; apply IH, I]. Qed.

Lemma sql_limit_in n t r : In r (sql_limit n t) -> In r t.
Proof. unfold sql_limit. destruct (n <? 0); auto. apply take_in. Qed.

Lemma pull_select_in sd p t r : In r (pull_select sd p t) -> In r t.
Proof.
  unfold pull_select, pull_select_front, pull_select_back. destruct sd; intros I;
    apply sql_limit_in, sql_order_in, filter_In in I; apply I.
Qed.
Lemma peek_select_in sd p t r : In r (peek_select sd p t) -> In r t.
Proof.
  unfold peek_select, peek_select_front, peek_select_back. destruct sd; intros I;
    apply sql_limit_in, sql_order_in, filter_In in I; apply I.
Qed.

Theorem pull_delivers_live c p sd now fuel : forall s s' k raw v e t,
  op_pull_loop fuel c s p sd now = (s', RKV k raw v e t) ->
  exists r, In r (rows s) /\ live_at now r = true /\ k = rkey r /\ e = expire_time r.
Proof.
  induction fuel as [|f IH]; intros s s' k raw v e t; cbn [op_pull_loop]; [discriminate|].
  destruct (pull_select sd p (rows s)) as [|r0 rs] eqn:S; [discriminate|]. cbv zeta.
  assert (I0 : In r0 (rows s)) by (apply (pull_select_in sd p); rewrite S; left; reflexivity).
  rewrite bridge_pull_expired. destruct (live_opt now (expire_time r0)) eqn:L; cbn [negb].
  - destruct (fetch_row _ _ r0 false) eqn:Fe; try solve [intros E; inversion E; subst; exists r0; repeat split; auto].
    intros E. apply IH in E as [r [I R]]. exists r. split; [|exact R].
    rewrite fs_remove_rows in I. eapply t_delete_in, I.
  - intros E. apply IH in E as [r [I R]]. exists r. split; [|exact R].
    rewrite fs_remove_rows in I. eapply t_delete_in, I.
Qed.

Theorem peek_delivers_live c p sd now fuel : forall s s' k raw v e t,
  op_peek_loop fuel c s p sd now = (s', RKV k raw v e t) ->
  exists r, In r (rows s) /\ live_at now r = true /\ k = rkey r /\ e = expire_time r.
Proof.
  induction fuel as [|f IH]; intros s s' k raw v e t; cbn [op_peek_loop]; [discriminate|].
  destruct (peek_select sd p (rows s)) as [|r0 rs] eqn:S; [discriminate|].
  assert (I0 : In r0 (rows s)) by (apply (peek_select_in sd p); rewrite S; left; reflexivity).
  rewrite bridge_peek_expired. destruct (live_opt now (expire_time r0)) eqn:L; cbn [negb].
  - destruct (fetch_row _ _ r0 false) eqn:Fe; try solve [intros E; inversion E; subst; exists r0; repeat split; auto].
  - intros E. apply IH in E as [r [I R]]. exists r. split; [|exact R].
    rewrite fs_remove_rows in I. eapply t_delete_in, I.
Qed.

Theorem peekitem_delivers_live c l now fuel : forall s s' k raw v e t,
  op_peekitem_loop fuel c s l now = (s', RKV k raw v e t) ->
  exists r, In r (rows s) /\ live_at now r = true /\ k = rkey r /\ e = expire_time r.
Proof.
  induction fuel as [|f IH]; intros s s' k raw v e t; cbn [op_peekitem_loop]; [discriminate|].
  destruct (if l then peekitem_select_last (rows s) else peekitem_select_first (rows s)) as [|r0 rs] eqn:S; [discriminate|].
  assert (I0 : In r0 (rows s)).
  { assert (I : In r0 (if l then peekitem_select_last (rows s) else peekitem_select_first (rows s))) by (rewrite S; left; reflexivity).
    unfold peekitem_select_last, peekitem_select_first in I. destruct l; apply sql_limit_in, sql_order_in in I; exact I. }
  rewrite bridge_peekitem_expired. destruct (live_opt now (expire_time r0)) eqn:L; cbn [negb].
  - destruct (fetch_row _ _ r0 false) eqn:Fe; try solve [intros E; inversion E; subst; exists r0; repeat split; auto].
  - intros E. apply IH in E as [r [I R]]. exists r. split; [|exact R].
    rewrite fs_remove_rows in I. eapply t_delete_in, I.
Qed.

(* visible until expiry: a live row addressed by the key is found by every lookup *)
Theorem live_row_is_found c s k now dbk raw r :
  put (c_codec c) k = PutOk dbk raw -> In r (rows s) -> key_match dbk (b2z raw) r = true -> live_at now r = true ->
  snd (op_contains c s k now) = RBool true /\
  (forall rd, (forall r', In r' (rows s) -> fetch_row c s r' rd <> FIOError) -> snd (op_get c s k rd now) <> RDefault) /\
  (forall e, snd (op_touch c s k e now) = RBool true \/
             exists r', In r' (rows s) /\ key_match dbk (b2z raw) r' = true /\ live_at now r' = false).
Proof.
  intros P I M L. repeat split.
  - unfold op_contains. rewrite P, bridge_contains_select.
    destruct (filter _ (rows s)) as [|r0 rs] eqn:F; [|reflexivity].
    pose proof (filter_nil_none _ _ r F I) as N. cbv beta in N. rewrite M, L in N. discriminate.
  - intros rd Hf. unfold op_get. rewrite P, bridge_get_select.
    destruct (filter _ (rows s)) as [|r0 rs] eqn:F.
    + pose proof (filter_nil_none _ _ r F I) as N. cbv beta in N. rewrite M, L in N. discriminate.
    + apply filter_cons_in in F as [I0 _]. specialize (Hf r0 I0).
      destruct (get_fast_path _ _); destruct (fetch_row c s r0 rd); cbn; congruence.
  - intros e. unfold op_touch. rewrite P, bridge_touch_select.
    destruct (filter _ (rows s)) as [|r0 rs] eqn:F.
    + pose proof (filter_nil_none _ _ r F I) as N. congruence.
    + apply filter_cons_in in F as [I0 M0]. rewrite bridge_touch_live.
      destruct (live_opt now (expire_time r0)) eqn:L0; [left; reflexivity|right; exists r0; auto].
Qed.

(* an item stored without a time-to-live never expires *)
Theorem no_ttl_never_expires r : expire_time r = None -> forall now, live_at now r = true /\ passed now r = false.
Proof. intros E now. unfold live_at, passed. rewrite E. auto. Qed.

(* the lazy removal performed by writes selects only passed items, at most cull_limit of them *)
Theorem lazy_cull_selects_passed now lim t r :
  In r (cull_expired_select now lim t) -> In r t /\ passed now r = true.
Proof.
  rewrite bridge_cull_expired_select. intros I. apply sql_limit_in, sql_order_in, filter_In in I. exact I.
Qed.

Lemma length_take_le {A} n (l : list A) : (length (take n l) <= n)%nat.
Proof. rewrite length_take. lia. Qed.

Theorem lazy_cull_bounded now lim t : 0 <= lim -> Z.of_nat (length (cull_expired_select now lim t)) <= lim.
Proof.
  intros H. rewrite bridge_cull_expired_select. unfold sql_limit.
  destruct (lim <? 0) eqn:E; [lia|]. pose proof (length_take_le (Z.to_nat lim) (sql_order false [ord_optz expire_time] (filter (passed now) t))). lia.
Qed.

(* expire() pages select only passed items *)
Theorem expire_selects_passed lo now lim t r :
  In r (expire_select lo now lim t) -> In r t /\ passed now r = true.
Proof.
  rewrite bridge_expire_select. intros I. apply sql_limit_in, sql_order_in, filter_In in I as [I M].
  split; [exact I|]. unfold passed. destruct (expire_time r); [|discriminate].
  apply andb_true_iff in M as [_ M]. exact M.
Qed.

(* non-vacuity *)
Example served_example :
  let r := {| rowid := 1; rkey := SText [97]; rraw := true; store_time := 0; expire_time := Some 10; access_time := 0;
              access_count := 0; rtag := SNull; rsize := 0; rmode := 1; rfile := None; rvalue := SInt 5 |} in
  live_at 9 r = true /\ live_at 10 r = false /\ passed 10 r = false /\ passed 11 r = true.
Proof. repeat split; reflexivity. Qed.

(* expire() never selects an item whose absolute expiry time is negative (lower bound 0 of its range):
   the clause "removes every item whose expiry time has passed" fails for such items (finding C04-F1;
   needs a ttl below -now, i.e. before the epoch) *)
Definition neg_row : row :=
  {| rowid := 1; rkey := SText [97]; rraw := true; store_time := 0; expire_time := Some (-1024); access_time := 0;
     access_count := 0; rtag := SNull; rsize := 0; rmode := 1; rfile := None; rvalue := SInt 5 |}.
Definition neg_state : st := set_rows init_st [neg_row] 1 0.

Theorem expire_negative_time_refuted :
  exists s now r, In r (rows s) /\ passed now r = true /\ In r (rows (fst (op_expire s now))).
Proof. exists neg_state, 0, neg_row. repeat split; vm_compute; auto. Qed.
