(* expire() removes exactly the passed items with a non-negative expiry time (C04), from the paging-loop
   lemmas of EvictFacts. *)
From DC Require Import DCPrelude Val DiskBase SqlBase Gen_Disk Disk Gen_Sql Cache SqlBridge EvictBridge EvictFacts.

Theorem expire_exact_partial s now s' n :
  wf s -> op_expire s now = (s', RInt n) ->
  (forall r, In r (rows s') -> In r (rows s))
  /\ (forall r, removed s s' r -> passed now r = true)
  /\ (forall r, In r (rows s') -> expire_due 0 now r = false)
  /\ n = Z.of_nat (length (rows s)) - Z.of_nat (length (rows s')).
Proof.
  intros Hw H. destruct (op_expire_spec s now s' n Hw H) as (_ & H1 & H2 & H3).
  repeat split; auto. eapply op_expire_complete; eauto.
Qed.
