(* Facts about Cache.check / FanoutCache.check (C17).  Bridge lemmas first: they are the only statements
   that look inside gen/Gen_Check.v. *)
From DC Require Import DCPrelude CheckBase Gen_Check Check.

(* ---------------- bridge lemmas ---------------- *)
Lemma bridge_g_wrong_size a b : g_wrong_size a b = negb (a =? b).
Proof. reflexivity. Qed.
Lemma bridge_g_fix_wrong_size fx : g_fix_wrong_size fx = fx.
Proof. reflexivity. Qed.
Lemma bridge_repair_wrong_size : repair_wrong_size = RowSetSize SrcRealSize.
Proof. reflexivity. Qed.
Lemma bridge_g_fix_not_found fx : g_fix_not_found fx = fx.
Proof. reflexivity. Qed.
Lemma bridge_repair_not_found : repair_not_found = RowDelete.
Proof. reflexivity. Qed.
Lemma bridge_walks : walk_unknown = TopDown /\ walk_empty = TopDown.
Proof. split; reflexivity. Qed.
Lemma bridge_g_skip_unknown x : g_skip_unknown x = f_db x.
Proof. reflexivity. Qed.
Lemma bridge_g_fix_unknown fx : g_fix_unknown fx = fx.
Proof. reflexivity. Qed.
Lemma bridge_repair_unknown : repair_unknown = FsRemoveFile.
Proof. reflexivity. Qed.
Lemma bridge_g_empty_dir {A B} (dirs : list A) (files : list B) : g_empty_dir dirs files = is_nil dirs && is_nil files.
Proof. destruct dirs; destruct files; reflexivity. Qed.
Lemma bridge_g_fix_empty fx : g_fix_empty fx = fx.
Proof. reflexivity. Qed.
Lemma bridge_repair_empty : repair_empty = FsRemovedirs.
Proof. reflexivity. Qed.
Lemma bridge_g_count_wrong a b : g_count_wrong a b = negb (a =? b).
Proof. reflexivity. Qed.
Lemma bridge_g_size_wrong a b : g_size_wrong a b = negb (a =? b).
Proof. reflexivity. Qed.
Lemma bridge_g_fix_count fx : g_fix_count fx = fx.
Proof. reflexivity. Qed.
Lemma bridge_g_fix_size fx : g_fix_size fx = fx.
Proof. reflexivity. Qed.
Lemma bridge_repair_count : repair_count = CtrSet CCount SrcCounted.
Proof. reflexivity. Qed.
Lemma bridge_repair_size : repair_size = CtrSet CSize SrcCounted.
Proof. reflexivity. Qed.
Lemma bridge_check_passes : check_passes = [PassRows; PassUnknown; PassEmpty; PassCount; PassSize].
Proof. reflexivity. Qed.
Lemma bridge_fanout_check : fanout_check_passes_fix = true /\ fanout_check_in_shard_order = true.
Proof. split; reflexivity. Qed.

(* ---------------- list helpers ---------------- *)
Lemma flat_map_app' {A B} (f : A -> list B) l1 l2 : flat_map f (l1 ++ l2) = flat_map f l1 ++ flat_map f l2.
Proof. induction l1 as [|a l1 IH]; cbn [flat_map app]; [reflexivity|]. rewrite IH, app_assoc. reflexivity. Qed.

Lemma filter_true {A} (l : list A) : filter (fun _ => true) l = l.
Proof. induction l as [|a l IH]; cbn; [reflexivity|]. rewrite IH. reflexivity. Qed.

Lemma filter_flat_map {A B} (p : B -> bool) (f : A -> list B) l :
  filter p (flat_map f l) = flat_map (fun x => filter p (f x)) l.
Proof. induction l as [|a l IH]; cbn [flat_map]; [reflexivity|]. rewrite filter_app, IH. reflexivity. Qed.

Lemma sumZ_app l1 l2 : sumZ (l1 ++ l2) = sumZ l1 + sumZ l2.
Proof. induction l1 as [|a l1 IH]; cbn [sumZ app]; [reflexivity|]. rewrite IH. lia. Qed.

Lemma find_filter_keep {A} (p q : A -> bool) l :
  (forall x, In x l -> p x = true -> q x = true) -> find p (filter q l) = find p l.
Proof.
  induction l as [|a l IH]; intros H; cbn [filter find]; [reflexivity|].
  destruct (q a) eqn:Hq; cbn [find].
  - destruct (p a); [reflexivity|]. apply IH. intros x Hx. apply H. right. exact Hx.
  - destruct (p a) eqn:Hp.
    + rewrite (H a (or_introl eq_refl) Hp) in Hq. discriminate.
    + apply IH. intros x Hx. apply H. right. exact Hx.
Qed.

Lemma flat_map_ext_in' {A B} (f g : A -> list B) l : (forall x, In x l -> f x = g x) -> flat_map f l = flat_map g l.
Proof.
  induction l as [|a l IH]; intros H; cbn [flat_map]; [reflexivity|].
  rewrite (H a (or_introl eq_refl)), IH; [reflexivity|]. intros x Hx. apply H. right. exact Hx.
Qed.

Lemma existsb_Zeqb_In (z : Z) l : existsb (Z.eqb z) l = true <-> In z l.
Proof.
  rewrite existsb_exists. split.
  - intros [x [Hx He]]. apply Z.eqb_eq in He. subst. exact Hx.
  - intros H. exists z. split; [exact H|apply Z.eqb_refl].
Qed.

(* ---------------- pass 1: rows against files ---------------- *)
Definition rows_unique (s : state) : Prop := NoDup (map r_id (rows s)).

(* what the pass reports for one row / what it leaves of one row *)
Definition warn_row (t : fs) (r : row) : list warning :=
  match r_file r with
  | None => []
  | Some f => match lookup_file t f with
              | None => [WNotFound f]
              | Some real => if r_size r =? real then [] else [WWrongSize f real (r_size r)]
              end
  end.
Definition fixrow (t : fs) (r : row) : list row :=
  match r_file r with
  | None => [r]
  | Some f => match lookup_file t f with
              | None => []
              | Some real => if r_size r =? real then [r] else [set_size r real]
              end
  end.

Lemma step_row_warns fx t c r : snd (step_row fx t c r) = snd c ++ warn_row t r.
Proof.
  unfold step_row, warn_row. destruct (r_file r) as [f|]; [|rewrite app_nil_r; reflexivity].
  destruct (lookup_file t f) as [real|]; [|reflexivity].
  rewrite bridge_g_wrong_size. destruct (r_size r =? real); cbn [negb snd]; [rewrite app_nil_r|]; reflexivity.
Qed.

Lemma fold_step_warns fx t l : forall c,
  snd (fold_left (step_row fx t) l c) = snd c ++ flat_map (warn_row t) l.
Proof.
  induction l as [|r l IH]; intros c; cbn [fold_left flat_map]; [rewrite app_nil_r; reflexivity|].
  rewrite IH, step_row_warns, app_assoc. reflexivity.
Qed.

Lemma warn_row_nofile t r : has_file r = false -> warn_row t r = [].
Proof. unfold has_file, warn_row. destruct (r_file r); [discriminate|reflexivity]. Qed.

Lemma flat_map_filter_nil {A B} (p : A -> bool) (f : A -> list B) l :
  (forall x, p x = false -> f x = []) -> flat_map f (filter p l) = flat_map f l.
Proof.
  intros H. induction l as [|a l IH]; cbn [filter flat_map]; [reflexivity|].
  destruct (p a) eqn:Hp; cbn [flat_map]; rewrite IH; [reflexivity|]. rewrite (H a Hp). reflexivity.
Qed.

Lemma pass_rows_warns fx s : snd (pass_rows fx s) = flat_map (warn_row (tree s)) (rows s).
Proof.
  unfold pass_rows, snapshot. rewrite fold_step_warns. cbn [snd app].
  apply flat_map_filter_nil. intros x Hx. apply warn_row_nofile. exact Hx.
Qed.

Lemma step_row_false t c r : fst (step_row false t c r) = fst c.
Proof.
  unfold step_row. destruct (r_file r) as [f|]; [|reflexivity].
  destruct (lookup_file t f) as [real|]; [|reflexivity].
  destruct (g_wrong_size (r_size r) real); reflexivity.
Qed.

Lemma pass_rows_false s : fst (pass_rows false s) = s.
Proof.
  unfold pass_rows. generalize (snapshot s). intros l.
  assert (H : forall c, fst (fold_left (step_row false (tree s)) l c) = fst c).
  { induction l as [|r l IH]; intros c; cbn [fold_left]; [reflexivity|]. rewrite IH. apply step_row_false. }
  apply H.
Qed.

(* the effect of the step of snapshot row r on one current row x *)
Definition act (t : fs) (r x : row) : list row :=
  match r_file r with
  | None => [x]
  | Some f => match lookup_file t f with
              | Some real => if r_size r =? real then [x]
                             else if r_id x =? r_id r then [set_size x real] else [x]
              | None => if r_id x =? r_id r then [] else [x]
              end
  end.

Lemma map_as_flat_map {A B} (f : A -> B) l : map f l = flat_map (fun x => [f x]) l.
Proof. induction l as [|a l IH]; cbn; [reflexivity|]. rewrite IH. reflexivity. Qed.
Lemma filter_as_flat_map {A} (p : A -> bool) l : filter p l = flat_map (fun x => if p x then [x] else []) l.
Proof. induction l as [|a l IH]; cbn; [reflexivity|]. rewrite IH. destruct (p a); reflexivity. Qed.

Lemma step_row_rows t c r : rows (fst (step_row true t c r)) = flat_map (act t r) (rows (fst c)).
Proof.
  unfold step_row, act. destruct (r_file r) as [f|].
  2:{ rewrite <- map_as_flat_map, map_id. reflexivity. }
  destruct (lookup_file t f) as [real|].
  - rewrite bridge_g_wrong_size. destruct (r_size r =? real); cbn [negb fst].
    + rewrite <- map_as_flat_map, map_id. reflexivity.
    + rewrite bridge_g_fix_wrong_size, bridge_repair_wrong_size. cbn [apply_row_repair rows].
      rewrite map_as_flat_map. apply flat_map_ext. intros x. destruct (r_id x =? r_id r); reflexivity.
  - cbn [fst]. rewrite bridge_g_fix_not_found, bridge_repair_not_found. cbn [apply_row_repair rows].
    rewrite filter_as_flat_map. apply flat_map_ext. intros x. destruct (r_id x =? r_id r); reflexivity.
Qed.

Lemma step_row_tree fx t c r : tree (fst (step_row fx t c r)) = tree (fst c).
Proof.
  unfold step_row. destruct (r_file r) as [f|]; [|reflexivity].
  destruct (lookup_file t f) as [real|].
  - destruct (g_wrong_size (r_size r) real); [|reflexivity]. cbn [fst].
    destruct (g_fix_wrong_size fx); [|reflexivity]. rewrite bridge_repair_wrong_size. reflexivity.
  - cbn [fst]. destruct (g_fix_not_found fx); [|reflexivity]. rewrite bridge_repair_not_found. reflexivity.
Qed.

(* the triggers keep  Settings.count - COUNT  and  Settings.size - SUM(size)  unchanged *)
Definition cdiff (s : state) : Z := s_count s - row_count s.
Definition sdiff (s : state) : Z := s_size s - row_sum s.

Lemma length_filter_split {A} (p : A -> bool) l :
  Z.of_nat (length (filter (fun x => negb (p x)) l)) = Z.of_nat (length l) - Z.of_nat (length (filter p l)).
Proof.
  induction l as [|a l IH]; cbn [filter length]; [reflexivity|].
  destruct (p a); cbn [negb length]; lia.
Qed.
Lemma sum_filter_split (p : row -> bool) l :
  sumZ (map r_size (filter (fun x => negb (p x)) l)) = sumZ (map r_size l) - sumZ (map r_size (filter p l)).
Proof.
  induction l as [|a l IH]; cbn [filter map sumZ]; [reflexivity|].
  destruct (p a); cbn [negb map sumZ]; lia.
Qed.
Lemma sum_map_set (p : row -> bool) v l :
  sumZ (map r_size (map (fun x => if p x then set_size x v else x) l))
  = sumZ (map r_size l) + sumZ (map (fun x => v - r_size x) (filter p l)).
Proof.
  induction l as [|a l IH]; cbn [filter map sumZ]; [reflexivity|].
  destruct (p a); cbn [map sumZ set_size r_size]; lia.
Qed.

Lemma apply_row_repair_diffs rep rowid real recorded s :
  cdiff (apply_row_repair rep rowid real recorded s) = cdiff s /\
  sdiff (apply_row_repair rep rowid real recorded s) = sdiff s.
Proof.
  unfold cdiff, sdiff, row_count, row_sum. destruct rep as [src| |]; cbn [apply_row_repair rows s_count s_size].
  - rewrite map_length, sum_map_set. split; lia.
  - rewrite (length_filter_split (fun x => r_id x =? rowid)), (sum_filter_split (fun x => r_id x =? rowid)). split; lia.
  - split; reflexivity.
Qed.

Lemma step_row_diffs fx t c r :
  cdiff (fst (step_row fx t c r)) = cdiff (fst c) /\ sdiff (fst (step_row fx t c r)) = sdiff (fst c).
Proof.
  unfold step_row. destruct (r_file r) as [f|]; [|split; reflexivity].
  destruct (lookup_file t f) as [real|].
  - destruct (g_wrong_size (r_size r) real); [|split; reflexivity]. cbn [fst].
    destruct (g_fix_wrong_size fx); [apply apply_row_repair_diffs|split; reflexivity].
  - cbn [fst]. destruct (g_fix_not_found fx); [apply apply_row_repair_diffs|split; reflexivity].
Qed.

Lemma pass_rows_diffs fx s : cdiff (fst (pass_rows fx s)) = cdiff s /\ sdiff (fst (pass_rows fx s)) = sdiff s.
Proof.
  unfold pass_rows. generalize (snapshot s). intros l.
  assert (H : forall c, cdiff (fst (fold_left (step_row fx (tree s)) l c)) = cdiff (fst c)
                     /\ sdiff (fst (fold_left (step_row fx (tree s)) l c)) = sdiff (fst c)).
  { induction l as [|r l IH]; intros c; cbn [fold_left]; [split; reflexivity|].
    destruct (IH (step_row fx (tree s) c r)) as [H1 H2]. destruct (step_row_diffs fx (tree s) c r) as [H3 H4].
    split; congruence. }
  apply (H (s, [])).
Qed.

Lemma pass_rows_tree fx s : tree (fst (pass_rows fx s)) = tree s.
Proof.
  unfold pass_rows. generalize (snapshot s). intros l.
  assert (H : forall c, tree (fst (fold_left (step_row fx (tree s)) l c)) = tree (fst c)).
  { induction l as [|r l IH]; intros c; cbn [fold_left]; [reflexivity|]. rewrite IH. apply step_row_tree. }
  apply (H (s, [])).
Qed.

(* all steps of a snapshot applied to a list of current rows *)
Definition touch (t : fs) (l : list row) (xs : list row) : list row :=
  fold_left (fun xs r => flat_map (act t r) xs) l xs.

Lemma fold_step_rows t l : forall c, rows (fst (fold_left (step_row true t) l c)) = touch t l (rows (fst c)).
Proof.
  unfold touch. induction l as [|r l IH]; intros c; cbn [fold_left]; [reflexivity|].
  rewrite IH, step_row_rows. reflexivity.
Qed.

Lemma touch_app t l : forall a b, touch t l (a ++ b) = touch t l a ++ touch t l b.
Proof.
  unfold touch. induction l as [|r l IH]; intros a b; cbn [fold_left]; [reflexivity|].
  rewrite flat_map_app', IH. reflexivity.
Qed.
Lemma touch_nil t l : touch t l [] = [].
Proof. unfold touch. induction l as [|r l IH]; cbn [fold_left flat_map]; [reflexivity|exact IH]. Qed.
Lemma touch_flat t l xs : touch t l xs = flat_map (fun x => touch t l [x]) xs.
Proof.
  induction xs as [|x xs IH]; cbn [flat_map]; [apply touch_nil|].
  change (x :: xs) with ([x] ++ xs). rewrite touch_app, IH. reflexivity.
Qed.

Lemma act_other t r y : (r_id y =? r_id r) = false -> act t r y = [y].
Proof.
  intros H. unfold act. destruct (r_file r) as [f|]; [|reflexivity].
  destruct (lookup_file t f) as [real|]; rewrite H; [destruct (r_size r =? real)|]; reflexivity.
Qed.

Lemma touch_other t l : forall ys, (forall r y, In r l -> In y ys -> (r_id y =? r_id r) = false) -> touch t l ys = ys.
Proof.
  unfold touch. induction l as [|r l IH]; intros ys H; cbn [fold_left]; [reflexivity|].
  assert (E : flat_map (act t r) ys = ys).
  { clear IH. induction ys as [|y ys IHy]; cbn [flat_map]; [reflexivity|].
    rewrite (act_other t r y).
    - cbn [app]. rewrite IHy; [reflexivity|]. intros r' y' Hr Hy. apply H; [exact Hr|right; exact Hy].
    - apply H; left; reflexivity. }
  rewrite E. apply IH. intros r' y Hr Hy. apply H; [right; exact Hr|exact Hy].
Qed.

Lemma act_self t x : act t x x = fixrow t x.
Proof.
  unfold act, fixrow. destruct (r_file x) as [f|]; [|reflexivity].
  destruct (lookup_file t f) as [real|]; rewrite Z.eqb_refl; reflexivity.
Qed.

Lemma fixrow_ids t x y : In y (fixrow t x) -> r_id y = r_id x.
Proof.
  unfold fixrow. destruct (r_file x) as [f|].
  - destruct (lookup_file t f) as [real|]; [|intros []].
    destruct (r_size x =? real); intros [H|[]]; subst; reflexivity.
  - intros [H|[]]; subst; reflexivity.
Qed.

Lemma fixrow_nofile t x : has_file x = false -> fixrow t x = [x].
Proof. unfold has_file, fixrow. destruct (r_file x); [discriminate|reflexivity]. Qed.

Lemma touch_one t l : forall x,
  NoDup (map r_id l) -> (forall r, In r l -> r_id r = r_id x -> r = x) ->
  touch t l [x] = if existsb (fun r => r_id r =? r_id x) l then fixrow t x else [x].
Proof.
  induction l as [|r l IH]; intros x Hnd Hsame; [reflexivity|].
  cbn [existsb]. inversion Hnd as [|a m Hnot Hnd' E]; subst.
  destruct (r_id r =? r_id x) eqn:Hid; cbn [orb].
  - apply Z.eqb_eq in Hid. assert (r = x) by (apply Hsame; [left; reflexivity|exact Hid]). subst r.
    unfold touch. cbn [fold_left flat_map]. rewrite app_nil_r, act_self.
    apply touch_other. intros r y Hr Hy. apply fixrow_ids in Hy. rewrite Hy. apply Z.eqb_neq. intros Heq.
    apply Hnot. rewrite Heq. apply in_map. exact Hr.
  - unfold touch. cbn [fold_left flat_map]. rewrite app_nil_r, act_other.
    + apply IH; [exact Hnd'|]. intros r' Hr'. apply Hsame. right. exact Hr'.
    + rewrite Z.eqb_sym. exact Hid.
Qed.

Lemma NoDup_map_filter {A B} (f : A -> B) (p : A -> bool) l : NoDup (map f l) -> NoDup (map f (filter p l)).
Proof.
  induction l as [|a l IH]; intros H; cbn [filter map]; [constructor|].
  inversion H as [|b m Hnot Hnd E]; subst. destruct (p a); cbn [map]; [|apply IH; exact Hnd].
  constructor; [|apply IH; exact Hnd]. intros Hin. apply Hnot.
  apply in_map_iff in Hin. destruct Hin as [y [Hy Hin]]. apply filter_In in Hin. rewrite <- Hy. apply in_map. apply Hin.
Qed.

Lemma unique_same_id (l : list row) x r : NoDup (map r_id l) -> In x l -> In r l -> r_id r = r_id x -> r = x.
Proof.
  induction l as [|a l IH]; intros Hnd Hx Hr Hid; [destruct Hx|].
  inversion Hnd as [|b m Hnot Hnd' E]; subst.
  destruct Hx as [Hx|Hx]; destruct Hr as [Hr|Hr]; subst.
  - reflexivity.
  - exfalso. apply Hnot. rewrite <- Hid. apply in_map. exact Hr.
  - exfalso. apply Hnot. rewrite Hid. apply in_map. exact Hx.
  - apply IH; assumption.
Qed.

Lemma pass_rows_rows s : rows_unique s -> rows (fst (pass_rows true s)) = flat_map (fixrow (tree s)) (rows s).
Proof.
  intros Hu. unfold pass_rows. rewrite fold_step_rows. cbn [fst]. rewrite touch_flat.
  apply flat_map_ext_in'. intros x Hx. unfold snapshot.
  rewrite touch_one.
  - destruct (existsb (fun r => r_id r =? r_id x) (filter has_file (rows s))) eqn:He; [reflexivity|].
    symmetry. apply fixrow_nofile. destruct (has_file x) eqn:Hf; [|reflexivity].
    exfalso. assert (Hc : existsb (fun r => r_id r =? r_id x) (filter has_file (rows s)) = true).
    { apply existsb_exists. exists x. split; [apply filter_In; split; assumption|apply Z.eqb_refl]. }
    rewrite Hc in He. discriminate.
  - apply NoDup_map_filter. exact Hu.
  - intros r Hr Hid. apply filter_In in Hr. apply (unique_same_id (rows s)); try assumption. apply Hr.
Qed.

(* ---------------- pass 2: files against rows ---------------- *)
Lemma unknown_file_spec known x :
  unknown_file known x = negb (existsb (Z.eqb (f_id x)) known) && negb (f_db x).
Proof. reflexivity. Qed.

Lemma file_removed_true known x : file_removed true known x = unknown_file known x.
Proof.
  unfold file_removed. rewrite bridge_g_fix_unknown, bridge_repair_unknown. cbn [removes_file].
  rewrite !andb_true_r. reflexivity.
Qed.
Lemma file_removed_false known x : file_removed false known x = false.
Proof. unfold file_removed. rewrite bridge_g_fix_unknown, andb_false_r. reflexivity. Qed.

Lemma scan_false known l : fst (scan_files false known l) = l.
Proof.
  unfold scan_files. cbn [fst]. rewrite <- (filter_true l) at 2. apply filter_ext.
  intros x. rewrite file_removed_false. reflexivity.
Qed.
Lemma scan_true known l : fst (scan_files true known l) = filter (fun x => negb (unknown_file known x)) l.
Proof. unfold scan_files. cbn [fst]. apply filter_ext. intros x. rewrite file_removed_true. reflexivity. Qed.

Lemma map_id_in {A} (f : A -> A) l : (forall x, f x = x) -> map f l = l.
Proof. intros H. induction l as [|a l IH]; cbn [map]; [reflexivity|]. rewrite H, IH. reflexivity. Qed.

Lemma unknown_d2_false known d : fst (unknown_d2 false known d) = d.
Proof. unfold unknown_d2. cbn [fst]. rewrite scan_false. destruct d; reflexivity. Qed.
Lemma unknown_d1_false known d : fst (unknown_d1 false known d) = d.
Proof.
  unfold unknown_d1. cbn [fst]. rewrite scan_false, map_map, map_id_in; [destruct d; reflexivity|].
  intros x. apply unknown_d2_false.
Qed.
Lemma pass_unknown_false known t : fst (pass_unknown false known t) = t.
Proof.
  unfold pass_unknown. cbn [fst]. rewrite scan_false, map_map, map_id_in; [destruct t; reflexivity|].
  intros x. apply unknown_d1_false.
Qed.

Lemma map_flat_map {A B C} (f : B -> C) (g : A -> list B) l : map f (flat_map g l) = flat_map (fun x => map f (g x)) l.
Proof. induction l as [|a l IH]; cbn [flat_map map]; [reflexivity|]. rewrite map_app, IH. reflexivity. Qed.
Lemma flat_map_map {A B C} (f : A -> B) (g : B -> list C) l : flat_map g (map f l) = flat_map (fun x => g (f x)) l.
Proof. induction l as [|a l IH]; cbn [flat_map map]; [reflexivity|]. rewrite IH. reflexivity. Qed.

Definition unknown_warns (known : list Z) (l : list file) : list warning :=
  map (fun x => WUnknown (f_id x)) (filter (unknown_file known) l).

Lemma unknown_warns_app known a b : unknown_warns known (a ++ b) = unknown_warns known a ++ unknown_warns known b.
Proof. unfold unknown_warns. rewrite filter_app, map_app. reflexivity. Qed.
Lemma unknown_warns_flat {A} known (g : A -> list file) l :
  unknown_warns known (flat_map g l) = flat_map (fun x => unknown_warns known (g x)) l.
Proof. unfold unknown_warns. rewrite filter_flat_map, map_flat_map. reflexivity. Qed.

Lemma unknown_d2_warns fx known d : snd (unknown_d2 fx known d) = unknown_warns known (d2_files d).
Proof. reflexivity. Qed.
Lemma unknown_d1_warns fx known d : snd (unknown_d1 fx known d) = unknown_warns known (d1_all_files d).
Proof.
  unfold unknown_d1, d1_all_files. cbn [snd]. destruct bridge_walks as [Hw _]. rewrite Hw. cbn [ord].
  rewrite unknown_warns_app, unknown_warns_flat, flat_map_map. reflexivity.
Qed.
Lemma pass_unknown_warns fx known t : snd (pass_unknown fx known t) = unknown_warns known (all_files t).
Proof.
  unfold pass_unknown, all_files. cbn [snd]. destruct bridge_walks as [Hw _]. rewrite Hw. cbn [ord].
  rewrite unknown_warns_app, unknown_warns_flat, flat_map_map.
  assert (E : snd (scan_files fx known [db_file]) = []).
  { unfold scan_files. cbn [snd filter]. rewrite unknown_file_spec. cbn [db_file f_db negb]. rewrite andb_false_r. reflexivity. }
  rewrite E. cbn [app]. f_equal. apply flat_map_ext. intros d. apply unknown_d1_warns.
Qed.

Definition kept (known : list Z) (l : list file) : list file := filter (fun x => negb (unknown_file known x)) l.

Lemma unknown_d2_true known d : fst (unknown_d2 true known d) = {| d2_id := d2_id d; d2_files := kept known (d2_files d) |}.
Proof. unfold unknown_d2. cbn [fst]. rewrite scan_true. reflexivity. Qed.
Lemma unknown_d1_true known d :
  fst (unknown_d1 true known d) =
  {| d1_id := d1_id d; d1_files := kept known (d1_files d);
     d1_subs := map (fun x => {| d2_id := d2_id x; d2_files := kept known (d2_files x) |}) (d1_subs d) |}.
Proof.
  unfold unknown_d1. cbn [fst]. rewrite scan_true, map_map. f_equal. apply map_ext. intros x. apply unknown_d2_true.
Qed.
Definition clean_d2 known (x : dir2) : dir2 := {| d2_id := d2_id x; d2_files := kept known (d2_files x) |}.
Definition clean_d1 known (d : dir1) : dir1 :=
  {| d1_id := d1_id d; d1_files := kept known (d1_files d); d1_subs := map (clean_d2 known) (d1_subs d) |}.
Definition clean_fs known (t : fs) : fs :=
  {| root_files := kept known (root_files t); root_subs := map (clean_d1 known) (root_subs t) |}.

Lemma pass_unknown_true known t : fst (pass_unknown true known t) = clean_fs known t.
Proof.
  unfold pass_unknown, clean_fs. cbn [fst]. rewrite scan_true, map_map. f_equal. apply map_ext. intros d.
  apply unknown_d1_true.
Qed.

Lemma clean_all_files known t : all_files (clean_fs known t) = kept known (all_files t).
Proof.
  unfold all_files, clean_fs, kept. cbn [root_files root_subs]. rewrite filter_app, filter_flat_map, flat_map_map.
  f_equal. apply flat_map_ext. intros d. unfold d1_all_files, clean_d1. cbn [d1_files d1_subs].
  rewrite filter_app, filter_flat_map, flat_map_map. reflexivity.
Qed.

(* ---------------- pass 3: empty directories ---------------- *)
Definition e2 (d : dir2) : list Z := if is_nil (d2_files d) then [d2_id d] else [].
Definition e1 (d : dir1) : list Z :=
  if is_nil (d1_subs d) && is_nil (d1_files d) then [d1_id d] else flat_map e2 (d1_subs d).
Definition empty_dirs (t : fs) : list Z := flat_map e1 (root_subs t).

Lemma empty_d2_warns rep fx d : snd (empty_d2 rep fx d) = map WEmptyDir (e2 d).
Proof.
  unfold empty_d2, e2. rewrite bridge_g_empty_dir. cbn [is_nil andb]. destruct (is_nil (d2_files d)); reflexivity.
Qed.
Lemma empty_d1_warns rep fx d : snd (empty_d1 rep fx d) = map WEmptyDir (e1 d).
Proof.
  unfold empty_d1, e1. rewrite bridge_g_empty_dir. destruct (is_nil (d1_subs d) && is_nil (d1_files d)); [reflexivity|].
  cbn [snd]. destruct bridge_walks as [_ Hw]. rewrite Hw. cbn [ord app].
  rewrite flat_map_map, map_flat_map. apply flat_map_ext. intros x. apply empty_d2_warns.
Qed.
Lemma pass_empty_warns rep fx t : snd (pass_empty rep fx t) = map WEmptyDir (empty_dirs t).
Proof.
  unfold pass_empty, empty_dirs. cbn [snd]. destruct bridge_walks as [_ Hw]. rewrite Hw. cbn [ord].
  rewrite bridge_g_empty_dir. cbn [is_nil]. rewrite andb_false_r. cbn [app].
  rewrite flat_map_map, map_flat_map. apply flat_map_ext. intros x. apply empty_d1_warns.
Qed.

Lemma keep_all {A} (f : A -> option A * list warning) l : (forall x, fst (f x) = Some x) -> keep (map f l) = l.
Proof.
  intros H. unfold keep. induction l as [|a l IH]; cbn [map flat_map]; [reflexivity|].
  rewrite H, IH. reflexivity.
Qed.

Lemma empty_d2_false rep d : fst (empty_d2 rep false d) = Some d.
Proof.
  unfold empty_d2. rewrite bridge_g_fix_empty. cbn [andb]. destruct (g_empty_dir _ _); reflexivity.
Qed.
Lemma empty_d1_false rep d : fst (empty_d1 rep false d) = Some d.
Proof.
  unfold empty_d1. rewrite bridge_g_fix_empty. cbn [andb]. destruct (g_empty_dir _ _); [reflexivity|].
  cbn [fst]. rewrite keep_all; [destruct d; reflexivity|]. intros x. apply empty_d2_false.
Qed.
Lemma pass_empty_false rep t : fst (pass_empty rep false t) = t.
Proof.
  unfold pass_empty. cbn [fst]. rewrite keep_all; [destruct t; reflexivity|]. intros x. apply empty_d1_false.
Qed.

(* removed directories hold no files *)
Lemma keep_d2_files rep fx l : flat_map d2_files (keep (map (empty_d2 rep fx) l)) = flat_map d2_files l.
Proof.
  unfold keep. induction l as [|a l IH]; cbn [map flat_map]; [reflexivity|].
  rewrite flat_map_app', IH. f_equal. unfold empty_d2. rewrite bridge_g_empty_dir. cbn [is_nil andb].
  destruct (d2_files a) eqn:Hf; cbn [is_nil fst].
  - destruct (g_fix_empty fx && removes_dir rep); cbn [flat_map]; [reflexivity|]. rewrite Hf. reflexivity.
  - cbn [flat_map]. rewrite Hf, app_nil_r. reflexivity.
Qed.

Lemma is_nil_true {A} (l : list A) : is_nil l = true -> l = [].
Proof. destruct l; [reflexivity|discriminate]. Qed.

Lemma empty_d1_files rep fx d :
  flat_map d1_all_files (match fst (empty_d1 rep fx d) with Some x => [x] | None => [] end) = d1_all_files d.
Proof.
  unfold empty_d1. rewrite bridge_g_empty_dir.
  destruct (is_nil (d1_subs d) && is_nil (d1_files d)) eqn:He.
  - apply andb_prop in He. destruct He as [H1 H2]. apply is_nil_true in H1. apply is_nil_true in H2.
    cbn [fst]. unfold d1_all_files. rewrite H1, H2.
    destruct (g_fix_empty fx && removes_dir rep); cbn [flat_map app]; [reflexivity|].
    unfold d1_all_files. rewrite H1, H2. reflexivity.
  - cbn [fst].
    destruct (g_fix_empty fx && prunes rep && is_nil (keep (map (empty_d2 rep fx) (d1_subs d))) && is_nil (d1_files d)) eqn:Hp.
    + apply andb_prop in Hp. destruct Hp as [Hp H2]. apply andb_prop in Hp. destruct Hp as [_ H1].
      apply is_nil_true in H1. apply is_nil_true in H2. cbn [flat_map]. unfold d1_all_files.
      rewrite H2, <- (keep_d2_files rep fx), H1. reflexivity.
    + cbn [flat_map]. rewrite app_nil_r. unfold d1_all_files. cbn [d1_files d1_subs]. rewrite keep_d2_files. reflexivity.
Qed.

Lemma pass_empty_files rep fx t : all_files (fst (pass_empty rep fx t)) = all_files t.
Proof.
  unfold pass_empty, all_files. cbn [fst root_files root_subs]. f_equal. unfold keep.
  induction (root_subs t) as [|a l IH]; cbn [map flat_map]; [reflexivity|].
  rewrite flat_map_app', IH, empty_d1_files. reflexivity.
Qed.

(* ---------------- passes 4, 5 and the whole check ---------------- *)
Definition count_warn (s : state) : list warning :=
  if s_count s =? row_count s then [] else [WCount (s_count s) (row_count s)].
Definition size_warn (s : state) : list warning :=
  if s_size s =? row_sum s then [] else [WSize (s_size s) (row_sum s)].

Lemma pass_count_warns fx s : snd (pass_count fx s) = count_warn s.
Proof. unfold pass_count, count_warn. rewrite bridge_g_count_wrong. destruct (s_count s =? row_count s); reflexivity. Qed.
Lemma pass_size_warns fx s : snd (pass_size fx s) = size_warn s.
Proof. unfold pass_size, size_warn. rewrite bridge_g_size_wrong. destruct (s_size s =? row_sum s); reflexivity. Qed.
Lemma pass_count_false s : fst (pass_count false s) = s.
Proof. unfold pass_count. destruct (g_count_wrong _ _); reflexivity. Qed.
Lemma pass_size_false s : fst (pass_size false s) = s.
Proof. unfold pass_size. destruct (g_size_wrong _ _); reflexivity. Qed.
Lemma pass_count_true s :
  fst (pass_count true s) = {| rows := rows s; s_count := row_count s; s_size := s_size s; tree := tree s |}.
Proof.
  unfold pass_count. rewrite bridge_g_count_wrong. destruct (s_count s =? row_count s) eqn:He; cbn [negb fst].
  - apply Z.eqb_eq in He. rewrite <- He. destruct s; reflexivity.
  - rewrite bridge_g_fix_count, bridge_repair_count. reflexivity.
Qed.
Lemma pass_size_true s :
  fst (pass_size true s) = {| rows := rows s; s_count := s_count s; s_size := row_sum s; tree := tree s |}.
Proof.
  unfold pass_size. rewrite bridge_g_size_wrong. destruct (s_size s =? row_sum s) eqn:He; cbn [negb fst].
  - apply Z.eqb_eq in He. rewrite <- He. destruct s; reflexivity.
  - rewrite bridge_g_fix_size, bridge_repair_size. reflexivity.
Qed.

Lemma with_tree_same s : with_tree s (tree s) = s.
Proof. destruct s; reflexivity. Qed.

(* everything a plain check reports, read off the state *)
Definition report (s : state) : list warning :=
  flat_map (warn_row (tree s)) (rows s) ++ unknown_warns (filenames s) (all_files (tree s))
  ++ map WEmptyDir (empty_dirs (tree s)) ++ count_warn s ++ size_warn s.

Lemma check_with_false rep s : check_with rep s false = (s, report s).
Proof.
  unfold check_with. rewrite bridge_check_passes. cbn [fold_left run_pass c_s c_known c_warns app].
  rewrite pass_rows_false, pass_unknown_false, with_tree_same, pass_empty_false, with_tree_same,
          pass_count_false, pass_size_false.
  rewrite pass_rows_warns, pass_unknown_warns, pass_empty_warns, pass_count_warns, pass_size_warns.
  unfold report. rewrite <- !app_assoc. reflexivity.
Qed.

Lemma check1_false s : check1 s false = (s, report s).
Proof. apply check_with_false. Qed.

(* the state a fixing check leaves, and what it reports *)
Definition after_rows (s : state) : state := fst (pass_rows true s).
Definition fixed_tree (rep : fs_repair) (s : state) : fs := fst (pass_empty rep true (clean_fs (filenames s) (tree s))).
Definition fixed (rep : fs_repair) (s : state) : state :=
  {| rows := rows (after_rows s); s_count := row_count (after_rows s); s_size := row_sum (after_rows s);
     tree := fixed_tree rep s |}.
Definition report_fix (s : state) : list warning :=
  flat_map (warn_row (tree s)) (rows s) ++ unknown_warns (filenames s) (all_files (tree s))
  ++ map WEmptyDir (empty_dirs (clean_fs (filenames s) (tree s))) ++ count_warn (after_rows s) ++ size_warn (after_rows s).

Lemma check_with_true rep s : check_with rep s true = (fixed rep s, report_fix s).
Proof.
  unfold check_with. rewrite bridge_check_passes. cbn [fold_left run_pass c_s c_known c_warns app].
  rewrite pass_rows_warns, pass_unknown_warns, pass_empty_warns, pass_count_warns, pass_size_warns.
  rewrite pass_size_true, pass_count_true. cbn [rows s_count s_size tree with_tree].
  rewrite pass_unknown_true, pass_rows_tree.
  unfold fixed, report_fix, fixed_tree, after_rows, count_warn, size_warn, row_count, row_sum.
  cbn [rows s_count s_size tree with_tree]. rewrite <- !app_assoc. reflexivity.
Qed.

Lemma check1_true s : check1 s true = (fixed FsRemovedirs s, report_fix s).
Proof. unfold check1. rewrite bridge_repair_empty. apply check_with_true. Qed.

(* ---------------- what survives a fixing check ---------------- *)
Lemma In_filenames s f : In f (filenames s) <-> exists r, In r (rows s) /\ r_file r = Some f.
Proof.
  unfold filenames. rewrite in_flat_map. split.
  - intros [r [Hr Hf]]. exists r. split; [exact Hr|]. destruct (r_file r) as [g|]; [|destruct Hf].
    destruct Hf as [Hf|[]]. subst. reflexivity.
  - intros [r [Hr Hf]]. exists r. split; [exact Hr|]. rewrite Hf. left. reflexivity.
Qed.

Lemma fixed_all_files rep s : all_files (fixed_tree rep s) = kept (filenames s) (all_files (tree s)).
Proof. unfold fixed_tree. rewrite pass_empty_files. apply clean_all_files. Qed.

Lemma lookup_fixed rep s f : In f (filenames s) -> lookup_file (fixed_tree rep s) f = lookup_file (tree s) f.
Proof.
  intros Hf. unfold lookup_file. rewrite fixed_all_files. unfold kept. rewrite find_filter_keep; [reflexivity|].
  intros x _ Hx. apply Z.eqb_eq in Hx. rewrite unknown_file_spec.
  assert (E : existsb (Z.eqb (f_id x)) (filenames s) = true) by (apply existsb_Zeqb_In; rewrite Hx; exact Hf).
  rewrite E. reflexivity.
Qed.

Lemma fixrow_shape t x r :
  In r (fixrow t x) -> r_id r = r_id x /\ r_file r = r_file x /\
  (forall f, r_file x = Some f -> lookup_file t f = Some (r_size r)).
Proof.
  unfold fixrow. destruct (r_file x) as [g|] eqn:Hg.
  - destruct (lookup_file t g) as [real|] eqn:Hl; [|intros []].
    destruct (r_size x =? real) eqn:He; intros [H|[]]; subst r.
    + apply Z.eqb_eq in He. repeat split; [exact Hg|]. intros f Hf. injection Hf as Hf. rewrite <- Hf, He. exact Hl.
    + cbn [set_size r_id r_file r_size]. repeat split; [exact Hg|]. intros f Hf. injection Hf as Hf. rewrite <- Hf. exact Hl.
  - intros [H|[]]; subst r. repeat split; [exact Hg|]. intros f Hf. discriminate.
Qed.

Lemma fixed_rows rep s : rows_unique s -> rows (fixed rep s) = flat_map (fixrow (tree s)) (rows s).
Proof. intros Hu. unfold fixed, after_rows. cbn [rows]. apply pass_rows_rows. exact Hu. Qed.

(* C17_readable *)
Lemma fixed_readable rep s : rows_unique s ->
  forall r f, In r (rows (fixed rep s)) -> r_file r = Some f -> lookup_file (tree (fixed rep s)) f = Some (r_size r).
Proof.
  intros Hu r f Hr Hf. rewrite (fixed_rows rep s Hu) in Hr. apply in_flat_map in Hr. destruct Hr as [x [Hx Hr]].
  apply fixrow_shape in Hr. destruct Hr as [_ [Hfile Hlook]]. rewrite Hf in Hfile.
  cbn [fixed tree]. rewrite lookup_fixed.
  - apply Hlook. symmetry. exact Hfile.
  - apply In_filenames. exists x. split; [exact Hx|]. symmetry. exact Hfile.
Qed.

(* a row is undamaged when it has no file or its file exists with the recorded size *)
Definition row_ok (s : state) (r : row) : Prop :=
  match r_file r with None => True | Some f => lookup_file (tree s) f = Some (r_size r) end.
Definition file_owned (s : state) (x : file) : Prop := f_db x = true \/ In (f_id x) (filenames s).

(* C17_preserves *)
Lemma fixed_preserves rep s : rows_unique s ->
  (forall r, In r (rows s) -> row_ok s r ->
     In r (rows (fixed rep s)) /\
     forall f, r_file r = Some f -> lookup_file (tree (fixed rep s)) f = lookup_file (tree s) f) /\
  (forall x, In x (all_files (tree s)) -> file_owned s x -> In x (all_files (tree (fixed rep s)))).
Proof.
  intros Hu. split.
  - intros r Hr Hok. split.
    + rewrite (fixed_rows rep s Hu). apply in_flat_map. exists r. split; [exact Hr|].
      unfold row_ok in Hok. unfold fixrow. destruct (r_file r) as [f|]; [|left; reflexivity].
      rewrite Hok, Z.eqb_refl. left. reflexivity.
    + intros f Hf. cbn [fixed tree]. apply lookup_fixed. apply In_filenames. exists r. split; assumption.
  - intros x Hx Hown. cbn [fixed tree]. rewrite fixed_all_files. apply filter_In. split; [exact Hx|].
    rewrite unknown_file_spec. destruct Hown as [Hd|Hk].
    + rewrite Hd. cbn [negb]. rewrite andb_false_r. reflexivity.
    + apply existsb_Zeqb_In in Hk. rewrite Hk. reflexivity.
Qed.

(* C17_counters_fixed *)
Lemma fixed_counters rep s : s_count (fixed rep s) = row_count (fixed rep s) /\ s_size (fixed rep s) = row_sum (fixed rep s).
Proof. split; reflexivity. Qed.

(* ---------------- the second check ---------------- *)
Lemma flat_map_nil {A B} (f : A -> list B) l : (forall x, In x l -> f x = []) -> flat_map f l = [].
Proof.
  induction l as [|a l IH]; intros H; cbn [flat_map]; [reflexivity|].
  rewrite (H a (or_introl eq_refl)), IH; [reflexivity|]. intros x Hx. apply H. right. exact Hx.
Qed.

Lemma find_some_of_in {A} (p : A -> bool) l x : In x l -> p x = true -> find p l <> None.
Proof.
  induction l as [|a l IH]; intros Hx Hp; [destruct Hx|]. cbn [find]. destruct (p a) eqn:Ha; [discriminate|].
  destruct Hx as [Hx|Hx]; [subst; rewrite Hp in Ha; discriminate|]. apply IH; assumption.
Qed.

Lemma second_rows_clean rep s : rows_unique s ->
  flat_map (warn_row (tree (fixed rep s))) (rows (fixed rep s)) = [].
Proof.
  intros Hu. apply flat_map_nil. intros r Hr. unfold warn_row. destruct (r_file r) as [f|] eqn:Hf; [|reflexivity].
  rewrite (fixed_readable rep s Hu r f Hr Hf), Z.eqb_refl. reflexivity.
Qed.

Lemma second_unknown_clean rep s : rows_unique s ->
  unknown_warns (filenames (fixed rep s)) (all_files (tree (fixed rep s))) = [].
Proof.
  intros Hu. unfold unknown_warns.
  assert (E : filter (unknown_file (filenames (fixed rep s))) (all_files (tree (fixed rep s))) = []); [|rewrite E; reflexivity].
  rewrite filter_as_flat_map. apply flat_map_nil. intros x Hx.
  cbn [fixed tree] in Hx. rewrite fixed_all_files in Hx. apply filter_In in Hx. destruct Hx as [Hx Hk].
  rewrite unknown_file_spec in Hk. rewrite unknown_file_spec.
  destruct (f_db x) eqn:Hd; [cbn [negb]; rewrite andb_false_r; reflexivity|].
  cbn [negb] in Hk. rewrite andb_true_r, negb_involutive in Hk. apply existsb_Zeqb_In in Hk.
  apply In_filenames in Hk. destruct Hk as [r [Hr Hf]].
  assert (Hin : In (f_id x) (filenames (fixed rep s))).
  { apply In_filenames. rewrite (fixed_rows rep s Hu).
    assert (Hl : lookup_file (tree s) (f_id x) <> None).
    { unfold lookup_file. destruct (find (fun y => f_id y =? f_id x) (all_files (tree s))) eqn:Hfind; [discriminate|].
      exfalso. apply (find_some_of_in (fun y => f_id y =? f_id x) (all_files (tree s)) x Hx (Z.eqb_refl _)). exact Hfind. }
    destruct (fixrow (tree s) r) as [|r' l] eqn:Hfix.
    - exfalso. unfold fixrow in Hfix. rewrite Hf in Hfix. destruct (lookup_file (tree s) (f_id x)); [|apply Hl; reflexivity].
      destruct (r_size r =? z); discriminate.
    - exists r'. assert (Hr' : In r' (fixrow (tree s) r)) by (rewrite Hfix; left; reflexivity). split.
      + apply in_flat_map. exists r. split; assumption.
      + apply fixrow_shape in Hr'. destruct Hr' as [_ [Hfile _]]. rewrite Hfile. exact Hf. }
  apply existsb_Zeqb_In in Hin. rewrite Hin. reflexivity.
Qed.

(* first-level directories that have sub-directories but keep nothing at or below them *)
Definition cascades (known : list Z) (d : dir1) : bool :=
  negb (is_nil (d1_subs d)) && is_nil (kept known (d1_files d))
  && forallb (fun x => is_nil (kept known (d2_files x))) (d1_subs d).
Definition cascade_dirs (s : state) : list Z := map d1_id (filter (cascades (filenames s)) (root_subs (tree s))).

Definition nonempty2 (x : dir2) : bool := negb (is_nil (d2_files x)).

Lemma keep_empty_d2 rep l : removes_dir rep = true -> keep (map (empty_d2 rep true) l) = filter nonempty2 l.
Proof.
  intros Hr. unfold keep. induction l as [|a l IH]; cbn [map flat_map filter]; [reflexivity|].
  rewrite IH. unfold empty_d2, nonempty2. rewrite bridge_g_empty_dir, bridge_g_fix_empty, Hr. cbn [is_nil andb].
  destruct (is_nil (d2_files a)); reflexivity.
Qed.
Lemma e2_filter_nonempty l : flat_map e2 (filter nonempty2 l) = [].
Proof.
  induction l as [|a l IH]; cbn [filter]; [reflexivity|]. unfold nonempty2 at 1.
  destruct (is_nil (d2_files a)) eqn:He; cbn [negb]; [exact IH|]. cbn [flat_map]. rewrite IH. unfold e2. rewrite He. reflexivity.
Qed.
Lemma is_nil_filter_nonempty l : is_nil (filter nonempty2 l) = forallb (fun x => is_nil (d2_files x)) l.
Proof.
  induction l as [|a l IH]; cbn [filter forallb]; [reflexivity|]. unfold nonempty2 at 1.
  destruct (is_nil (d2_files a)); cbn [negb andb]; [exact IH|reflexivity].
Qed.

Definition residual (rep : fs_repair) (d : dir1) : list Z :=
  if prunes rep then []
  else if negb (is_nil (d1_subs d)) && is_nil (d1_files d) && forallb (fun x => is_nil (d2_files x)) (d1_subs d)
       then [d1_id d] else [].

Lemma empty_d1_residual rep d : removes_dir rep = true ->
  flat_map e1 (match fst (empty_d1 rep true d) with Some x => [x] | None => [] end) = residual rep d.
Proof.
  intros Hr. unfold empty_d1, residual. cbn zeta. rewrite bridge_g_empty_dir, !bridge_g_fix_empty, Hr, (keep_empty_d2 rep _ Hr).
  cbn [andb]. destruct (is_nil (d1_subs d)) eqn:Hs; destruct (is_nil (d1_files d)) eqn:Hf; cbn [andb negb fst flat_map].
  - destruct (prunes rep); reflexivity.
  - apply is_nil_true in Hs. rewrite Hs. cbn [filter is_nil andb flat_map app]. rewrite !andb_false_r.
    unfold e1. cbn [d1_subs d1_files is_nil andb flat_map]. rewrite Hf. destruct (prunes rep); reflexivity.
  - rewrite andb_true_r, is_nil_filter_nonempty.
    destruct (forallb (fun x => is_nil (d2_files x)) (d1_subs d)) eqn:Ha; rewrite ?andb_true_r, ?andb_false_r.
    + destruct (prunes rep); [reflexivity|]. cbn [flat_map]. unfold e1. cbn [d1_subs d1_files].
      rewrite is_nil_filter_nonempty, Ha, Hf. reflexivity.
    + cbn [flat_map]. unfold e1. cbn [d1_subs d1_files]. rewrite is_nil_filter_nonempty, Ha. cbn [andb].
      rewrite e2_filter_nonempty. destruct (prunes rep); reflexivity.
  - rewrite !andb_false_r. cbn [flat_map]. unfold e1. cbn [d1_subs d1_files]. rewrite Hf, andb_false_r.
    rewrite e2_filter_nonempty. destruct (prunes rep); reflexivity.
Qed.

Lemma forallb_map' {A B} (f : A -> B) (p : B -> bool) l : forallb p (map f l) = forallb (fun x => p (f x)) l.
Proof. induction l as [|a l IH]; cbn [map forallb]; [reflexivity|]. rewrite IH. reflexivity. Qed.
Lemma is_nil_map {A B} (f : A -> B) l : is_nil (map f l) = is_nil l.
Proof. destruct l; reflexivity. Qed.

Lemma residual_clean known d :
  residual FsRmdir (clean_d1 known d) = if cascades known d then [d1_id d] else [].
Proof.
  unfold residual, cascades, clean_d1. cbn [prunes d1_id d1_files d1_subs].
  rewrite is_nil_map, forallb_map'. reflexivity.
Qed.

Lemma second_empty_dirs rep s : removes_dir rep = true ->
  empty_dirs (tree (fixed rep s)) = flat_map (fun d => residual rep (clean_d1 (filenames s) d)) (root_subs (tree s)).
Proof.
  intros Hr. cbn [fixed tree]. unfold fixed_tree, empty_dirs, pass_empty, clean_fs. cbn [fst root_subs]. unfold keep.
  induction (root_subs (tree s)) as [|a l IH]; cbn [map flat_map]; [reflexivity|].
  rewrite flat_map_app', IH, (empty_d1_residual rep _ Hr). reflexivity.
Qed.

Lemma second_counters_clean rep s : count_warn (fixed rep s) = [] /\ size_warn (fixed rep s) = [].
Proof.
  unfold count_warn, size_warn. destruct (fixed_counters rep s) as [H1 H2]. rewrite H1, H2, !Z.eqb_refl. split; reflexivity.
Qed.

Lemma second_report rep s : rows_unique s -> removes_dir rep = true ->
  report (fixed rep s) = map WEmptyDir (flat_map (fun d => residual rep (clean_d1 (filenames s) d)) (root_subs (tree s))).
Proof.
  intros Hu Hr. unfold report. destruct (second_counters_clean rep s) as [H1 H2].
  rewrite (second_rows_clean rep s Hu), (second_unknown_clean rep s Hu), H1, H2, (second_empty_dirs rep s Hr), !app_nil_r.
  reflexivity.
Qed.

(* what the second check reported with the former repair os.rmdir (before commit 63db292), exactly *)
Lemma second_check_rmdir s : rows_unique s ->
  snd (check_with FsRmdir (fst (check_with FsRmdir s true)) false) = map WEmptyDir (cascade_dirs s).
Proof.
  intros Hu. rewrite check_with_true. cbn [fst]. rewrite check_with_false. cbn [snd].
  rewrite (second_report FsRmdir s Hu eq_refl). f_equal. unfold cascade_dirs.
  induction (root_subs (tree s)) as [|a l IH]; cbn [flat_map filter map]; [reflexivity|].
  rewrite residual_clean, IH. destruct (cascades (filenames s) a); reflexivity.
Qed.

Lemma second_check_rmdir_clean_iff s : rows_unique s ->
  (snd (check_with FsRmdir (fst (check_with FsRmdir s true)) false) = [] <->
   forall d, In d (root_subs (tree s)) -> cascades (filenames s) d = false).
Proof.
  intros Hu. rewrite (second_check_rmdir s Hu). unfold cascade_dirs. split.
  - intros H d Hd. destruct (cascades (filenames s) d) eqn:Hc; [|reflexivity]. exfalso.
    assert (Hin : In d (filter (cascades (filenames s)) (root_subs (tree s)))) by (apply filter_In; split; assumption).
    destruct (filter (cascades (filenames s)) (root_subs (tree s))); [destruct Hin|discriminate].
  - intros H. assert (E : filter (cascades (filenames s)) (root_subs (tree s)) = []); [|rewrite E; reflexivity].
    rewrite filter_as_flat_map. apply flat_map_nil. intros d Hd. rewrite (H d Hd). reflexivity.
Qed.

(* with os.removedirs (any parent left empty is pruned) the second check is always clean *)
Lemma second_check_patched s : rows_unique s ->
  snd (check_with FsRemovedirs (fst (check_with FsRemovedirs s true)) false) = [].
Proof.
  intros Hu. rewrite check_with_true. cbn [fst]. rewrite check_with_false. cbn [snd].
  rewrite (second_report FsRemovedirs s Hu eq_refl). rewrite flat_map_nil; [reflexivity|]. intros d _. reflexivity.
Qed.

(* ---------------- what is reported ---------------- *)
(* the inconsistencies of a state, stated without reference to check() *)
Inductive damage (s : state) : warning -> Prop :=
| DNotFound r f : In r (rows s) -> r_file r = Some f -> lookup_file (tree s) f = None -> damage s (WNotFound f)
| DWrongSize r f real : In r (rows s) -> r_file r = Some f -> lookup_file (tree s) f = Some real -> real <> r_size r ->
    damage s (WWrongSize f real (r_size r))
| DUnknown x : In x (all_files (tree s)) -> f_db x = false -> (forall r, In r (rows s) -> r_file r <> Some (f_id x)) ->
    damage s (WUnknown (f_id x))
| DEmpty1 d : In d (root_subs (tree s)) -> d1_subs d = [] -> d1_files d = [] -> damage s (WEmptyDir (d1_id d))
| DEmpty2 d d' : In d (root_subs (tree s)) -> In d' (d1_subs d) -> d2_files d' = [] -> damage s (WEmptyDir (d2_id d'))
| DCount : s_count s <> row_count s -> damage s (WCount (s_count s) (row_count s))
| DSize : s_size s <> row_sum s -> damage s (WSize (s_size s) (row_sum s)).

Lemma in_warn_rows s w :
  In w (flat_map (warn_row (tree s)) (rows s)) <->
  (exists r f, In r (rows s) /\ r_file r = Some f /\ lookup_file (tree s) f = None /\ w = WNotFound f) \/
  (exists r f real, In r (rows s) /\ r_file r = Some f /\ lookup_file (tree s) f = Some real /\ real <> r_size r
                    /\ w = WWrongSize f real (r_size r)).
Proof.
  rewrite in_flat_map. split.
  - intros [r [Hr Hw]]. unfold warn_row in Hw. destruct (r_file r) as [f|] eqn:Hf; [|destruct Hw].
    destruct (lookup_file (tree s) f) as [real|] eqn:Hl.
    + destruct (r_size r =? real) eqn:He; [destruct Hw|]. destruct Hw as [Hw|[]]. right. exists r, f, real.
      apply Z.eqb_neq in He. repeat split; try assumption; [|symmetry; exact Hw]. intros E. apply He. symmetry. exact E.
    + destruct Hw as [Hw|[]]. left. exists r, f. repeat split; try assumption. symmetry. exact Hw.
  - intros [[r [f [Hr [Hf [Hl Hw]]]]]|[r [f [real [Hr [Hf [Hl [Hne Hw]]]]]]]]; exists r; (split; [exact Hr|]);
      unfold warn_row; rewrite Hf, Hl.
    + left. symmetry. exact Hw.
    + destruct (r_size r =? real) eqn:He; [apply Z.eqb_eq in He; exfalso; apply Hne; symmetry; exact He|].
      left. symmetry. exact Hw.
Qed.

Lemma in_unknown_warns known l w :
  In w (unknown_warns known l) <-> exists x, In x l /\ unknown_file known x = true /\ w = WUnknown (f_id x).
Proof.
  unfold unknown_warns. rewrite in_map_iff. split.
  - intros [x [Hw Hx]]. apply filter_In in Hx. exists x. repeat split; [apply Hx|apply Hx|symmetry; exact Hw].
  - intros [x [Hx [Hu Hw]]]. exists x. split; [symmetry; exact Hw|apply filter_In; split; assumption].
Qed.

Lemma unknown_file_true s x :
  unknown_file (filenames s) x = true <-> f_db x = false /\ (forall r, In r (rows s) -> r_file r <> Some (f_id x)).
Proof.
  rewrite unknown_file_spec, andb_true_iff, !negb_true_iff. split.
  - intros [H1 H2]. split; [exact H2|]. intros r Hr Hf.
    assert (E : existsb (Z.eqb (f_id x)) (filenames s) = true).
    { apply existsb_Zeqb_In. apply In_filenames. exists r. split; assumption. }
    rewrite E in H1. discriminate.
  - intros [H1 H2]. split; [|exact H1]. destruct (existsb (Z.eqb (f_id x)) (filenames s)) eqn:E; [|reflexivity].
    apply existsb_Zeqb_In in E. apply In_filenames in E. destruct E as [r [Hr Hf]]. exfalso. apply (H2 r Hr Hf).
Qed.

Lemma in_empty_dirs t z :
  In z (empty_dirs t) <->
  (exists d, In d (root_subs t) /\ d1_subs d = [] /\ d1_files d = [] /\ z = d1_id d) \/
  (exists d d', In d (root_subs t) /\ In d' (d1_subs d) /\ d2_files d' = [] /\ z = d2_id d').
Proof.
  unfold empty_dirs. rewrite in_flat_map. split.
  - intros [d [Hd Hz]]. unfold e1 in Hz. destruct (is_nil (d1_subs d) && is_nil (d1_files d)) eqn:He.
    + apply andb_prop in He. destruct He as [H1 H2]. destruct Hz as [Hz|[]]. left. exists d.
      repeat split; [exact Hd|apply is_nil_true; exact H1|apply is_nil_true; exact H2|symmetry; exact Hz].
    + apply in_flat_map in Hz. destruct Hz as [d' [Hd' Hz]]. unfold e2 in Hz.
      destruct (is_nil (d2_files d')) eqn:H2; [|destruct Hz]. destruct Hz as [Hz|[]]. right. exists d, d'.
      repeat split; [exact Hd|exact Hd'|apply is_nil_true; exact H2|symmetry; exact Hz].
  - intros [[d [Hd [H1 [H2 Hz]]]]|[d [d' [Hd [Hd' [H2 Hz]]]]]]; exists d; (split; [exact Hd|]); unfold e1.
    + rewrite H1, H2. left. symmetry. exact Hz.
    + destruct (d1_subs d) as [|a l] eqn:Hs; [destruct Hd'|]. cbn [is_nil andb]. apply in_flat_map. exists d'.
      split; [exact Hd'|]. unfold e2. rewrite H2. left. symmetry. exact Hz.
Qed.

(* C17_reports_all, plain check: exactly the inconsistencies of the state *)
Lemma report_exact s w : In w (report s) <-> damage s w.
Proof.
  unfold report. rewrite !in_app_iff, in_warn_rows, in_unknown_warns, in_map_iff. split.
  - intros [[H|H]|[H|[H|[H|H]]]].
    + destruct H as [r [f [Hr [Hf [Hl Hw]]]]]. subst w. apply (DNotFound s r f); assumption.
    + destruct H as [r [f [real [Hr [Hf [Hl [Hne Hw]]]]]]]. subst w. apply (DWrongSize s r f real); assumption.
    + destruct H as [x [Hx [Hu Hw]]]. subst w. apply unknown_file_true in Hu. destruct Hu. apply DUnknown; assumption.
    + destruct H as [z [Hw Hz]]. subst w. apply in_empty_dirs in Hz.
      destruct Hz as [[d [Hd [H1 [H2 Hz]]]]|[d [d' [Hd [Hd' [H2 Hz]]]]]]; subst z.
      * apply DEmpty1; assumption.
      * apply (DEmpty2 s d d'); assumption.
    + unfold count_warn in H. destruct (s_count s =? row_count s) eqn:He; [destruct H|]. destruct H as [H|[]]. subst w.
      apply DCount. apply Z.eqb_neq. exact He.
    + unfold size_warn in H. destruct (s_size s =? row_sum s) eqn:He; [destruct H|]. destruct H as [H|[]]. subst w.
      apply DSize. apply Z.eqb_neq. exact He.
  - intros H. destruct H as [r f Hr Hf Hl|r f real Hr Hf Hl Hne|x Hx Hd Hn|d Hd H1 H2|d d' Hd Hd' H2|Hc|Hs].
    + left. left. exists r, f. repeat split; assumption.
    + left. right. exists r, f, real. repeat split; assumption.
    + right. left. exists x. repeat split; [exact Hx|]. apply unknown_file_true. split; assumption.
    + right. right. left. exists (d1_id d). split; [reflexivity|]. apply in_empty_dirs. left. exists d. repeat split; assumption.
    + right. right. left. exists (d2_id d'). split; [reflexivity|]. apply in_empty_dirs. right. exists d, d'. repeat split; assumption.
    + right. right. right. left. unfold count_warn. apply Z.eqb_neq in Hc. rewrite Hc. left. reflexivity.
    + right. right. right. right. unfold size_warn. apply Z.eqb_neq in Hs. rewrite Hs. left. reflexivity.
Qed.

(* directories that hold nothing but files the repair removes: the fixing run reports them as empty too *)
Inductive emptied (s : state) : Z -> Prop :=
| Em1 d : In d (root_subs (tree s)) -> d1_subs d = [] -> d1_files d <> [] ->
    (forall x, In x (d1_files d) -> unknown_file (filenames s) x = true) -> emptied s (d1_id d)
| Em2 d d' : In d (root_subs (tree s)) -> In d' (d1_subs d) -> d2_files d' <> [] ->
    (forall x, In x (d2_files d') -> unknown_file (filenames s) x = true) -> emptied s (d2_id d').

Lemma kept_nil known l : kept known l = [] -> forall x, In x l -> unknown_file known x = true.
Proof.
  unfold kept. induction l as [|a l IH]; intros H x Hx; [destruct Hx|]. cbn [filter] in H.
  destruct (unknown_file known a) eqn:Ha; cbn [negb] in H; [|discriminate].
  destruct Hx as [Hx|Hx]; [subst; exact Ha|apply IH; assumption].
Qed.
Lemma kept_of_nil known l : l = [] -> kept known l = [].
Proof. intros H. subst. reflexivity. Qed.

Lemma empty_dirs_clean_incl s z : In z (empty_dirs (tree s)) -> In z (empty_dirs (clean_fs (filenames s) (tree s))).
Proof.
  rewrite !in_empty_dirs. unfold clean_fs. cbn [root_subs].
  intros [[d [Hd [H1 [H2 Hz]]]]|[d [d' [Hd [Hd' [H2 Hz]]]]]].
  - left. exists (clean_d1 (filenames s) d). split; [apply in_map; exact Hd|]. unfold clean_d1. cbn [d1_subs d1_files d1_id].
    rewrite H1, H2. repeat split. exact Hz.
  - right. exists (clean_d1 (filenames s) d), (clean_d2 (filenames s) d'). split; [apply in_map; exact Hd|].
    split; [unfold clean_d1; cbn [d1_subs]; apply (in_map (clean_d2 (filenames s))); exact Hd'|].
    unfold clean_d2. cbn [d2_files d2_id]. rewrite H2. split; [reflexivity|exact Hz].
Qed.

Lemma empty_dirs_clean_only s z :
  In z (empty_dirs (clean_fs (filenames s) (tree s))) -> In z (empty_dirs (tree s)) \/ emptied s z.
Proof.
  rewrite !in_empty_dirs. unfold clean_fs. cbn [root_subs].
  intros [[c [Hc [H1 [H2 Hz]]]]|[c [c' [Hc [Hc' [H2 Hz]]]]]].
  - apply in_map_iff in Hc. destruct Hc as [d [E Hd]]. subst c. unfold clean_d1 in H1, H2, Hz. cbn [d1_subs d1_files d1_id] in *.
    assert (Hs : d1_subs d = []) by (destruct (d1_subs d); [reflexivity|discriminate]).
    destruct (d1_files d) as [|a l] eqn:Hf.
    + left. left. exists d. repeat split; assumption.
    + right. subst z. apply Em1; [exact Hd|exact Hs|rewrite Hf; discriminate|]. rewrite Hf. apply kept_nil. exact H2.
  - apply in_map_iff in Hc. destruct Hc as [d [E Hd]]. subst c. unfold clean_d1 in Hc'. cbn [d1_subs] in Hc'.
    apply in_map_iff in Hc'. destruct Hc' as [d' [E Hd']]. subst c'. unfold clean_d2 in H2, Hz. cbn [d2_files d2_id] in *.
    destruct (d2_files d') as [|a l] eqn:Hf.
    + left. right. exists d, d'. repeat split; assumption.
    + right. subst z. apply (Em2 s d d'); [exact Hd|exact Hd'|rewrite Hf; discriminate|]. rewrite Hf. apply kept_nil. exact H2.
Qed.

Lemma count_warn_key s s' : cdiff s' = cdiff s -> map wkey (count_warn s') = map wkey (count_warn s).
Proof.
  unfold cdiff, count_warn. intros H.
  destruct (s_count s' =? row_count s') eqn:E1; destruct (s_count s =? row_count s) eqn:E2; try reflexivity;
    rewrite ?Z.eqb_eq, ?Z.eqb_neq in *; lia.
Qed.
Lemma size_warn_key s s' : sdiff s' = sdiff s -> map wkey (size_warn s') = map wkey (size_warn s).
Proof.
  unfold sdiff, size_warn. intros H.
  destruct (s_size s' =? row_sum s') eqn:E1; destruct (s_size s =? row_sum s) eqn:E2; try reflexivity;
    rewrite ?Z.eqb_eq, ?Z.eqb_neq in *; lia.
Qed.

(* C17_reports_all, fixing check, and the "same inconsistencies" clause of C17_plain_pure:
   compared by (kind, name), the fixing run reports what the plain run reports plus the directories
   its own removals emptied *)
Lemma report_fix_keys s k :
  In k (map wkey (report_fix s)) <->
  In k (map wkey (report s)) \/ exists z, k = wkey (WEmptyDir z) /\ emptied s z.
Proof.
  unfold report_fix, report. rewrite !map_app, !in_app_iff.
  destruct (pass_rows_diffs true s) as [Hc Hs]. fold (after_rows s) in Hc, Hs.
  rewrite (count_warn_key s (after_rows s) Hc), (size_warn_key s (after_rows s) Hs). split.
  - intros [H|[H|[H|H]]].
    + left. left. exact H.
    + left. right. left. exact H.
    + apply in_map_iff in H. destruct H as [w [Hk Hw]]. apply in_map_iff in Hw. destruct Hw as [z [Hw Hz]]. subst w k.
      apply empty_dirs_clean_only in Hz. destruct Hz as [Hz|Hz].
      * left. right. right. left. apply in_map. apply in_map. exact Hz.
      * right. exists z. split; [reflexivity|exact Hz].
    + left. right. right. right. exact H.
  - intros [[H|[H|[H|H]]]|[z [Hk Hz]]].
    + left. exact H.
    + right. left. exact H.
    + right. right. left. apply in_map_iff in H. destruct H as [w [Hk Hw]]. apply in_map_iff in Hw. destruct Hw as [z [Hw Hz]].
      subst w k. apply in_map. apply in_map. apply empty_dirs_clean_incl. exact Hz.
    + right. right. right. exact H.
    + right. right. left. subst k. apply in_map. apply in_map. apply in_empty_dirs.
      destruct Hz as [d Hd H1 H2 H3|d d' Hd Hd' H2 H3].
      * left. exists (clean_d1 (filenames s) d). unfold clean_fs, clean_d1. cbn [root_subs d1_subs d1_files d1_id].
        split; [apply (in_map (clean_d1 (filenames s))) in Hd; exact Hd|]. rewrite H1. repeat split.
        unfold kept. rewrite filter_as_flat_map. apply flat_map_nil. intros x Hx. rewrite (H3 x Hx). reflexivity.
      * right. exists (clean_d1 (filenames s) d), (clean_d2 (filenames s) d'). unfold clean_fs. cbn [root_subs].
        split; [apply in_map; exact Hd|].
        split; [unfold clean_d1; cbn [d1_subs]; apply (in_map (clean_d2 (filenames s))); exact Hd'|].
        unfold clean_d2. cbn [d2_files d2_id]. split; [|reflexivity].
        unfold kept. rewrite filter_as_flat_map. apply flat_map_nil. intros x Hx. rewrite (H3 x Hx). reflexivity.
Qed.

(* ---------------- FanoutCache.check ---------------- *)
Lemma check_fanout_spec ss fx :
  check_fanout ss fx = (map (fun s => fst (check1 s fx)) ss, flat_map (fun s => snd (check1 s fx)) ss).
Proof.
  unfold check_fanout. destruct bridge_fanout_check as [H1 H2]. rewrite H1, H2. rewrite map_map, flat_map_map. reflexivity.
Qed.

(* ---------------- the witness of finding D16 ---------------- *)
(* one intact file-backed item (row 1 -> file 10 of 10 bytes in 1/2), a stray file 20 in 3/4, an empty
   directory 6 inside 5; counters consistent *)
Definition d16_state : state :=
  {| rows := [ {| r_id := 1; r_size := 10; r_file := Some 10 |} ]; s_count := 1; s_size := 10;
     tree := {| root_files := [];
                root_subs := [ {| d1_id := 1; d1_files := []; d1_subs := [ {| d2_id := 2; d2_files := [ {| f_id := 10; f_size := 10; f_db := false |} ] |} ] |};
                               {| d1_id := 3; d1_files := []; d1_subs := [ {| d2_id := 4; d2_files := [ {| f_id := 20; f_size := 1; f_db := false |} ] |} ] |};
                               {| d1_id := 5; d1_files := []; d1_subs := [ {| d2_id := 6; d2_files := [] |} ] |} ] |} |}.

Lemma d16_unique : rows_unique d16_state.
Proof. unfold rows_unique. cbn. constructor; [intros []|constructor]. Qed.

Lemma d16_first : snd (check1 d16_state true) = [WUnknown 20; WEmptyDir 4; WEmptyDir 6].
Proof. vm_compute. reflexivity. Qed.

(* regression: with the former repair os.rmdir the second check reported the emptied parents 3 and 5 *)
Lemma d16_second_rmdir : snd (check_with FsRmdir (fst (check_with FsRmdir d16_state true)) false) = [WEmptyDir 3; WEmptyDir 5].
Proof. vm_compute. reflexivity. Qed.

Lemma d16_second : snd (check1 (fst (check1 d16_state true)) false) = []
  /\ root_subs (tree (fst (check1 d16_state true))) =
     [ {| d1_id := 1; d1_files := []; d1_subs := [ {| d2_id := 2; d2_files := [ {| f_id := 10; f_size := 10; f_db := false |} ] |} ] |} ].
Proof. split; vm_compute; reflexivity. Qed.

(* the hypotheses of the positive statements are satisfiable by damaged states *)
Definition ok_state : state :=
  {| rows := [ {| r_id := 1; r_size := 10; r_file := Some 10 |}; {| r_id := 2; r_size := 7; r_file := Some 11 |};
               {| r_id := 3; r_size := 0; r_file := None |}; {| r_id := 4; r_size := 3; r_file := Some 12 |} ];
     s_count := 9; s_size := 1;
     tree := {| root_files := [ {| f_id := 30; f_size := 1; f_db := false |} ];
                root_subs := [ {| d1_id := 1; d1_files := [ {| f_id := 31; f_size := 2; f_db := false |} ];
                                  d1_subs := [ {| d2_id := 2; d2_files := [ {| f_id := 10; f_size := 10; f_db := false |};
                                                                              {| f_id := 11; f_size := 5; f_db := false |};
                                                                              {| f_id := 32; f_size := 5; f_db := false |} ] |};
                                               {| d2_id := 3; d2_files := [] |} ] |};
                               {| d1_id := 4; d1_files := []; d1_subs := [] |} ] |} |}.
Lemma ok_state_example :
  rows_unique ok_state /\ length (snd (check1 ok_state true)) = 9%nat /\ snd (check1 (fst (check1 ok_state true)) false) = [].
Proof.
  split; [|split].
  - unfold rows_unique. cbn. repeat constructor; cbn; intuition discriminate.
  - vm_compute. reflexivity.
  - vm_compute. reflexivity.
Qed.

(* ---------------- the statements of props/C17.v, about check1 itself ---------------- *)
Lemma check1_plain_pure s : fst (check1 s false) = s.
Proof. rewrite check1_false. reflexivity. Qed.
Lemma check1_reports_all s w : In w (snd (check1 s false)) <-> damage s w.
Proof. rewrite check1_false. exact (report_exact s w). Qed.
Lemma check1_fix_reports_same s k :
  In k (map wkey (snd (check1 s true))) <->
  In k (map wkey (snd (check1 s false))) \/ exists z, k = wkey (WEmptyDir z) /\ emptied s z.
Proof. rewrite check1_true, check1_false. exact (report_fix_keys s k). Qed.
Lemma check1_readable s : rows_unique s ->
  forall r f, In r (rows (fst (check1 s true))) -> r_file r = Some f ->
  lookup_file (tree (fst (check1 s true))) f = Some (r_size r).
Proof. intros Hu. rewrite check1_true. exact (fixed_readable FsRemovedirs s Hu). Qed.
Lemma check1_preserves s : rows_unique s ->
  (forall r, In r (rows s) -> row_ok s r ->
     In r (rows (fst (check1 s true))) /\
     forall f, r_file r = Some f -> lookup_file (tree (fst (check1 s true))) f = lookup_file (tree s) f) /\
  (forall x, In x (all_files (tree s)) -> file_owned s x -> In x (all_files (tree (fst (check1 s true))))).
Proof. intros Hu. rewrite check1_true. exact (fixed_preserves FsRemovedirs s Hu). Qed.
Lemma check1_counters_fixed s :
  s_count (fst (check1 s true)) = row_count (fst (check1 s true)) /\
  s_size (fst (check1 s true)) = row_sum (fst (check1 s true)).
Proof. rewrite check1_true. exact (fixed_counters FsRemovedirs s). Qed.

(* C17_converges: the second check after a fixing check reports nothing *)
Lemma check1_converges s : rows_unique s -> snd (check1 (fst (check1 s true)) false) = [].
Proof. intros Hu. unfold check1. rewrite bridge_repair_empty. exact (second_check_patched s Hu). Qed.
