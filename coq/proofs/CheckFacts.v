(* Facts about Cache.check / FanoutCache.check (C17).  Bridge lemmas first: they are the only statements
   that look inside gen/Gen_Check.v. *)
From DC Require Import DCPrelude CheckBase Gen_Check Check.

(* ---------------- bridge lemmas ---------------- *)
Lemma bridge_g_wrong_size a b : g_wrong_size a b = negb (a =? b).
Proof. reflexivity. Qed.
Lemma bridge_g_fix_wrong_size fx : g_fix_wrong_size fx = fx.
Proof. reflexivity. Qed.
Lemma bridge_repair_wrong_size : repair_wrong_size = RowSetSize SrcRealSize.
Proof. reflexivity. Qed.
Lemma bridge_g_fix_not_found fx : g_fix_not_found fx = fx.
Proof. reflexivity. Qed.
Lemma bridge_repair_not_found : repair_not_found = RowDelete.
Proof. reflexivity. Qed.
Lemma bridge_walks : walk_unknown = TopDown /\ walk_empty = TopDown.
Proof. split; reflexivity. Qed.
Lemma bridge_g_skip_unknown x : g_skip_unknown x = f_db x.
Proof. reflexivity. Qed.
Lemma bridge_g_fix_unknown fx : g_fix_unknown fx = fx.
Proof. reflexivity. Qed.
Lemma bridge_repair_unknown : repair_unknown = FsRemoveFile.
Proof. reflexivity. Qed.
Lemma bridge_g_empty_dir {A B} (dirs : list A) (files : list B) : g_empty_dir dirs files = is_nil dirs && is_nil files.
Proof. destruct dirs; destruct files; reflexivity. Qed.
Lemma bridge_g_fix_empty fx : g_fix_empty fx = fx.
Proof. reflexivity. Qed.
Lemma bridge_repair_empty : repair_empty = FsRmdir.
Proof. reflexivity. Qed.
Lemma bridge_g_count_wrong a b : g_count_wrong a b = negb (a =? b).
Proof. reflexivity. Qed.
Lemma bridge_g_size_wrong a b : g_size_wrong a b = negb (a =? b).
Proof. reflexivity. Qed.
Lemma bridge_g_fix_count fx : g_fix_count fx = fx.
Proof. reflexivity. Qed.
Lemma bridge_g_fix_size fx : g_fix_size fx = fx.
Proof. reflexivity. Qed.
Lemma bridge_repair_count : repair_count = CtrSet CCount SrcCounted.
Proof. reflexivity. Qed.
Lemma bridge_repair_size : repair_size = CtrSet CSize SrcCounted.
Proof. reflexivity. Qed.
Lemma bridge_check_passes : check_passes = [PassRows; PassUnknown; PassEmpty; PassCount; PassSize].
Proof. reflexivity. Qed.
Lemma bridge_fanout_check : fanout_check_passes_fix = true /\ fanout_check_in_shard_order = true.
Proof. split; reflexivity. Qed.

(* ---------------- list helpers ---------------- *)
Lemma flat_map_app' {A B} (f : A -> list B) l1 l2 : flat_map f (l1 ++ l2) = flat_map f l1 ++ flat_map f l2.
Proof. induction l1 as [|a l1 IH]; cbn [flat_map app]; [reflexivity|]. rewrite IH, app_assoc. reflexivity. Qed.

Lemma filter_true {A} (l : list A) : filter (fun _ => true) l = l.
Proof. induction l as [|a l IH]; cbn; [reflexivity|]. rewrite IH. reflexivity. Qed.

Lemma filter_flat_map {A B} (p : B -> bool) (f : A -> list B) l :
  filter p (flat_map f l) = flat_map (fun x => filter p (f x)) l.
Proof. induction l as [|a l IH]; cbn [flat_map]; [reflexivity|]. rewrite filter_app, IH. reflexivity. Qed.

Lemma sumZ_app l1 l2 : sumZ (l1 ++ l2) = sumZ l1 + sumZ l2.
Proof. induction l1 as [|a l1 IH]; cbn [sumZ app]; [reflexivity|]. rewrite IH. lia. Qed.

Lemma find_filter_keep {A} (p q : A -> bool) l :
  (forall x, In x l -> p x = true -> q x = true) -> find p (filter q l) = find p l.
Proof.
  induction l as [|a l IH]; intros H; cbn [filter find]; [reflexivity|].
  destruct (q a) eqn:Hq; cbn [find].
  - destruct (p a); [reflexivity|]. apply IH. intros x Hx. apply H. right. exact Hx.
  - destruct (p a) eqn:Hp.
    + rewrite (H a (or_introl eq_refl) Hp) in Hq. discriminate.
    + apply IH. intros x Hx. apply H. right. exact Hx.
Qed.

Lemma flat_map_ext_in' {A B} (f g : A -> list B) l : (forall x, In x l -> f x = g x) -> flat_map f l = flat_map g l.
Proof.
  induction l as [|a l IH]; intros H; cbn [flat_map]; [reflexivity|].
  rewrite (H a (or_introl eq_refl)), IH; [reflexivity|]. intros x Hx. apply H. right. exact Hx.
Qed.

Lemma existsb_Zeqb_In (z : Z) l : existsb (Z.eqb z) l = true <-> In z l.
Proof.
  rewrite existsb_exists. split.
  - intros [x [Hx He]]. apply Z.eqb_eq in He. subst. exact Hx.
  - intros H. exists z. split; [exact H|apply Z.eqb_refl].
Qed.

(* ---------------- pass 1: rows against files ---------------- *)
Definition rows_unique (s : state) : Prop := NoDup (map r_id (rows s)).

(* what the pass reports for one row / what it leaves of one row *)
Definition warn_row (t : fs) (r : row) : list warning :=
  match r_file r with
  | None => []
  | Some f => match lookup_file t f with
              | None => [WNotFound f]
              | Some real => if r_size r =? real then [] else [WWrongSize f real (r_size r)]
              end
  end.
Definition fixrow (t : fs) (r : row) : list row :=
  match r_file r with
  | None => [r]
  | Some f => match lookup_file t f with
              | None => []
              | Some real => if r_size r =? real then [r] else [set_size r real]
              end
  end.

Lemma step_row_warns fx t c r : snd (step_row fx t c r) = snd c ++ warn_row t r.
Proof.
  unfold step_row, warn_row. destruct (r_file r) as [f|]; [|rewrite app_nil_r; reflexivity].
  destruct (lookup_file t f) as [real|]; [|reflexivity].
  rewrite bridge_g_wrong_size. destruct (r_size r =? real); cbn [negb snd]; [rewrite app_nil_r|]; reflexivity.
Qed.

Lemma fold_step_warns fx t l : forall c,
  snd (fold_left (step_row fx t) l c) = snd c ++ flat_map (warn_row t) l.
Proof.
  induction l as [|r l IH]; intros c; cbn [fold_left flat_map]; [rewrite app_nil_r; reflexivity|].
  rewrite IH, step_row_warns, app_assoc. reflexivity.
Qed.

Lemma warn_row_nofile t r : has_file r = false -> warn_row t r = [].
Proof. unfold has_file, warn_row. destruct (r_file r); [discriminate|reflexivity]. Qed.

Lemma flat_map_filter_nil {A B} (p : A -> bool) (f : A -> list B) l :
  (forall x, p x = false -> f x = []) -> flat_map f (filter p l) = flat_map f l.
Proof.
  intros H. induction l as [|a l IH]; cbn [filter flat_map]; [reflexivity|].
  destruct (p a) eqn:Hp; cbn [flat_map]; rewrite IH; [reflexivity|]. rewrite (H a Hp). reflexivity.
Qed.

Lemma pass_rows_warns fx s : snd (pass_rows fx s) = flat_map (warn_row (tree s)) (rows s).
Proof.
  unfold pass_rows, snapshot. rewrite fold_step_warns. cbn [snd app].
  apply flat_map_filter_nil. intros x Hx. apply warn_row_nofile. exact Hx.
Qed.

Lemma step_row_false t c r : fst (step_row false t c r) = fst c.
Proof.
  unfold step_row. destruct (r_file r) as [f|]; [|reflexivity].
  destruct (lookup_file t f) as [real|]; [|reflexivity].
  destruct (g_wrong_size (r_size r) real); reflexivity.
Qed.

Lemma pass_rows_false s : fst (pass_rows false s) = s.
Proof.
  unfold pass_rows. generalize (snapshot s). intros l.
  assert (H : forall c, fst (fold_left (step_row false (tree s)) l c) = fst c).
  { induction l as [|r l IH]; intros c; cbn [fold_left]; [reflexivity|]. rewrite IH. apply step_row_false. }
  apply H.
Qed.

(* the effect of the step of snapshot row r on one current row x *)
Definition act (t : fs) (r x : row) : list row :=
  match r_file r with
  | None => [x]
  | Some f => match lookup_file t f with
              | Some real => if r_size r =? real then [x]
                             else if r_id x =? r_id r then [set_size x real] else [x]
              | None => if r_id x =? r_id r then [] else [x]
              end
  end.

Lemma map_as_flat_map {A B} (f : A -> B) l : map f l = flat_map (fun x => [f x]) l.
Proof. induction l as [|a l IH]; cbn; [reflexivity|]. rewrite IH. reflexivity. Qed.
Lemma filter_as_flat_map {A} (p : A -> bool) l : filter p l = flat_map (fun x => if p x then [x] else []) l.
Proof. induction l as [|a l IH]; cbn; [reflexivity|]. rewrite IH. destruct (p a); reflexivity. Qed.

Lemma step_row_rows t c r : rows (fst (step_row true t c r)) = flat_map (act t r) (rows (fst c)).
Proof.
  unfold step_row, act. destruct (r_file r) as [f|].
  2:{ rewrite <- map_as_flat_map, map_id. reflexivity. }
  destruct (lookup_file t f) as [real|].
  - rewrite bridge_g_wrong_size. destruct (r_size r =? real); cbn [negb fst].
    + rewrite <- map_as_flat_map, map_id. reflexivity.
    + rewrite bridge_g_fix_wrong_size, bridge_repair_wrong_size. cbn [apply_row_repair rows].
      rewrite map_as_flat_map. apply flat_map_ext. intros x. destruct (r_id x =? r_id r); reflexivity.
  - cbn [fst]. rewrite bridge_g_fix_not_found, bridge_repair_not_found. cbn [apply_row_repair rows].
    rewrite filter_as_flat_map. apply flat_map_ext. intros x. destruct (r_id x =? r_id r); reflexivity.
Qed.

Lemma step_row_tree fx t c r : tree (fst (step_row fx t c r)) = tree (fst c).
Proof.
  unfold step_row. destruct (r_file r) as [f|]; [|reflexivity].
  destruct (lookup_file t f) as [real|].
  - destruct (g_wrong_size (r_size r) real); [|reflexivity]. cbn [fst].
    destruct (g_fix_wrong_size fx); [|reflexivity]. rewrite bridge_repair_wrong_size. reflexivity.
  - cbn [fst]. destruct (g_fix_not_found fx); [|reflexivity]. rewrite bridge_repair_not_found. reflexivity.
Qed.

(* the triggers keep  Settings.count - COUNT  and  Settings.size - SUM(size)  unchanged *)
Definition cdiff (s : state) : Z := s_count s - row_count s.
Definition sdiff (s : state) : Z := s_size s - row_sum s.

Lemma length_filter_split {A} (p : A -> bool) l :
  Z.of_nat (length (filter (fun x => negb (p x)) l)) = Z.of_nat (length l) - Z.of_nat (length (filter p l)).
Proof.
  induction l as [|a l IH]; cbn [filter length]; [reflexivity|].
  destruct (p a); cbn [negb length]; lia.
Qed.
Lemma sum_filter_split (p : row -> bool) l :
  sumZ (map r_size (filter (fun x => negb (p x)) l)) = sumZ (map r_size l) - sumZ (map r_size (filter p l)).
Proof.
  induction l as [|a l IH]; cbn [filter map sumZ]; [reflexivity|].
  destruct (p a); cbn [negb map sumZ]; lia.
Qed.
Lemma sum_map_set (p : row -> bool) v l :
  sumZ (map r_size (map (fun x => if p x then set_size x v else x) l))
  = sumZ (map r_size l) + sumZ (map (fun x => v - r_size x) (filter p l)).
Proof.
  induction l as [|a l IH]; cbn [filter map sumZ]; [reflexivity|].
  destruct (p a); cbn [map sumZ set_size r_size]; lia.
Qed.

Lemma apply_row_repair_diffs rep rowid real recorded s :
  cdiff (apply_row_repair rep rowid real recorded s) = cdiff s /\
  sdiff (apply_row_repair rep rowid real recorded s) = sdiff s.
Proof.
  unfold cdiff, sdiff, row_count, row_sum. destruct rep as [src| |]; cbn [apply_row_repair rows s_count s_size].
  - rewrite map_length, sum_map_set. split; lia.
  - rewrite (length_filter_split (fun x => r_id x =? rowid)), (sum_filter_split (fun x => r_id x =? rowid)). split; lia.
  - split; reflexivity.
Qed.

Lemma step_row_diffs fx t c r :
  cdiff (fst (step_row fx t c r)) = cdiff (fst c) /\ sdiff (fst (step_row fx t c r)) = sdiff (fst c).
Proof.
  unfold step_row. destruct (r_file r) as [f|]; [|split; reflexivity].
  destruct (lookup_file t f) as [real|].
  - destruct (g_wrong_size (r_size r) real); [|split; reflexivity]. cbn [fst].
    destruct (g_fix_wrong_size fx); [apply apply_row_repair_diffs|split; reflexivity].
  - cbn [fst]. destruct (g_fix_not_found fx); [apply apply_row_repair_diffs|split; reflexivity].
Qed.

Lemma pass_rows_diffs fx s : cdiff (fst (pass_rows fx s)) = cdiff s /\ sdiff (fst (pass_rows fx s)) = sdiff s.
Proof.
  unfold pass_rows. generalize (snapshot s). intros l.
  assert (H : forall c, cdiff (fst (fold_left (step_row fx (tree s)) l c)) = cdiff (fst c)
                     /\ sdiff (fst (fold_left (step_row fx (tree s)) l c)) = sdiff (fst c)).
  { induction l as [|r l IH]; intros c; cbn [fold_left]; [split; reflexivity|].
    destruct (IH (step_row fx (tree s) c r)) as [H1 H2]. destruct (step_row_diffs fx (tree s) c r) as [H3 H4].
    split; congruence. }
  apply (H (s, [])).
Qed.

Lemma pass_rows_tree fx s : tree (fst (pass_rows fx s)) = tree s.
Proof.
  unfold pass_rows. generalize (snapshot s). intros l.
  assert (H : forall c, tree (fst (fold_left (step_row fx (tree s)) l c)) = tree (fst c)).
  { induction l as [|r l IH]; intros c; cbn [fold_left]; [reflexivity|]. rewrite IH. apply step_row_tree. }
  apply (H (s, [])).
Qed.

(* all steps of a snapshot applied to a list of current rows *)
Definition touch (t : fs) (l : list row) (xs : list row) : list row :=
  fold_left (fun xs r => flat_map (act t r) xs) l xs.

Lemma fold_step_rows t l : forall c, rows (fst (fold_left (step_row true t) l c)) = touch t l (rows (fst c)).
Proof.
  unfold touch. induction l as [|r l IH]; intros c; cbn [fold_left]; [reflexivity|].
  rewrite IH, step_row_rows. reflexivity.
Qed.

Lemma touch_app t l : forall a b, touch t l (a ++ b) = touch t l a ++ touch t l b.
Proof.
  unfold touch. induction l as [|r l IH]; intros a b; cbn [fold_left]; [reflexivity|].
  rewrite flat_map_app', IH. reflexivity.
Qed.
Lemma touch_nil t l : touch t l [] = [].
Proof. unfold touch. induction l as [|r l IH]; cbn [fold_left flat_map]; [reflexivity|exact IH]. Qed.
Lemma touch_flat t l xs : touch t l xs = flat_map (fun x => touch t l [x]) xs.
Proof.
  induction xs as [|x xs IH]; cbn [flat_map]; [apply touch_nil|].
  change (x :: xs) with ([x] ++ xs). rewrite touch_app, IH. reflexivity.
Qed.

Lemma act_other t r y : (r_id y =? r_id r) = false -> act t r y = [y].
Proof.
  intros H. unfold act. destruct (r_file r) as [f|]; [|reflexivity].
  destruct (lookup_file t f) as [real|]; rewrite H; [destruct (r_size r =? real)|]; reflexivity.
Qed.

Lemma touch_other t l : forall ys, (forall r y, In r l -> In y ys -> (r_id y =? r_id r) = false) -> touch t l ys = ys.
Proof.
  unfold touch. induction l as [|r l IH]; intros ys H; cbn [fold_left]; [reflexivity|].
  assert (E : flat_map (act t r) ys = ys).
  { clear IH. induction ys as [|y ys IHy]; cbn [flat_map]; [reflexivity|].
    rewrite (act_other t r y).
    - cbn [app]. rewrite IHy; [reflexivity|]. intros r' y' Hr Hy. apply H; [exact Hr|right; exact Hy].
    - apply H; left; reflexivity. }
  rewrite E. apply IH. intros r' y Hr Hy. apply H; [right; exact Hr|exact Hy].
Qed.

Lemma act_self t x : act t x x = fixrow t x.
Proof.
  unfold act, fixrow. destruct (r_file x) as [f|]; [|reflexivity].
  destruct (lookup_file t f) as [real|]; rewrite Z.eqb_refl; reflexivity.
Qed.

Lemma fixrow_ids t x y : In y (fixrow t x) -> r_id y = r_id x.
Proof.
  unfold fixrow. destruct (r_file x) as [f|].
  - destruct (lookup_file t f) as [real|]; [|intros []].
    destruct (r_size x =? real); intros [H|[]]; subst; reflexivity.
  - intros [H|[]]; subst; reflexivity.
Qed.

Lemma fixrow_nofile t x : has_file x = false -> fixrow t x = [x].
Proof. unfold has_file, fixrow. destruct (r_file x); [discriminate|reflexivity]. Qed.

Lemma touch_one t l : forall x,
  NoDup (map r_id l) -> (forall r, In r l -> r_id r = r_id x -> r = x) ->
  touch t l [x] = if existsb (fun r => r_id r =? r_id x) l then fixrow t x else [x].
Proof.
  induction l as [|r l IH]; intros x Hnd Hsame; [reflexivity|].
  cbn [existsb]. inversion Hnd as [|a m Hnot Hnd' E]; subst.
  destruct (r_id r =? r_id x) eqn:Hid; cbn [orb].
  - apply Z.eqb_eq in Hid. assert (r = x) by (apply Hsame; [left; reflexivity|exact Hid]). subst r.
    unfold touch. cbn [fold_left flat_map]. rewrite app_nil_r, act_self.
    apply touch_other. intros r y Hr Hy. apply fixrow_ids in Hy. rewrite Hy. apply Z.eqb_neq. intros Heq.
    apply Hnot. rewrite Heq. apply in_map. exact Hr.
  - unfold touch. cbn [fold_left flat_map]. rewrite app_nil_r, act_other.
    + apply IH; [exact Hnd'|]. intros r' Hr'. apply Hsame. right. exact Hr'.
    + rewrite Z.eqb_sym. exact Hid.
Qed.

Lemma NoDup_map_filter {A B} (f : A -> B) (p : A -> bool) l : NoDup (map f l) -> NoDup (map f (filter p l)).
Proof.
  induction l as [|a l IH]; intros H; cbn [filter map]; [constructor|].
  inversion H as [|b m Hnot Hnd E]; subst. destruct (p a); cbn [map]; [|apply IH; exact Hnd].
  constructor; [|apply IH; exact Hnd]. intros Hin. apply Hnot.
  apply in_map_iff in Hin. destruct Hin as [y [Hy Hin]]. apply filter_In in Hin. rewrite <- Hy. apply in_map. apply Hin.
Qed.

Lemma unique_same_id (l : list row) x r : NoDup (map r_id l) -> In x l -> In r l -> r_id r = r_id x -> r = x.
Proof.
  induction l as [|a l IH]; intros Hnd Hx Hr Hid; [destruct Hx|].
  inversion Hnd as [|b m Hnot Hnd' E]; subst.
  destruct Hx as [Hx|Hx]; destruct Hr as [Hr|Hr]; subst.
  - reflexivity.
  - exfalso. apply Hnot. rewrite <- Hid. apply in_map. exact Hr.
  - exfalso. apply Hnot. rewrite Hid. apply in_map. exact Hx.
  - apply IH; assumption.
Qed.

Lemma pass_rows_rows s : rows_unique s -> rows (fst (pass_rows true s)) = flat_map (fixrow (tree s)) (rows s).
Proof.
  intros Hu. unfold pass_rows. rewrite fold_step_rows. cbn [fst]. rewrite touch_flat.
  apply flat_map_ext_in'. intros x Hx. unfold snapshot.
  rewrite touch_one.
  - destruct (existsb (fun r => r_id r =? r_id x) (filter has_file (rows s))) eqn:He; [reflexivity|].
    symmetry. apply fixrow_nofile. destruct (has_file x) eqn:Hf; [|reflexivity].
    exfalso. assert (Hc : existsb (fun r => r_id r =? r_id x) (filter has_file (rows s)) = true).
    { apply existsb_exists. exists x. split; [apply filter_In; split; assumption|apply Z.eqb_refl]. }
    rewrite Hc in He. discriminate.
  - apply NoDup_map_filter. exact Hu.
  - intros r Hr Hid. apply filter_In in Hr. apply (unique_same_id (rows s)); try assumption. apply Hr.
Qed.
