(* Bridge lemmas for the generated lookup statements and expiry guards: what the hand-written proofs
   need from gen/Gen_Sql.v.  A flipped comparison in a SQL string or in an `if` of core.py lands here. *)
From DC Require Import DCPrelude DCPreludeFacts Val DiskBase SqlBase Gen_Disk Disk Gen_Sql Cache.

Definition key_match (dbk : sqlval) (rawz : Z) (r : row) : bool :=
  truthy (tv_and (sql_eq (rkey r) dbk) (tvz_eq (b2z (rraw r)) rawz)).

(* an item is live strictly before its expiry time; items without one never expire *)
Definition live_opt (now : Z) (e : option Z) : bool := match e with None => true | Some x => now <? x end.
Definition live_at (now : Z) (r : row) : bool := live_opt now (expire_time r).
(* its expiry time has passed (strictly): what expire() and the lazy cull may remove *)
Definition passed_opt (now : Z) (e : option Z) : bool := match e with None => false | Some x => x <? now end.
Definition passed (now : Z) (r : row) : bool := passed_opt now (expire_time r).

Lemma truthy_and a b : truthy (tv_and a b) = truthy a && truthy b.
Proof. destruct a as [[]|], b as [[]|]; reflexivity. Qed.

Lemma truthy_live now e : truthy (tv_or (Some (is_none e)) (tvo_gt e now)) = live_opt now e.
Proof. destruct e as [x|]; cbn; [|reflexivity]. rewrite Z.gtb_ltb. destruct (now <? x); reflexivity. Qed.

Lemma bridge_set_select k rz t : set_select k rz t = filter (key_match k rz) t.
Proof. reflexivity. Qed.
Lemma bridge_add_select k rz t : add_select k rz t = filter (key_match k rz) t.
Proof. reflexivity. Qed.
Lemma bridge_touch_select k rz t : touch_select k rz t = filter (key_match k rz) t.
Proof. reflexivity. Qed.
Lemma bridge_incr_select k rz t : incr_select k rz t = filter (key_match k rz) t.
Proof. reflexivity. Qed.

Lemma bridge_get_select k rz now t :
  get_select k rz now t = filter (fun r => key_match k rz r && live_at now r) t.
Proof.
  unfold get_select. apply filter_ext. intros r. rewrite truthy_and, truthy_live. reflexivity.
Qed.
Lemma bridge_contains_select k rz now t :
  contains_select k rz now t = filter (fun r => key_match k rz r && live_at now r) t.
Proof.
  unfold contains_select. apply filter_ext. intros r. rewrite truthy_and, truthy_live. reflexivity.
Qed.
Lemma bridge_pop_select k rz now t :
  pop_select k rz now t = filter (fun r => key_match k rz r && live_at now r) t.
Proof.
  unfold pop_select. apply filter_ext. intros r. rewrite truthy_and, truthy_live. reflexivity.
Qed.
Lemma bridge_del_select k rz now t :
  del_select k rz now t = filter (fun r => key_match k rz r && live_at now r) t.
Proof.
  unfold del_select. apply filter_ext. intros r. rewrite truthy_and, truthy_live. reflexivity.
Qed.

Lemma bridge_add_live e now : add_live e now = live_opt now e.
Proof. destruct e as [x|]; cbn; [|reflexivity]. rewrite Z.gtb_ltb. reflexivity. Qed.
Lemma bridge_touch_live e now : touch_live e now = live_opt now e.
Proof. destruct e as [x|]; cbn; [|reflexivity]. rewrite Z.gtb_ltb. reflexivity. Qed.

(* incr / pull / peek / peekitem: "expired" is exactly "not live" (so now = expire_time is expired) *)
Lemma bridge_incr_expired e now : incr_expired e now = negb (live_opt now e).
Proof. destruct e as [x|]; cbn; [|reflexivity]. destruct (Z.leb_spec x now), (Z.ltb_spec now x); auto; lia. Qed.
Lemma bridge_pull_expired e now : pull_expired e now = negb (live_opt now e).
Proof. destruct e as [x|]; cbn; [|reflexivity]. destruct (Z.leb_spec x now), (Z.ltb_spec now x); auto; lia. Qed.
Lemma bridge_peek_expired e now : peek_expired e now = negb (live_opt now e).
Proof. destruct e as [x|]; cbn; [|reflexivity]. destruct (Z.leb_spec x now), (Z.ltb_spec now x); auto; lia. Qed.
Lemma bridge_peekitem_expired e now : peekitem_expired e now = negb (live_opt now e).
Proof. destruct e as [x|]; cbn; [|reflexivity]. destruct (Z.leb_spec x now), (Z.ltb_spec now x); auto; lia. Qed.

(* the lazy cull and expire() only select rows whose expiry time has passed *)
Lemma truthy_passed now e : truthy (tv_and (Some (is_some e)) (tvo_lt e now)) = passed_opt now e.
Proof. destruct e as [x|]; cbn; [|reflexivity]. destruct (x <? now); reflexivity. Qed.

Lemma bridge_cull_expired_select now lim t :
  cull_expired_select now lim t = sql_limit lim (sql_order false [ord_optz expire_time] (filter (passed now) t)).
Proof.
  unfold cull_expired_select. do 2 f_equal. apply filter_ext. intros r. apply truthy_passed.
Qed.

Lemma bridge_expire_select lo now lim t :
  expire_select lo now lim t =
  sql_limit lim (sql_order false [ord_optz expire_time]
                  (filter (fun r => match expire_time r with Some e => (lo <=? e) && (e <? now) | None => false end) t)).
Proof.
  unfold expire_select. do 2 f_equal. apply filter_ext. intros r.
  destruct (expire_time r) as [e|]; cbn; [|reflexivity]. rewrite Z.geb_leb.
  destruct (lo <=? e), (e <? now); reflexivity.
Qed.

Lemma bridge_pop_delete rid t r : pop_delete rid t r = (rowid r =? rid).
Proof. unfold pop_delete, tvz_eq. cbn. destruct (rowid r =? rid); reflexivity. Qed.
Lemma bridge_del_delete rid t r : del_delete rid t r = (rowid r =? rid).
Proof. unfold del_delete, tvz_eq. cbn. destruct (rowid r =? rid); reflexivity. Qed.
Lemma bridge_pull_delete rid t r : pull_delete rid t r = (rowid r =? rid).
Proof. unfold pull_delete, tvz_eq. cbn. destruct (rowid r =? rid); reflexivity. Qed.
Lemma bridge_peek_delete rid t r : peek_delete rid t r = (rowid r =? rid).
Proof. unfold peek_delete, tvz_eq. cbn. destruct (rowid r =? rid); reflexivity. Qed.
Lemma bridge_peekitem_delete rid t r : peekitem_delete rid t r = (rowid r =? rid).
Proof. unfold peekitem_delete, tvz_eq. cbn. destruct (rowid r =? rid); reflexivity. Qed.
