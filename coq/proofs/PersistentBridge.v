(* Bridge lemmas: what the Deque / Index proofs need from the generated Gen_Persistent.v.  These are the
   only places that look inside the generated definitions; each breaks the moment the corresponding
   expression of persistent.py says something else. *)
From DC Require Import DCPrelude PersistentBase Gen_Persistent.

(* ---- _make_compare ---- *)
Lemma bridge_deque_cmp_len_differs a b : deque_cmp_len_differs a b = negb (a =? b).
Proof. reflexivity. Qed.
Lemma bridge_deque_cmp_short o :
  deque_cmp_short o = match o with OpEq => Some false | OpNe => Some true | _ => None end.
Proof. destruct o; reflexivity. Qed.
Lemma bridge_deque_cmp_elem_differs a b : deque_cmp_elem_differs a b = negb (a =? b).
Proof. reflexivity. Qed.
Lemma bridge_deque_compare_ops :
  (deque_eq_op, deque_ne_op, deque_lt_op, deque_gt_op, deque_le_op, deque_ge_op) = (OpEq, OpNe, OpLt, OpGt, OpLe, OpGe).
Proof. reflexivity. Qed.

(* ---- construction, maxlen ---- *)
Lemma bridge_deque_init_policy : deque_init_policy = PolNone.
Proof. reflexivity. Qed.
Lemma bridge_deque_init_maxlen m : deque_init_maxlen m = m.
Proof. destruct m; reflexivity. Qed.
Lemma bridge_deque_fromcache_maxlen m : deque_fromcache_maxlen m = m.
Proof. destruct m; reflexivity. Qed.
Lemma bridge_deque_setmaxlen_guard len m :
  deque_setmaxlen_guard len m = match m with Some m' => len >? m' | None => false end.
Proof. reflexivity. Qed.
Lemma bridge_deque_setmaxlen_trim : deque_setmaxlen_trim = MR_popleft.
Proof. reflexivity. Qed.
Lemma bridge_deque_setmaxlen_retry : deque_setmaxlen_retry = true.
Proof. reflexivity. Qed.

(* ---- _index ---- *)
Lemma bridge_deque_index_nonneg i : deque_index_nonneg i = (i >=? 0).
Proof. reflexivity. Qed.
Lemma bridge_deque_index_too_high i n : deque_index_too_high i n = (i >=? n).
Proof. reflexivity. Qed.
Lemma bridge_deque_index_too_low i n : deque_index_too_low i n = (i <? - n).
Proof. reflexivity. Qed.
Lemma bridge_deque_index_hit_fwd i : deque_index_hit_fwd i = (i =? 0).
Proof. reflexivity. Qed.
Lemma bridge_deque_index_hit_bwd i : deque_index_hit_bwd i = (i =? 0).
Proof. reflexivity. Qed.
Lemma bridge_deque_index_step_fwd i : deque_index_step_fwd i = i - 1.
Proof. reflexivity. Qed.
Lemma bridge_deque_index_step_bwd i : deque_index_step_bwd i = i + 1.
Proof. reflexivity. Qed.
Lemma bridge_deque_index_adjust i : deque_index_adjust i = i + 1.
Proof. reflexivity. Qed.
Lemma bridge_deque_index_directions : (deque_index_fwd_reverse, deque_index_bwd_reverse) = (false, true).
Proof. reflexivity. Qed.
Lemma bridge_deque_index_exns :
  (deque_index_exn_high, deque_index_exn_low, deque_index_exn_end) = (IndexError, IndexError, IndexError).
Proof. reflexivity. Qed.
Lemma bridge_deque_index_funcs :
  (deque_getitem_func, deque_setitem_func, deque_delitem_func) = (CM_getitem, CM_setitem, CM_delitem).
Proof. reflexivity. Qed.

(* ---- iteration, state ---- *)
Lemma bridge_deque_iter_directions : (deque_iter_reverse, deque_reversed_reverse) = (false, true).
Proof. reflexivity. Qed.
Lemma bridge_deque_getstate : deque_getstate = [SF_directory; SF_maxlen].
Proof. reflexivity. Qed.
Lemma bridge_deque_copy_args : deque_copy_args = [SF_directory; SF_maxlen].
Proof. reflexivity. Qed.

(* ---- append / appendleft ---- *)
Lemma bridge_deque_append_call :
  deque_append_call = {| qc_meth := CM_push; qc_side := Back; qc_default := DfComp CNone; qc_retry := true; qc_in_txn := true |}.
Proof. reflexivity. Qed.
Lemma bridge_deque_appendleft_call :
  deque_appendleft_call = {| qc_meth := CM_push; qc_side := Front; qc_default := DfComp CNone; qc_retry := true; qc_in_txn := true |}.
Proof. reflexivity. Qed.
Lemma bridge_deque_append_guard len m :
  deque_append_guard len m = match m with Some m' => len >? m' | None => false end.
Proof. reflexivity. Qed.
Lemma bridge_deque_appendleft_guard len m :
  deque_appendleft_guard len m = match m with Some m' => len >? m' | None => false end.
Proof. reflexivity. Qed.
Lemma bridge_deque_append_trims : (deque_append_trim, deque_appendleft_trim) = (MR_popleft, MR_pop).
Proof. reflexivity. Qed.

(* ---- clear, count, extend ---- *)
Lemma bridge_deque_clear_call :
  deque_clear_call = {| qc_meth := CM_clear; qc_side := Back; qc_default := DfComp CNone; qc_retry := true; qc_in_txn := false |}.
Proof. reflexivity. Qed.
Lemma bridge_deque_count_match v x : deque_count_match v x = (v =? x).
Proof. reflexivity. Qed.
Lemma bridge_deque_extend_fns : (deque_extend_fn, deque_extendleft_fn) = (MR_append, MR_appendleft).
Proof. reflexivity. Qed.

(* ---- peek / peekleft / pop / popleft ---- *)
Definition poplike_call (m : cmeth) (s : side) : qcall :=
  {| qc_meth := m; qc_side := s; qc_default := DfPair CNone CEnoval; qc_retry := true; qc_in_txn := false |}.
Lemma bridge_deque_peek_call : deque_peek_call = poplike_call CM_peek Back.
Proof. reflexivity. Qed.
Lemma bridge_deque_peekleft_call : deque_peekleft_call = poplike_call CM_peek Front.
Proof. reflexivity. Qed.
Lemma bridge_deque_pop_call : deque_pop_call = poplike_call CM_pull Back.
Proof. reflexivity. Qed.
Lemma bridge_deque_popleft_call : deque_popleft_call = poplike_call CM_pull Front.
Proof. reflexivity. Qed.
Lemma bridge_deque_peek_miss c : deque_peek_miss c = comp_is_enoval c.
Proof. reflexivity. Qed.
Lemma bridge_deque_peekleft_miss c : deque_peekleft_miss c = comp_is_enoval c.
Proof. reflexivity. Qed.
Lemma bridge_deque_pop_miss c : deque_pop_miss c = comp_is_enoval c.
Proof. reflexivity. Qed.
Lemma bridge_deque_popleft_miss c : deque_popleft_miss c = comp_is_enoval c.
Proof. reflexivity. Qed.
Lemma bridge_deque_poplike_exns :
  (deque_peek_exn, deque_peekleft_exn, deque_pop_exn, deque_popleft_exn) = (IndexError, IndexError, IndexError, IndexError).
Proof. reflexivity. Qed.

(* ---- remove, reverse, rotate ---- *)
Lemma bridge_deque_remove_reverse : deque_remove_reverse = false.
Proof. reflexivity. Qed.
Lemma bridge_deque_remove_match v x : deque_remove_match v x = (v =? x).
Proof. reflexivity. Qed.
Lemma bridge_deque_remove_exn : deque_remove_exn = ValueError.
Proof. reflexivity. Qed.
Lemma bridge_deque_reverse_source : deque_reverse_source = IterReversed.
Proof. reflexivity. Qed.
Lemma bridge_deque_rotate_empty n : deque_rotate_empty n = (n =? 0).
Proof. unfold deque_rotate_empty. destruct (n =? 0); reflexivity. Qed.
Lemma bridge_deque_rotate_nonneg n : deque_rotate_nonneg n = (n >=? 0).
Proof. reflexivity. Qed.
Lemma bridge_deque_rotate_neg_factor : deque_rotate_neg_factor = -1.
Proof. reflexivity. Qed.
Lemma bridge_deque_rotate_mrefs :
  (deque_rotate_right_pop, deque_rotate_right_push, deque_rotate_left_pop, deque_rotate_left_push)
  = (MR_pop, MR_appendleft, MR_popleft, MR_append).
Proof. reflexivity. Qed.

(* every delegated Deque call retries on a lock timeout *)
Lemma bridge_deque_all_retry :
  forallb qc_retry [deque_append_call; deque_appendleft_call; deque_clear_call; deque_peek_call;
                    deque_peekleft_call; deque_pop_call; deque_popleft_call] = true.
Proof. reflexivity. Qed.

(* ---- Index ---- *)
Lemma bridge_index_init_policy : index_init_policy = PolNone.
Proof. reflexivity. Qed.
Lemma bridge_index_setdefault_returns_stored : index_setdefault_returns_stored = true.
Proof. reflexivity. Qed.
Lemma bridge_index_setdefault_add :
  index_setdefault_add = {| qc_meth := CM_add; qc_side := Back; qc_default := DfComp CNone; qc_retry := true; qc_in_txn := true |}.
Proof. reflexivity. Qed.
Lemma bridge_index_setdefault_retry : index_setdefault_retry = true.
Proof. reflexivity. Qed.
Lemma bridge_index_peekitem_call :
  index_peekitem_call = {| qc_meth := CM_peekitem; qc_side := Back; qc_default := DfComp CNone; qc_retry := true; qc_in_txn := false |}.
Proof. reflexivity. Qed.
Lemma bridge_index_peekitem_last b : index_peekitem_last b = b.
Proof. reflexivity. Qed.
Lemma bridge_index_pop_default : index_pop_default = CEnoval.
Proof. reflexivity. Qed.
Lemma bridge_index_pop_call :
  index_pop_call = {| qc_meth := CM_pop; qc_side := Back; qc_default := DfComp CEnoval; qc_retry := true; qc_in_txn := false |}.
Proof. reflexivity. Qed.
Lemma bridge_index_pop_miss c : index_pop_miss c = comp_is_enoval c.
Proof. reflexivity. Qed.
Lemma bridge_index_pop_exn : index_pop_exn = KeyError.
Proof. reflexivity. Qed.
Lemma bridge_index_popitem_retry : index_popitem_retry = true.
Proof. reflexivity. Qed.
Lemma bridge_index_popitem_last b : index_popitem_last b = b.
Proof. reflexivity. Qed.
Lemma bridge_index_clear_call :
  index_clear_call = {| qc_meth := CM_clear; qc_side := Back; qc_default := DfComp CNone; qc_retry := true; qc_in_txn := false |}.
Proof. reflexivity. Qed.
Lemma bridge_index_getstate : index_getstate = [SF_directory].
Proof. reflexivity. Qed.
Lemma bridge_index_eq_len_differs a b : index_eq_len_differs a b = negb (a =? b).
Proof. reflexivity. Qed.
Lemma bridge_index_eq_ordered_kinds : index_eq_ordered_kinds = [MK_Index; MK_OrderedDict].
Proof. reflexivity. Qed.
Lemma bridge_index_eq_pair_differs a b x y : index_eq_pair_differs a b x y = negb (a =? x) || negb (b =? y).
Proof. reflexivity. Qed.
