(* C09 -- eviction only at the size limit, bounded by cull_limit, in policy order; cull().
   Theorems about model/Cache.v (`cull` = the lazy eviction inside set/add/incr/push, `op_cull` = cull())
   for ALL states, configurations, clock values and volume-oracle values.  Everything that looks inside a
   generated definition goes through proofs/EvictBridge.v. *)
From Coq Require Import ZifyBool Sorting.Permutation.
From DC Require Import DCPrelude DCPreludeFacts Val DiskBase SqlBase Gen_Disk Disk Gen_Sql Cache EvictSortFacts EvictBridge.

(* The only state invariant the theorems need: rowids are distinct (INTEGER PRIMARY KEY).
   It holds initially and is preserved by every API call (wf_step below). *)
Definition wf (s : st) : Prop := NoDup (map rowid (rows s)).

(* ================================================================ table primitives *)
Lemma del_rows_spec wh t : forall cnt sz,
  del_rows wh t cnt sz = (filter (fun r => negb (wh r)) t,
                          cnt - Z.of_nat (length (filter wh t)), sz - sumZ (map rsize (filter wh t))).
Proof.
  induction t as [|r t IH]; intros cnt sz; cbn [del_rows filter].
  - cbn. f_equal; [f_equal|]; lia.
  - destruct (wh r) eqn:E; cbn [negb].
    + rewrite IH. destruct (bridge_trig_delete cnt r r) as [-> _]. destruct (bridge_trig_delete sz r r) as [_ ->]. cbn [length map sumZ]. f_equal; [f_equal|]; lia.
    + rewrite IH. reflexivity.
Qed.

Lemma t_delete_rows wh s : rows (t_delete wh s) = filter (fun r => negb (wh r)) (rows s).
Proof. unfold t_delete. rewrite del_rows_spec. reflexivity. Qed.

Lemma t_delete_size wh s : n_size (t_delete wh s) = n_size s - sumZ (map rsize (filter wh (rows s))).
Proof. unfold t_delete. rewrite del_rows_spec. reflexivity. Qed.

Lemma t_delete_count wh s : n_count (t_delete wh s) = n_count s - Z.of_nat (length (filter wh (rows s))).
Proof. unfold t_delete. rewrite del_rows_spec. reflexivity. Qed.

Lemma t_delete_ext wh wh' s : (forall r, wh r = wh' r) -> t_delete wh s = t_delete wh' s.
Proof.
  intros H. unfold t_delete. rewrite !del_rows_spec.
  rewrite (filter_ext wh wh' H), (filter_ext (fun r => negb (wh r)) (fun r => negb (wh' r))); [reflexivity|].
  intros r. rewrite H. reflexivity.
Qed.

Lemma t_delete_none wh s : (forall r, In r (rows s) -> wh r = false) -> t_delete wh s = s.
Proof.
  intros H. unfold t_delete. rewrite del_rows_spec, (filter_none wh), filter_all.
  - destruct s; cbn. unfold set_rows; cbn. f_equal; lia.
  - intros r Hr. rewrite (H r Hr). reflexivity.
  - exact H.
Qed.

Lemma fs_remove_rows l : forall s, rows (fs_remove s l) = rows s.
Proof. unfold fs_remove. induction l as [|o l IH]; intros s; cbn; [reflexivity|]. rewrite IH. destruct o; reflexivity. Qed.

Lemma fs_remove_size l : forall s, n_size (fs_remove s l) = n_size s.
Proof. unfold fs_remove. induction l as [|o l IH]; intros s; cbn; [reflexivity|]. rewrite IH. destruct o; reflexivity. Qed.

Lemma upd_rows_spec wh f t : forall sz,
  upd_rows wh f t sz = (map (fun r => if wh r then f r else r) t,
                        sz + sumZ (map rsize (map (fun r => if wh r then f r else r) t)) - sumZ (map rsize t)).
Proof.
  induction t as [|r t IH]; intros sz; cbn [upd_rows map sumZ].
  - f_equal. lia.
  - destruct (wh r); rewrite IH; [rewrite bridge_trig_update|]; f_equal; lia.
Qed.

Lemma t_update_rows wh f s : rows (t_update wh f s) = map (fun r => if wh r then f r else r) (rows s).
Proof. unfold t_update. rewrite upd_rows_spec. reflexivity. Qed.

Lemma t_update_size wh f s :
  n_size (t_update wh f s) = n_size s + sumZ (map rsize (rows (t_update wh f s))) - sumZ (map rsize (rows s)).
Proof. unfold t_update. rewrite upd_rows_spec. reflexivity. Qed.

Lemma t_insert_rows mk s : rows (t_insert mk s) = rows s ++ [mk (next_rowid (rows s))].
Proof. reflexivity. Qed.

Lemma t_insert_size mk s : n_size (t_insert mk s) = n_size s + rsize (mk (next_rowid (rows s))).
Proof. unfold t_insert. cbn. apply bridge_trig_insert. Qed.

(* ================================================================ DELETE ... WHERE rowid IN (SELECT ...) *)
Lemma mem_rowid_true i sel : mem_rowid i sel = true <-> exists x, In x sel /\ rowid x = i.
Proof.
  unfold mem_rowid. rewrite existsb_exists. split; intros (x & H & E); exists x; split; auto; lia.
Qed.

Lemma mem_sel_iff t sel r :
  NoDup (map rowid t) -> incl sel t -> In r t -> (mem_rowid (rowid r) sel = true <-> In r sel).
Proof.
  intros Hn Hi Hr. rewrite mem_rowid_true. split.
  - intros (x & Hx & E). assert (x = r) by (eapply NoDup_map_inj; eauto). subst; auto.
  - intros H. exists r; auto.
Qed.

(* with distinct rowids the DELETE removes exactly the selected rows *)
Lemma removed_count t sel :
  NoDup (map rowid t) -> incl sel t -> NoDup sel ->
  length (filter (fun r => mem_rowid (rowid r) sel) t) = length sel.
Proof.
  intros Hn Hi Hs. apply Nat.le_antisymm.
  - apply NoDup_incl_length; [apply NoDup_filter'; eapply NoDup_map_NoDup; eauto|].
    intros r Hr. apply filter_In in Hr. destruct Hr as [Hr Hm]. eapply mem_sel_iff; eauto.
  - apply NoDup_incl_length; auto. intros r Hr. apply filter_In. split; auto. apply mem_sel_iff with (t:=t); auto.
Qed.

Lemma wf_t_delete wh s : wf s -> wf (t_delete wh s).
Proof. unfold wf. rewrite t_delete_rows. apply NoDup_map_filter. Qed.

(* ================================================================ _cull, stage by stage *)
(* rows selected as expired; the state after deleting them; the limit left; rows selected by policy *)
Definition exp_sel (c : cfg) (now : Z) (s : st) : list row := cull_expired_select now (c_cull_limit c) (rows s).
Definition stage1 (c : cfg) (now : Z) (s : st) : st :=
  t_delete (fun r => mem_rowid (rowid r) (exp_sel c now s)) s.
Definition lim1 (c : cfg) (now : Z) (s : st) : Z := c_cull_limit c - Z.of_nat (length (exp_sel c now s)).
Definition pol_sel (c : cfg) (now : Z) (s : st) : list row :=
  policy_cull_select (c_policy c) (lim1 c now s) (rows (stage1 c now s)).
(* the policy query runs iff limit is left, the policy has a cull query and volume >= size_limit *)
Definition policy_runs (c : cfg) (now pg : Z) (s : st) : bool :=
  negb (lim1 c now s =? 0) && negb (is_pnone (c_policy c)) && (c_size_limit c <=? volume pg (stage1 c now s)).

Lemma cull_state c now pg s :
  fst (cull c now pg s) =
    if c_cull_limit c =? 0 then s
    else if policy_runs c now pg s
         then t_delete (fun r => mem_rowid (rowid r) (pol_sel c now s)) (stage1 c now s)
         else stage1 c now s.
Proof.
  unfold cull. rewrite bridge_cull_disabled. destruct (c_cull_limit c =? 0) eqn:E0; [reflexivity|].
  assert (Hdel : t_delete (cull_expired_delete now (c_cull_limit c) (rows s)) s = stage1 c now s).
  { unfold stage1. apply t_delete_ext. intros r. apply bridge_cull_expired_delete. }
  rewrite Hdel. fold (exp_sel c now s). unfold policy_runs.
  assert (Hpol : forall s1 l,
    (let pr := policy_cull_select (c_policy c) l (rows s1) in
     if is_nil pr then s1 else t_delete (policy_cull_delete (c_policy c) l (rows s1)) s1)
    = t_delete (fun r => mem_rowid (rowid r) (policy_cull_select (c_policy c) l (rows s1))) s1).
  { intros s1 l. cbn zeta. destruct (policy_cull_select (c_policy c) l (rows s1)) as [|x pr] eqn:Epr; cbn [is_nil].
    - symmetry. apply t_delete_none. reflexivity.
    - apply t_delete_ext. intros r. rewrite bridge_policy_cull_delete, Epr. reflexivity. }
  destruct (exp_sel c now s) as [|e er] eqn:Eer; cbn [is_nil negb].
  - assert (S1 : stage1 c now s = s).
    { unfold stage1. rewrite Eer. apply t_delete_none. reflexivity. }
    assert (L1 : lim1 c now s = c_cull_limit c) by (unfold lim1; rewrite Eer; cbn; lia).
    rewrite L1, E0. cbn [negb andb].
    rewrite bridge_cull_skip_policy, bridge_policy_has_cull.
    destruct (is_pnone (c_policy c)); cbn [negb is_none is_some orb andb]; [symmetry; exact S1|].
    rewrite S1. destruct (volume pg s <? c_size_limit c) eqn:Ev.
    + replace (c_size_limit c <=? volume pg s) with false by lia. reflexivity.
    + replace (c_size_limit c <=? volume pg s) with true by lia.
      unfold pol_sel. rewrite S1, L1. specialize (Hpol s (c_cull_limit c)). cbn zeta in Hpol.
      destruct (is_nil (policy_cull_select (c_policy c) (c_cull_limit c) (rows s))); cbn [fst]; exact Hpol.
  - rewrite bridge_cull_exhausted. fold (lim1 c now s).
    replace (c_cull_limit c - Z.of_nat (length (e :: er))) with (lim1 c now s) by (unfold lim1; rewrite Eer; reflexivity).
    destruct (lim1 c now s =? 0) eqn:El; cbn [negb andb fst]; [reflexivity|].
    rewrite bridge_cull_skip_policy, bridge_policy_has_cull.
    destruct (is_pnone (c_policy c)); cbn [negb is_none is_some orb andb fst]; [reflexivity|].
    destruct (volume pg (stage1 c now s) <? c_size_limit c) eqn:Ev.
    + replace (c_size_limit c <=? volume pg (stage1 c now s)) with false by lia. reflexivity.
    + replace (c_size_limit c <=? volume pg (stage1 c now s)) with true by lia.
      unfold pol_sel. specialize (Hpol (stage1 c now s) (lim1 c now s)). cbn zeta in Hpol.
      destruct (is_nil (policy_cull_select (c_policy c) (lim1 c now s) (rows (stage1 c now s)))); cbn [fst]; exact Hpol.
Qed.

(* ---- the two SELECTs of _cull ---- *)
Lemma exp_sel_spec c now s r : In r (exp_sel c now s) -> In r (rows s) /\ passed now r = true.
Proof. unfold exp_sel. rewrite bridge_cull_expired_select. apply select_shape_incl. Qed.

Lemma exp_sel_incl c now s : incl (exp_sel c now s) (rows s).
Proof. intros r H. apply exp_sel_spec in H. tauto. Qed.

Lemma exp_sel_nodup c now s : wf s -> NoDup (exp_sel c now s).
Proof.
  intros H. unfold exp_sel. rewrite bridge_cull_expired_select. apply select_shape_nodup.
  eapply NoDup_map_NoDup; eauto.
Qed.

Lemma exp_sel_length c now s : 0 <= c_cull_limit c -> Z.of_nat (length (exp_sel c now s)) <= c_cull_limit c.
Proof. intros H. unfold exp_sel. rewrite bridge_cull_expired_select. apply sql_limit_length. exact H. Qed.

(* LIMIT did not cut the expired query when limit is left over: every passed row was selected *)
Lemma exp_sel_complete c now s r :
  lim1 c now s <> 0 -> In r (rows s) -> passed now r = true -> In r (exp_sel c now s).
Proof.
  unfold lim1, exp_sel. rewrite bridge_cull_expired_select. intros Hl Hr Hp.
  rewrite sql_limit_short by lia. apply sql_order_in, filter_In. tauto.
Qed.

Lemma exp_sel_order c now s r r' e e' :
  In r (exp_sel c now s) -> In r' (rows s) -> passed now r' = true -> ~ In r' (exp_sel c now s) ->
  expire_time r = Some e -> expire_time r' = Some e' -> e <= e'.
Proof.
  unfold exp_sel. rewrite bridge_cull_expired_select. intros Hr Hr' Hp Hn E E'.
  eapply order_limit_prefix_optz; eauto. apply filter_In. tauto.
Qed.

Lemma stage1_rows c now s :
  rows (stage1 c now s) = filter (fun r => negb (mem_rowid (rowid r) (exp_sel c now s))) (rows s).
Proof. apply t_delete_rows. Qed.

Lemma stage1_size c now s :
  n_size (stage1 c now s) = n_size s - sumZ (map rsize (filter (fun r => mem_rowid (rowid r) (exp_sel c now s)) (rows s))).
Proof. apply t_delete_size. Qed.

Lemma wf_stage1 c now s : wf s -> wf (stage1 c now s).
Proof. apply wf_t_delete. Qed.

Lemma stage1_in c now s r : wf s -> (In r (rows (stage1 c now s)) <-> In r (rows s) /\ ~ In r (exp_sel c now s)).
Proof.
  intros Hw. rewrite stage1_rows, filter_In.
  assert (M : In r (rows s) -> (mem_rowid (rowid r) (exp_sel c now s) = true <-> In r (exp_sel c now s))).
  { intros Hr. apply mem_sel_iff with (t := rows s); auto. apply exp_sel_incl. }
  split; intros [H1 H2]; split; auto.
  - intros Hi. apply M in Hi; auto. rewrite Hi in H2. discriminate.
  - destruct (mem_rowid (rowid r) (exp_sel c now s)) eqn:E; auto. exfalso. apply H2, M; auto.
Qed.

Lemma pol_sel_incl c now s : incl (pol_sel c now s) (rows (stage1 c now s)).
Proof.
  intros r. unfold pol_sel. rewrite bridge_policy_cull_select. destruct (is_pnone _); [intros []|].
  intros H. apply sql_limit_incl, sql_order_in in H. exact H.
Qed.

Lemma pol_sel_nodup c now s : wf s -> NoDup (pol_sel c now s).
Proof.
  intros H. unfold pol_sel. rewrite bridge_policy_cull_select. destruct (is_pnone _); [constructor|].
  apply sql_limit_nodup, sql_order_nodup. eapply NoDup_map_NoDup. apply wf_stage1. exact H.
Qed.

Lemma pol_sel_length c now s : 0 <= lim1 c now s -> Z.of_nat (length (pol_sel c now s)) <= lim1 c now s.
Proof.
  intros H. unfold pol_sel. rewrite bridge_policy_cull_select. destruct (is_pnone _); [cbn; lia|].
  apply sql_limit_length. exact H.
Qed.

Lemma pol_sel_order c now s r r' :
  In r (pol_sel c now s) -> In r' (rows (stage1 c now s)) -> ~ In r' (pol_sel c now s) ->
  policy_key (c_policy c) r <= policy_key (c_policy c) r'.
Proof.
  unfold pol_sel. rewrite bridge_policy_cull_select. destruct (is_pnone _); [intros []|].
  apply order_limit_prefix_z.
Qed.

(* which rows are left after _cull *)
Lemma cull_in c now pg s r :
  wf s -> c_cull_limit c <> 0 ->
  (In r (rows (fst (cull c now pg s))) <->
   In r (rows s) /\ ~ In r (exp_sel c now s) /\ (policy_runs c now pg s = true -> ~ In r (pol_sel c now s))).
Proof.
  intros Hw H0. rewrite cull_state. replace (c_cull_limit c =? 0) with false by lia.
  destruct (policy_runs c now pg s).
  - rewrite t_delete_rows, filter_In.
    assert (M : In r (rows (stage1 c now s)) ->
                (mem_rowid (rowid r) (pol_sel c now s) = true <-> In r (pol_sel c now s))).
    { intros Hr. apply mem_sel_iff with (t := rows (stage1 c now s)); auto.
      - apply wf_stage1. exact Hw.
      - apply pol_sel_incl. }
    pose proof (stage1_in c now s r Hw) as S1.
    split.
    + intros [H1 H2]. apply S1 in H1 as H1'. destruct H1' as [Ha Hb]. repeat split; auto.
      intros _ Hi. apply M in Hi; auto. rewrite Hi in H2. discriminate.
    + intros (Ha & Hb & H2). assert (H1 : In r (rows (stage1 c now s))) by (apply S1; auto). split; [exact H1|].
      destruct (mem_rowid (rowid r) (pol_sel c now s)) eqn:E; auto. exfalso. apply H2; auto. apply M; auto.
  - rewrite stage1_in by exact Hw. split; [intros [H1 H2]; repeat split; auto; discriminate|tauto].
Qed.

(* a row that disappears was selected by one of the two queries *)
Lemma cull_removed_cases c now pg s r :
  wf s -> In r (rows s) -> ~ In r (rows (fst (cull c now pg s))) ->
  c_cull_limit c <> 0 /\ (In r (exp_sel c now s) \/ (policy_runs c now pg s = true /\ In r (pol_sel c now s))).
Proof.
  intros Hw Hr Hn.
  assert (H0 : c_cull_limit c <> 0).
  { intros E. apply Hn. rewrite cull_state. replace (c_cull_limit c =? 0) with true by lia. exact Hr. }
  split; [exact H0|].
  destruct (mem_rowid (rowid r) (exp_sel c now s)) eqn:E1.
  { left. apply mem_sel_iff with (t := rows s) in E1; auto. apply exp_sel_incl. }
  assert (N1 : ~ In r (exp_sel c now s)).
  { intros Hi. apply mem_sel_iff with (t := rows s) in Hi; auto; [congruence|apply exp_sel_incl]. }
  assert (R1 : In r (rows (stage1 c now s))) by (apply stage1_in; auto).
  right. destruct (policy_runs c now pg s) eqn:Ep.
  - split; [reflexivity|].
    destruct (mem_rowid (rowid r) (pol_sel c now s)) eqn:E2.
    + apply mem_sel_iff with (t := rows (stage1 c now s)) in E2; auto; [apply wf_stage1; auto|apply pol_sel_incl].
    + exfalso. apply Hn. apply cull_in; auto. repeat split; auto. intros _ Hi.
      apply mem_sel_iff with (t := rows (stage1 c now s)) in Hi; auto; [congruence|apply wf_stage1; auto|apply pol_sel_incl].
  - exfalso. apply Hn. apply cull_in; auto. repeat split; auto. rewrite Ep. discriminate.
Qed.

(* exact number of rows removed *)
Lemma cull_removed_count c now pg s :
  wf s -> c_cull_limit c <> 0 ->
  Z.of_nat (length (rows s)) - Z.of_nat (length (rows (fst (cull c now pg s)))) =
  Z.of_nat (length (exp_sel c now s)) + (if policy_runs c now pg s then Z.of_nat (length (pol_sel c now s)) else 0).
Proof.
  intros Hw H0. rewrite cull_state. replace (c_cull_limit c =? 0) with false by lia.
  assert (L1 : Z.of_nat (length (rows s)) - Z.of_nat (length (rows (stage1 c now s))) = Z.of_nat (length (exp_sel c now s))).
  { rewrite stage1_rows. rewrite (filter_length_split (fun r => mem_rowid (rowid r) (exp_sel c now s)) (rows s)).
    rewrite removed_count; [lia|exact Hw|apply exp_sel_incl|apply exp_sel_nodup; exact Hw]. }
  destruct (policy_runs c now pg s); [|lia].
  rewrite t_delete_rows.
  rewrite (filter_length_split (fun r => mem_rowid (rowid r) (pol_sel c now s)) (rows (stage1 c now s))) in L1.
  rewrite removed_count in L1; [lia|apply wf_stage1; exact Hw|apply pol_sel_incl|apply pol_sel_nodup; exact Hw].
Qed.

(* ================================================================ C09 theorems about _cull *)
Definition removed (s s' : st) (r : row) : Prop := In r (rows s) /\ ~ In r (rows s').

(* _cull never changes a row and never adds one *)
Theorem cull_sub c now pg s r : In r (rows (fst (cull c now pg s))) -> In r (rows s).
Proof.
  rewrite cull_state. destruct (c_cull_limit c =? 0); [tauto|].
  destruct (policy_runs c now pg s).
  - rewrite t_delete_rows, filter_In, stage1_rows, filter_In. tauto.
  - rewrite stage1_rows, filter_In. tauto.
Qed.

Theorem cull_only_at_limit c now pg s r :
  wf s -> removed s (fst (cull c now pg s)) r -> passed now r = false ->
  c_size_limit c <= volume pg (stage1 c now s) /\ c_policy c <> PNone /\ c_cull_limit c <> 0.
Proof.
  intros Hw [Hr Hn] Hp. destruct (cull_removed_cases c now pg s r Hw Hr Hn) as [H0 [He|[Hrun Hs]]].
  - apply exp_sel_spec in He. destruct He as [_ He]. congruence.
  - unfold policy_runs in Hrun. apply andb_prop in Hrun. destruct Hrun as [Hrun Hv].
    apply andb_prop in Hrun. destruct Hrun as [_ Hpn].
    repeat split; [lia| |exact H0]. intros E. rewrite E in Hpn. discriminate.
Qed.

Theorem cull_bound c now pg s :
  wf s -> 0 <= c_cull_limit c ->
  Z.of_nat (length (rows s)) - Z.of_nat (length (rows (fst (cull c now pg s)))) <= c_cull_limit c.
Proof.
  intros Hw Hl. destruct (Z.eq_dec (c_cull_limit c) 0) as [E|E].
  - rewrite cull_state. replace (c_cull_limit c =? 0) with true by lia. lia.
  - rewrite cull_removed_count by auto.
    pose proof (exp_sel_length c now s Hl) as L1.
    destruct (policy_runs c now pg s); [|lia].
    assert (L2 : 0 <= lim1 c now s) by (unfold lim1; lia).
    pose proof (pol_sel_length c now s L2) as L3. unfold lim1 in *. lia.
Qed.

Theorem cull_zero c now pg s : c_cull_limit c = 0 -> cull c now pg s = (s, []).
Proof. intros E. unfold cull. rewrite bridge_cull_disabled, E. reflexivity. Qed.

Theorem cull_order c now pg s r r' :
  wf s -> removed s (fst (cull c now pg s)) r -> passed now r = false ->
  In r' (rows (fst (cull c now pg s))) ->
  policy_key (c_policy c) r <= policy_key (c_policy c) r'.
Proof.
  intros Hw [Hr Hn] Hp Hr'. destruct (cull_removed_cases c now pg s r Hw Hr Hn) as [H0 [He|[Hrun Hs]]].
  - apply exp_sel_spec in He. destruct He as [_ He]. congruence.
  - apply cull_in in Hr'; auto. destruct Hr' as (R1 & R2 & R3).
    apply pol_sel_order with (now := now) (s := s); auto. apply stage1_in; auto.
Qed.

Theorem cull_expired_first c now pg s :
  let er := cull_expired_select now (c_cull_limit c) (rows s) in
  (* only passed rows of the table *)
  (forall r, In r er -> In r (rows s) /\ exists e, expire_time r = Some e /\ e < now)
  (* at most cull_limit of them *)
  /\ (0 <= c_cull_limit c -> Z.of_nat (length er) <= c_cull_limit c)
  (* in expire_time order: a passed row that was not selected expires no earlier than every selected one *)
  /\ (forall r r' e e', In r er -> In r' (rows s) -> ~ In r' er -> expire_time r = Some e ->
                        expire_time r' = Some e' -> e' < now -> e <= e')
  (* they are removed (unless cull_limit = 0) *)
  /\ (wf s -> c_cull_limit c <> 0 -> forall r, In r er -> ~ In r (rows (fst (cull c now pg s))))
  (* expired first: if any row that is not passed goes, every passed row goes, and a passed row goes only as
     a member of this selection *)
  /\ (wf s -> forall r, removed s (fst (cull c now pg s)) r -> passed now r = false ->
              forall r', In r' (rows s) -> passed now r' = true -> ~ In r' (rows (fst (cull c now pg s))))
  /\ (wf s -> forall r, removed s (fst (cull c now pg s)) r -> passed now r = true -> In r er).
Proof.
  cbn zeta. fold (exp_sel c now s). repeat split.
  - apply exp_sel_spec in H. tauto.
  - apply exp_sel_spec in H. destruct H as [_ H]. unfold passed in H.
    destruct (expire_time r) as [e|]; [|discriminate]. exists e. split; [reflexivity|lia].
  - apply exp_sel_length.
  - intros r r' e e' Hr Hr' Hn E E' Hlt. eapply exp_sel_order; eauto. unfold passed. rewrite E'. lia.
  - intros Hw H0 r Hr Hi. apply cull_in in Hi; auto. tauto.
  - intros Hw r [Hr Hn] Hp r' Hr' Hp' Hi.
    destruct (cull_removed_cases c now pg s r Hw Hr Hn) as [H0 [He|[Hrun Hs]]].
    + apply exp_sel_spec in He. destruct He as [_ He]. congruence.
    + apply cull_in in Hi; auto. destruct Hi as (_ & Hi & _). apply Hi.
      apply exp_sel_complete; auto. unfold policy_runs in Hrun. lia.
  - intros Hw r [Hr Hn] Hp.
    destruct (cull_removed_cases c now pg s r Hw Hr Hn) as [H0 [He|[Hrun Hs]]]; [exact He|].
    apply exp_sel_complete; auto. unfold policy_runs in Hrun. lia.
Qed.

Theorem cull_none_never c now pg s r :
  c_policy c = PNone -> wf s -> removed s (fst (cull c now pg s)) r -> passed now r = true.
Proof.
  intros E Hw [Hr Hn]. destruct (cull_removed_cases c now pg s r Hw Hr Hn) as [H0 [He|[Hrun Hs]]].
  - apply exp_sel_spec in He. tauto.
  - unfold policy_runs in Hrun. rewrite E in Hrun. cbn in Hrun. lia.
Qed.

(* ================================================================ cull(): expire() then pages in policy order *)
Lemma existsb_ids i l : existsb (Z.eqb i) (map rowid l) = mem_rowid i l.
Proof.
  unfold mem_rowid. induction l as [|a l IH]; cbn; [reflexivity|]. rewrite IH, (Z.eqb_sym i). reflexivity.
Qed.

Lemma fs_remove_wf s l : wf s -> wf (fs_remove s l).
Proof. unfold wf. rewrite fs_remove_rows. tauto. Qed.

(* deleting a selection `sel` (rows of the table, each once) by rowid *)
Lemma delete_sel_facts s sel :
  wf s -> incl sel (rows s) -> NoDup sel ->
  let s1 := t_delete (fun r => mem_rowid (rowid r) sel) s in
  wf s1
  /\ (forall r, In r (rows s1) <-> In r (rows s) /\ ~ In r sel)
  /\ Z.of_nat (length (rows s)) - Z.of_nat (length (rows s1)) = Z.of_nat (length sel).
Proof.
  intros Hw Hi Hn. cbn zeta. split; [apply wf_t_delete; exact Hw|]. split.
  - intros r. rewrite t_delete_rows, filter_In.
    assert (M : In r (rows s) -> (mem_rowid (rowid r) sel = true <-> In r sel)).
    { intros Hr. apply mem_sel_iff with (t := rows s); auto. }
    split; intros [H1 H2]; split; auto.
    + intros Hx. apply M in Hx; auto. rewrite Hx in H2. discriminate.
    + destruct (mem_rowid (rowid r) sel) eqn:E; auto. exfalso. apply H2, M; auto.
  - rewrite t_delete_rows. rewrite (filter_length_split (fun r => mem_rowid (rowid r) sel) (rows s)).
    rewrite removed_count by auto. lia.
Qed.

Lemma skipn_S_tl {A} j (l : list A) : skipn (S j) l = skipn j (tl l).
Proof. destruct l; cbn; [rewrite skipn_nil|]; reflexivity. Qed.

Lemma sql_limit_length_eq n (l : list row) : 0 <= n -> length (sql_limit n l) = Nat.min (Z.to_nat n) (length l).
Proof. intros H. unfold sql_limit. replace (n <? 0) with false by lia. apply length_take. Qed.

Lemma cull_loop_spec c :
  is_pnone (c_policy c) = false ->
  forall fuel vols s cnt s' n, wf s -> cull_loop fuel c vols s cnt = (s', RInt n) ->
  wf s'
  /\ (forall r, In r (rows s') -> In r (rows s))
  /\ n = cnt + Z.of_nat (length (rows s)) - Z.of_nat (length (rows s'))
  /\ (forall r r', removed s s' r -> In r' (rows s') -> policy_key (c_policy c) r <= policy_key (c_policy c) r')
  /\ exists j : nat,
       (* j pages were removed; the loop test was then evaluated on the (j+1)-th volume and failed, or the table is empty *)
       (volume (hd_vol (skipn j vols)) s' <= c_size_limit c \/ rows s' = [])
       /\ (rows s = [] -> j = 0%nat)
       /\ Z.of_nat j * cull_page - cull_page < Z.of_nat (length (rows s)) - Z.of_nat (length (rows s'))
          <= Z.of_nat j * cull_page.
Proof.
  intros Hp. destruct bridge_cull_page as [Epd Epos].
  induction fuel as [|f IH]; intros vols s cnt s' n Hw H; cbn [cull_loop] in H; [discriminate|].
  rewrite bridge_cull_over_limit in H.
  destruct (volume (hd_vol vols) s >? c_size_limit c) eqn:Ev.
  2:{ injection H as <- <-. repeat split; auto; try lia.
      - intros r r' [H1 H2]. tauto.
      - exists 0%nat. cbn [skipn]. split; [left; lia|]. split; lia. }
  rewrite bridge_policy_cull_select, Hp in H.
  destruct (sql_limit cull_page (sql_order false [ord_z (policy_key (c_policy c))] (rows s))) as [|x pg'] eqn:Epg.
  - injection H as <- <-.
    assert (E : rows s = []).
    { apply sql_limit_nil in Epg; [|lia]. apply (f_equal (@length row)) in Epg. rewrite sql_order_length in Epg.
      destruct (rows s); [reflexivity|discriminate]. }
    split; [exact Hw|]. split; [tauto|]. split; [lia|]. split; [intros r r' [H1 H2]; tauto|].
    exists 0%nat. cbn [skipn]. split; [right; exact E|]. rewrite E. cbn [length]. split; lia.
  - rewrite <- Epg in H.
    set (pg := sql_limit cull_page (sql_order false [ord_z (policy_key (c_policy c))] (rows s))) in *.
    assert (Hincl : incl pg (rows s)).
    { intros r Hr. unfold pg in Hr. apply sql_limit_incl, sql_order_in in Hr. exact Hr. }
    assert (Hnd : NoDup pg).
    { unfold pg. apply sql_limit_nodup, sql_order_nodup. eapply NoDup_map_NoDup; eauto. }
    assert (Hlen : length pg = Nat.min (Z.to_nat cull_page) (length (rows s))).
    { unfold pg. rewrite sql_limit_length_eq by lia. rewrite sql_order_length. reflexivity. }
    assert (Hne : (0 < length pg)%nat) by (rewrite Epg; cbn; lia).
    assert (Hdel : t_delete (policy_cullall_delete (c_policy c) cull_page_delete (rows s)) s
                   = t_delete (fun r => mem_rowid (rowid r) pg) s).
    { apply t_delete_ext. intros r. rewrite bridge_policy_cullall_delete, Epd, bridge_policy_cull_select, Hp. reflexivity. }
    rewrite Hdel in H. clear Hdel.
    destruct (delete_sel_facts s pg Hw Hincl Hnd) as (Hw1 & Hin1 & Hc1). cbn zeta in *.
    set (s1 := t_delete (fun r => mem_rowid (rowid r) pg) s) in *.
    apply IH in H; [|apply fs_remove_wf; exact Hw1].
    rewrite !fs_remove_rows in H.
    destruct H as (Hw' & Hsub & Hn & Hord & j & Hj1 & Hj2 & Hj3).
    split; [exact Hw'|]. split; [intros r Hr; apply Hsub, Hin1 in Hr; tauto|]. split; [lia|]. split.
    + intros r r' [Hr Hnr] Hr'.
      destruct (mem_rowid (rowid r) pg) eqn:Em.
      * apply mem_sel_iff with (t := rows s) in Em; auto.
        apply Hsub, Hin1 in Hr' as [Hr'1 Hr'2].
        unfold pg in Em, Hr'2. eapply order_limit_prefix_z; eauto.
      * apply Hord; auto. split; [rewrite fs_remove_rows|exact Hnr]. apply Hin1. split; auto.
        intros Hi. apply mem_sel_iff with (t := rows s) in Hi; auto. congruence.
    + exists (S j). rewrite skipn_S_tl. split; [exact Hj1|]. split.
      * intros E. rewrite E in Hlen. cbn [length] in Hlen. lia.
      * destruct (Nat.lt_ge_cases (length pg) (Z.to_nat cull_page)) as [Hlt|Hge].
        -- assert (E1 : rows s1 = []).
           { destruct (rows s1); [reflexivity|]. cbn [length] in Hc1. lia. }
           assert (E2 : rows s' = []).
           { destruct (rows s') as [|a l] eqn:E2; [reflexivity|]. exfalso.
             specialize (Hsub a (or_introl eq_refl)). rewrite E1 in Hsub. exact Hsub. }
           rewrite (Hj2 E1). rewrite E1 in Hc1. rewrite E2. cbn [length] in *. lia.
        -- lia.
Qed.

(* _select_delete with a page query that returns rows of the table satisfying P, each at most once *)
Lemma select_delete_spec (P : row -> Prop) sel next :
  (forall b t r, In r (sel b t) -> In r t /\ P r) ->
  (forall b t, NoDup t -> NoDup (sel b t)) ->
  forall fuel b s cnt s' n, wf s -> select_delete fuel sel next b s cnt = (s', RInt n) ->
  wf s'
  /\ (forall r, In r (rows s') -> In r (rows s))
  /\ (forall r, removed s s' r -> P r)
  /\ n = cnt + Z.of_nat (length (rows s)) - Z.of_nat (length (rows s')).
Proof.
  intros Hsel Hnd. induction fuel as [|f IH]; intros b s cnt s' n Hw H; cbn [select_delete] in H; [discriminate|].
  destruct (sel b (rows s)) as [|x pg'] eqn:Epg.
  - injection H as <- <-. repeat split; auto; try lia. intros r [H1 H2]. tauto.
  - rewrite <- Epg in H.
    set (pg := sel b (rows s)) in *.
    assert (Hincl : incl pg (rows s)) by (intros r Hr; apply Hsel in Hr; tauto).
    assert (Hndp : NoDup pg) by (apply Hnd; eapply NoDup_map_NoDup; eauto).
    assert (Hdel : t_delete (select_delete_delete (map rowid pg) (rows s)) s
                   = t_delete (fun r => mem_rowid (rowid r) pg) s).
    { apply t_delete_ext. intros r. rewrite bridge_select_delete_delete. apply existsb_ids. }
    rewrite Hdel in H. clear Hdel.
    destruct (delete_sel_facts s pg Hw Hincl Hndp) as (Hw1 & Hin1 & Hc1). cbn zeta in *.
    set (s1 := t_delete (fun r => mem_rowid (rowid r) pg) s) in *.
    apply IH in H; [|apply fs_remove_wf; exact Hw1].
    rewrite !fs_remove_rows in H.
    destruct H as (Hw' & Hsub & HP & Hn).
    split; [exact Hw'|]. split; [intros r Hr; apply Hsub, Hin1 in Hr; tauto|]. split; [|lia].
    intros r [Hr Hnr].
    destruct (mem_rowid (rowid r) pg) eqn:Em.
    + apply mem_sel_iff with (t := rows s) in Em; auto. apply Hsel in Em. tauto.
    + apply HP. split; [rewrite fs_remove_rows|exact Hnr]. apply Hin1. split; auto.
      intros Hi. apply mem_sel_iff with (t := rows s) in Hi; auto. congruence.
Qed.

(* expire(now) removes only rows with 0 <= expire_time < now and returns how many *)
Lemma op_expire_spec s now s' n :
  wf s -> op_expire s now = (s', RInt n) ->
  wf s'
  /\ (forall r, In r (rows s') -> In r (rows s))
  /\ (forall r, removed s s' r -> passed now r = true)
  /\ n = Z.of_nat (length (rows s)) - Z.of_nat (length (rows s')).
Proof.
  intros Hw H. unfold op_expire in H.
  assert (Hsel : forall b t r, In r (expire_select b now expire_page t) -> In r t /\ passed now r = true).
  { intros b t r Hr. rewrite bridge_expire_select in Hr. apply select_shape_incl in Hr. destruct Hr as [Hr Hd].
    split; [exact Hr|]. unfold expire_due in Hd. unfold passed. destruct (expire_time r); [lia|discriminate]. }
  assert (Hnd : forall b t, NoDup t -> NoDup (expire_select b now expire_page t)).
  { intros b t Ht. rewrite bridge_expire_select. apply select_shape_nodup. exact Ht. }
  destruct (select_delete_spec (fun r => passed now r = true) _ _ Hsel Hnd _ _ _ _ _ _ Hw H) as (H1 & H2 & H3 & H4).
  repeat split; auto; lia.
Qed.

(* ... and all of them: after expire(now) no row with 0 <= expire_time < now is left, however many share one time
   (the lower bound of the page query is inclusive; processed rows are deleted, so none is selected twice) *)
Lemma last_in {A} (l : list A) d : l <> [] -> In (last l d) l.
Proof.
  induction l as [|a l IH]; [congruence|]. intros _. destruct l as [|b l]; [left; reflexivity|].
  right. apply IH. discriminate.
Qed.

Lemma expire_loop_complete now : forall fuel b s cnt s' n,
  wf s ->
  (forall r, In r (rows s) -> expire_due 0 now r = true -> expire_due b now r = true) ->
  select_delete fuel (fun b t => expire_select b now expire_page t) (fun r => time_or_zero (expire_time r)) b s cnt = (s', RInt n) ->
  forall r, In r (rows s') -> expire_due 0 now r = false.
Proof.
  induction fuel as [|f IH]; intros b s cnt s' n Hw Hinv H; cbn [select_delete] in H; [discriminate|].
  destruct (expire_select b now expire_page (rows s)) as [|x pg'] eqn:Epg.
  - injection H as <- <-. intros r Hr. destruct (expire_due 0 now r) eqn:Ed; [|reflexivity]. exfalso.
    rewrite bridge_expire_select in Epg. apply sql_limit_nil in Epg; [|discriminate].
    assert (Hin : In r (sql_order false [ord_optz expire_time] (filter (expire_due b now) (rows s)))).
    { apply sql_order_in, filter_In. split; [exact Hr|]. apply Hinv; auto. }
    rewrite Epg in Hin. exact Hin.
  - rewrite <- Epg in H. remember (expire_select b now expire_page (rows s)) as pg eqn:Hpg.
    rewrite bridge_expire_select in Hpg.
    assert (Hsel : forall r, In r pg -> In r (rows s) /\ expire_due b now r = true).
    { intros r Hr. rewrite Hpg in Hr. apply select_shape_incl in Hr. exact Hr. }
    assert (Hincl : incl pg (rows s)) by (intros r Hr; apply Hsel in Hr; tauto).
    assert (Hndp : NoDup pg).
    { rewrite Hpg. apply select_shape_nodup. eapply NoDup_map_NoDup; eauto. }
    assert (Hdel : t_delete (select_delete_delete (map rowid pg) (rows s)) s
                   = t_delete (fun r => mem_rowid (rowid r) pg) s).
    { apply t_delete_ext. intros r. rewrite bridge_select_delete_delete. apply existsb_ids. }
    rewrite Hdel in H. clear Hdel.
    destruct (delete_sel_facts s pg Hw Hincl Hndp) as (Hw1 & Hin1 & Hc1). cbn zeta in *.
    eapply IH; [| |exact H]; [apply fs_remove_wf; exact Hw1|].
    rewrite fs_remove_rows. intros r Hr Hd. apply Hin1 in Hr. destruct Hr as [Hr Hnp].
    pose proof (Hinv r Hr Hd) as Hb.
    assert (Hl : In (last pg dummy_row) pg) by (apply last_in; rewrite Epg; discriminate).
    destruct (Hsel _ Hl) as [_ Hlb].
    unfold expire_due in *. destruct (expire_time r) as [e|] eqn:Ee; [|discriminate].
    destruct (expire_time (last pg dummy_row)) as [el|] eqn:El; [|discriminate]. cbn [time_or_zero].
    assert (el <= e).
    { rewrite Hpg in Hl, Hnp, El.
      eapply order_limit_prefix_optz; [exact Hl| |exact Hnp|exact El|exact Ee].
      apply filter_In. split; [exact Hr|]. unfold expire_due. rewrite Ee. exact Hb. }
    lia.
Qed.

Theorem op_expire_complete s now s' n :
  wf s -> op_expire s now = (s', RInt n) -> forall r, In r (rows s') -> expire_due 0 now r = false.
Proof.
  intros Hw H. unfold op_expire in H. eapply expire_loop_complete; eauto.
Qed.

(* cull(): the full statement.  vols = the page part of volume() at each evaluation of the loop test. *)
Theorem op_cull_spec c s now vols s' n :
  wf s -> op_cull c s now vols = (s', RInt n) ->
  exists s1 n1,
    (* first expire(now): only passed rows go *)
    op_expire s now = (s1, RInt n1)
    /\ (forall r, removed s s1 r -> passed now r = true)
    /\ (forall r, In r (rows s1) -> expire_due 0 now r = false)
    (* then rows of what is left, in policy order *)
    /\ (forall r, In r (rows s') -> In r (rows s1)) /\ (forall r, In r (rows s1) -> In r (rows s))
    /\ (forall r r', removed s1 s' r -> In r' (rows s') -> policy_key (c_policy c) r <= policy_key (c_policy c) r')
    /\ (c_policy c = PNone -> s' = s1)
    (* until the volume is no larger than the limit or nothing is left: j pages of cull_page rows (the last may be short) *)
    /\ (c_policy c <> PNone ->
        exists j : nat,
          (volume (hd_vol (skipn j vols)) s' <= c_size_limit c \/ rows s' = [])
          /\ Z.of_nat j * cull_page - cull_page < Z.of_nat (length (rows s1)) - Z.of_nat (length (rows s'))
             <= Z.of_nat j * cull_page)
    (* and the number returned is the number of rows removed *)
    /\ n = Z.of_nat (length (rows s)) - Z.of_nat (length (rows s'))
    /\ wf s'.
Proof.
  intros Hw H. unfold op_cull in H.
  destruct (op_expire s now) as [s1 r1] eqn:Ee.
  destruct r1 as [| n1 | | | | | | |]; try discriminate.
  exists s1, n1. split; [reflexivity|].
  destruct (op_expire_spec s now s1 n1 Hw Ee) as (Hw1 & Hsub1 & Hp1 & Hn1).
  split; [exact Hp1|].
  split; [exact (op_expire_complete s now s1 n1 Hw Ee)|].
  rewrite bridge_policy_has_cull in H. destruct (is_pnone (c_policy c)) eqn:Ep; cbn [negb] in H.
  - rewrite bridge_cull_none_returns_count in H. injection H as <- <-.
    repeat split; auto.
    + intros r r' [H1 H2]. tauto.
    + intros Hne. destruct (c_policy c); try discriminate. tauto.
  - destruct (cull_loop_spec c Ep _ _ _ _ _ _ Hw1 H) as (Hw' & Hsub & Hn & Hord & j & Hj1 & Hj2 & Hj3).
    repeat split; auto; try lia.
    + intros E. rewrite E in Ep. discriminate.
    + intros _. exists j. split; auto.
Qed.

(* the fuel given by op_cull always suffices: no page is empty, so every iteration removes a row *)
Lemma cull_loop_fuel c :
  is_pnone (c_policy c) = false ->
  forall fuel vols s cnt, wf s -> (length (rows s) < fuel)%nat ->
  exists s' n, cull_loop fuel c vols s cnt = (s', RInt n).
Proof.
  intros Hp. destruct bridge_cull_page as [Epd Epos].
  induction fuel as [|f IH]; intros vols s cnt Hw Hf; [lia|]. cbn [cull_loop].
  destruct (cull_over_limit (volume (hd_vol vols) s) (c_size_limit c)); [|eauto].
  rewrite bridge_policy_cull_select, Hp.
  destruct (sql_limit cull_page (sql_order false [ord_z (policy_key (c_policy c))] (rows s))) as [|x pg'] eqn:Epg; [eauto|].
  rewrite <- Epg.
  set (pg := sql_limit cull_page (sql_order false [ord_z (policy_key (c_policy c))] (rows s))) in *.
  assert (Hincl : incl pg (rows s)).
  { intros r Hr. unfold pg in Hr. apply sql_limit_incl, sql_order_in in Hr. exact Hr. }
  assert (Hnd : NoDup pg).
  { unfold pg. apply sql_limit_nodup, sql_order_nodup. eapply NoDup_map_NoDup; eauto. }
  assert (Hdel : t_delete (policy_cullall_delete (c_policy c) cull_page_delete (rows s)) s
                 = t_delete (fun r => mem_rowid (rowid r) pg) s).
  { apply t_delete_ext. intros r. rewrite bridge_policy_cullall_delete, Epd, bridge_policy_cull_select, Hp. reflexivity. }
  rewrite Hdel. destruct (delete_sel_facts s pg Hw Hincl Hnd) as (Hw1 & Hin1 & Hc1). cbn zeta in *.
  apply IH; [apply fs_remove_wf; exact Hw1|]. rewrite fs_remove_rows.
  assert (0 < length pg)%nat by (rewrite Epg; cbn; lia). lia.
Qed.

(* ================================================================ the writes: row change, then _cull *)
Definition stamped (now : Z) (r : row) : Prop := store_time r = now /\ access_time r = now /\ access_count r = 0.

(* the row change of a write, before _cull: `sel` is what the SELECT for the key returned *)
Definition write_rows (now : Z) (sel : list row) (dbk : sqlval) (raw : bool) (t t2 : list row) : Prop :=
  match sel with
  | [] => exists r, t2 = t ++ [r] /\ rowid r = next_rowid t /\ rkey r = dbk /\ rraw r = raw /\ stamped now r
  | r0 :: _ => exists f, t2 = map (fun r => if rowid r =? rowid r0 then f r else r) t /\
                         forall r, rowid (f r) = rowid r /\ rkey (f r) = rkey r /\ rraw (f r) = rraw r /\ stamped now (f r)
  end.

(* Settings.size follows the rows (triggers) *)
Definition size_tracks (s s2 : st) : Prop :=
  n_size s2 - sumZ (map rsize (rows s2)) = n_size s - sumZ (map rsize (rows s)).

Lemma sumZ_app a b : sumZ (a ++ b) = sumZ a + sumZ b.
Proof. induction a as [|x a IH]; cbn; [reflexivity|]. rewrite IH. lia. Qed.

Lemma insert_write dbk raw now exp tag sd fid s :
  let s2 := t_insert (columns_insert dbk raw now exp tag sd fid) s in
  write_rows now [] dbk raw (rows s) (rows s2) /\ size_tracks s s2.
Proof.
  cbn zeta. split.
  - cbn [write_rows]. eexists. split; [apply t_insert_rows|]. unfold columns_insert.
    destruct (bridge_row_insert dbk raw now exp now 0 tag (s_size sd) (s_mode sd) fid (s_col sd) (next_rowid (rows s)))
      as (H1 & H2 & H3 & H4 & H5 & H6 & H7 & H8).
    unfold stamped. tauto.
  - unfold size_tracks. rewrite t_insert_size, t_insert_rows, map_app, sumZ_app. cbn. lia.
Qed.

Lemma update_write r0 l dbk raw now exp tag sd fid s :
  let s2 := columns_update (rowid r0) now exp tag sd fid s in
  write_rows now (r0 :: l) dbk raw (rows s) (rows s2) /\ size_tracks s s2.
Proof.
  cbn zeta. unfold columns_update. split.
  - cbn [write_rows]. exists (row_update_set now exp now 0 tag (s_size sd) (s_mode sd) fid (s_col sd) (rowid r0)). split.
    + rewrite t_update_rows. apply map_ext. intros r. rewrite bridge_row_update_where. reflexivity.
    + intros r.
      destruct (bridge_row_update_set now exp now 0 tag (s_size sd) (s_mode sd) fid (s_col sd) (rowid r0) r)
        as (H1 & H2 & H3 & H4 & H5 & H6 & H7 & H8).
      unfold stamped. tauto.
  - unfold size_tracks. rewrite t_update_size. lia.
Qed.

Lemma fs_write_rows s x s1 fid : fs_write s x = (s1, fid) -> rows s1 = rows s /\ n_size s1 = n_size s.
Proof. unfold fs_write. destruct x; intros H; injection H as <- <-; split; reflexivity. Qed.

(* shape shared by the stored branch of every write *)
Definition stored_then_cull (c : cfg) (now pg : Z) (sel : list row) (dbk : sqlval) (raw : bool) (s s' : st) : Prop :=
  exists s2, write_rows now sel dbk raw (rows s) (rows s2) /\ size_tracks s s2
             /\ rows s' = rows (fst (cull c now pg s2)) /\ n_size s' = n_size (fst (cull c now pg s2)).

Lemma fs_remove1_rows s o : rows (fs_remove1 s o) = rows s.
Proof. destruct o; reflexivity. Qed.
Lemma fs_remove1_size s o : n_size (fs_remove1 s o) = n_size s.
Proof. destruct o; reflexivity. Qed.

Lemma stored_intro c now pg sel dbk raw s s1 s2 s3 cl s' :
  rows s1 = rows s -> n_size s1 = n_size s ->
  write_rows now sel dbk raw (rows s1) (rows s2) /\ size_tracks s1 s2 ->
  cull c now pg s2 = (s3, cl) -> rows s' = rows s3 -> n_size s' = n_size s3 ->
  stored_then_cull c now pg sel dbk raw s s'.
Proof.
  intros R N [W T] C R' N'. exists s2. rewrite <- R. unfold size_tracks in *. rewrite <- R, <- N.
  rewrite C. cbn [fst]. tauto.
Qed.

Ltac fs_done := rewrite ?fs_remove_rows, ?fs_remove_size, ?fs_remove1_rows, ?fs_remove1_size; reflexivity.

Theorem op_set_decompose c s k v read e tag now pg s' res :
  op_set c s k v read e tag now pg = (s', res) ->
  (s' = s /\ res <> RBool true)
  \/ exists dbk raw, put (c_codec c) k = PutOk dbk raw /\ res = RBool true
       /\ stored_then_cull c now pg (set_select dbk (b2z raw) (rows s)) dbk raw s s'.
Proof.
  unfold op_set. destruct (put (c_codec c) k) as [dbk raw|] eqn:Ep;
    [|intros H; injection H as <- <-; left; split; [reflexivity|discriminate]].
  destruct (store (c_codec c) (c_min_file_size c) v read) as [sd|] eqn:Es;
    [|intros H; injection H as <- <-; left; split; [reflexivity|discriminate]].
  destruct (fs_write s (s_file sd)) as [s1 fid] eqn:Ef. destruct (fs_write_rows _ _ _ _ Ef) as [R N].
  rewrite R. destruct (set_select dbk (b2z raw) (rows s)) as [|r0 l] eqn:Esel.
  - destruct (cull c now pg (t_insert (columns_insert dbk raw now (expire_at now e) tag sd fid) s1)) as [s3 cl2] eqn:Ec.
    intros H; injection H as <- <-. right. exists dbk, raw. rewrite Esel. repeat split; auto.
    eapply stored_intro with (s1 := s1) (s3 := s3); eauto; [apply insert_write|fs_done|fs_done].
  - destruct (cull c now pg (columns_update (rowid r0) now (expire_at now e) tag sd fid s1)) as [s3 cl2] eqn:Ec.
    intros H; injection H as <- <-. right. exists dbk, raw. rewrite Esel. repeat split; auto.
    eapply stored_intro with (s1 := s1) (s3 := s3); eauto; [apply update_write|fs_done|fs_done].
Qed.

Theorem op_add_decompose c s k v read e tag now pg s' res :
  op_add c s k v read e tag now pg = (s', res) ->
  (rows s' = rows s /\ n_size s' = n_size s /\ res <> RBool true)
  \/ exists dbk raw, put (c_codec c) k = PutOk dbk raw /\ res = RBool true
       /\ stored_then_cull c now pg (add_select dbk (b2z raw) (rows s)) dbk raw s s'.
Proof.
  unfold op_add. destruct (put (c_codec c) k) as [dbk raw|] eqn:Ep;
    [|intros H; injection H as <- <-; left; repeat split; discriminate].
  destruct (store (c_codec c) (c_min_file_size c) v read) as [sd|] eqn:Es;
    [|intros H; injection H as <- <-; left; repeat split; discriminate].
  destruct (fs_write s (s_file sd)) as [s1 fid] eqn:Ef. destruct (fs_write_rows _ _ _ _ Ef) as [R N].
  rewrite R. destruct (add_select dbk (b2z raw) (rows s)) as [|r0 l] eqn:Esel.
  - destruct (cull c now pg (t_insert (columns_insert dbk raw now (expire_at now e) tag sd fid) s1)) as [s3 cl2] eqn:Ec.
    intros H; injection H as <- <-. right. exists dbk, raw. rewrite Esel. repeat split; auto.
    eapply stored_intro with (s1 := s1) (s3 := s3); eauto; [apply insert_write|fs_done|fs_done].
  - destruct (add_live (expire_time r0) now).
    + intros H; injection H as <- <-. left. rewrite ?fs_remove_rows, ?fs_remove_size, ?fs_remove1_rows, ?fs_remove1_size. repeat split; auto. discriminate.
    + destruct (cull c now pg (columns_update (rowid r0) now (expire_at now e) tag sd fid s1)) as [s3 cl2] eqn:Ec.
      intros H; injection H as <- <-. right. exists dbk, raw. rewrite Esel. repeat split; auto.
      eapply stored_intro with (s1 := s1) (s3 := s3); eauto; [apply update_write|fs_done|fs_done].
Qed.

Theorem op_push_decompose c s v read prefix sd_ e tag now pg s' res :
  op_push c s v read prefix sd_ e tag now pg = (s', res) ->
  (s' = s /\ res = RRaise EStore)
  \/ exists dbk, res = RKey dbk /\ stored_then_cull c now pg [] dbk true s s'.
Proof.
  unfold op_push. destruct (store (c_codec c) (c_min_file_size c) v read) as [sd|] eqn:Es;
    [|intros H; injection H as <- <-; left; split; reflexivity].
  destruct (fs_write s (s_file sd)) as [s1 fid] eqn:Ef. destruct (fs_write_rows _ _ _ _ Ef) as [R N].
  cbn zeta.
  match goal with |- context [t_insert (columns_insert ?k true now ?x tag sd fid) s1] =>
    set (dbk := k); destruct (cull c now pg (t_insert (columns_insert dbk true now x tag sd fid) s1)) as [s3 cl2] eqn:Ec end.
  intros H; injection H as <- <-. right. exists dbk. split; [reflexivity|].
  eapply stored_intro with (s1 := s1) (s3 := s3); eauto; [apply insert_write|fs_done|fs_done].
Qed.

(* incr: a missing or expired counter is (re)created like a set; a live one is refreshed in place, without _cull *)
Theorem op_incr_decompose c s k delta default now pg s' res :
  op_incr c s k delta default now pg = (s', res) ->
  (s' = s /\ exists e, res = RRaise e)
  \/ (exists dbk raw, put (c_codec c) k = PutOk dbk raw
        /\ match incr_select dbk (b2z raw) (rows s) with
           | [] => True
           | r0 :: _ => incr_expired (expire_time r0) now = true
           end
        /\ stored_then_cull c now pg (incr_select dbk (b2z raw) (rows s)) dbk raw s s')
  \/ (exists dbk raw r0 l z, put (c_codec c) k = PutOk dbk raw
        /\ incr_select dbk (b2z raw) (rows s) = r0 :: l /\ incr_expired (expire_time r0) now = false
        /\ rows s' = map (fun r => if rowid r =? rowid r0 then incr_refresh (c_policy c) now (SInt z) r else r) (rows s)).
Proof.
  unfold op_incr. destruct (put (c_codec c) k) as [dbk raw|] eqn:Ep;
    [|intros H; injection H as <- <-; left; split; [reflexivity|eexists; reflexivity]].
  cbn zeta.
  destruct (incr_select dbk (b2z raw) (rows s)) as [|r0 l] eqn:Esel.
  - destruct default as [d|]; [|intros H; injection H as <- <-; left; split; [reflexivity|eexists; reflexivity]].
    destruct (store (c_codec c) (c_min_file_size c) (VInt (d + delta)) false) as [sd|] eqn:Es;
      [|intros H; injection H as <- <-; left; split; [reflexivity|eexists; reflexivity]].
    destruct (fs_write s (s_file sd)) as [s1 fid] eqn:Ef. destruct (fs_write_rows _ _ _ _ Ef) as [R N].
    destruct (cull c now pg (t_insert (columns_insert dbk raw now None SNull sd fid) s1)) as [s3 cl2] eqn:Ec.
    intros H; injection H as <- <-. right. left. exists dbk, raw. rewrite Esel. repeat split; auto.
    eapply stored_intro with (s1 := s1) (s3 := s3); eauto; [apply insert_write|fs_done|fs_done].
  - destruct (incr_expired (expire_time r0) now) eqn:Ex.
    + destruct default as [d|]; [|intros H; injection H as <- <-; left; split; [reflexivity|eexists; reflexivity]].
      destruct (store (c_codec c) (c_min_file_size c) (VInt (d + delta)) false) as [sd|] eqn:Es;
        [|intros H; injection H as <- <-; left; split; [reflexivity|eexists; reflexivity]].
      destruct (fs_write s (s_file sd)) as [s1 fid] eqn:Ef. destruct (fs_write_rows _ _ _ _ Ef) as [R N].
      destruct (cull c now pg (columns_update (rowid r0) now None SNull sd fid s1)) as [s3 cl2] eqn:Ec.
      intros H; injection H as <- <-. right. left. exists dbk, raw. rewrite Esel. repeat split; auto.
      eapply stored_intro with (s1 := s1) (s3 := s3); eauto; [apply update_write|fs_done|fs_done].
    + destruct (rvalue r0) as [|z| | |]; try (intros H; injection H as <- <-; left; split; [reflexivity|eexists; reflexivity]).
      destruct (in_int64 (z + delta)); [|intros H; injection H as <- <-; left; split; [reflexivity|eexists; reflexivity]].
      intros H; injection H as <- <-. right. right. exists dbk, raw, r0, l, (z + delta). repeat split; auto.
      rewrite t_update_rows. apply map_ext. intros r. rewrite bridge_incr_update. destruct (rowid r =? rowid r0); reflexivity.
Qed.

(* get: a hit refreshes the policy column of that row only; nothing is ever removed *)
Theorem op_get_rows c s k read now s' res :
  op_get c s k read now = (s', res) ->
  match res with
  | RVal _ _ _ =>
      exists dbk raw r0 l, put (c_codec c) k = PutOk dbk raw /\ get_select dbk (b2z raw) now (rows s) = r0 :: l
        /\ rows s' = map (fun r => if rowid r =? rowid r0 then get_refresh (c_policy c) now r else r) (rows s)
  | _ => rows s' = rows s
  end.
Proof.
  unfold op_get. destruct (put (c_codec c) k) as [dbk raw|] eqn:Ep; [|intros H; injection H as <- <-; reflexivity].
  assert (Hbump : forall b, rows (bump s b) = rows s).
  { intros b. unfold bump. destruct (statistics s); [destruct b|]; reflexivity. }
  rewrite bridge_policy_has_get.
  destruct (get_select dbk (b2z raw) now (rows s)) as [|r0 l] eqn:Esel.
  - destruct (get_fast_path _ _); intros H; injection H as <- <-; [reflexivity|apply Hbump].
  - destruct (get_fast_path _ _) eqn:Efast.
    + assert (Hp : get_refresh (c_policy c) now = fun r => r).
      { unfold get_fast_path in Efast. destruct (c_policy c); cbn in Efast; try reflexivity;
          rewrite andb_false_r in Efast; discriminate. }
      destruct (fetch_row c s r0 read) eqn:Ef; intros H; injection H as <- <-; try reflexivity;
        exists dbk, raw, r0, l; repeat split; auto; rewrite Hp;
        symmetry; rewrite <- (map_id (rows s)) at 2; apply map_ext; intros r; destruct (rowid r =? rowid r0); reflexivity.
    + destruct (fetch_row c s r0 read) eqn:Ef; intros H; injection H as <- <-; try apply Hbump;
        exists dbk, raw, r0, l; repeat split; auto;
        (destruct (c_policy c) eqn:Epol; cbn [get_refresh];
         [ rewrite Hbump; symmetry; rewrite <- (map_id (rows s)) at 2; apply map_ext; intros r; destruct (rowid r =? rowid r0); reflexivity
         | rewrite Hbump; symmetry; rewrite <- (map_id (rows s)) at 2; apply map_ext; intros r; destruct (rowid r =? rowid r0); reflexivity
         | rewrite t_update_rows, Hbump; apply map_ext; intros r; rewrite bridge_policy_get_update; destruct (rowid r =? rowid r0); reflexivity
         | rewrite t_update_rows, Hbump; apply map_ext; intros r; rewrite bridge_policy_get_update; destruct (rowid r =? rowid r0); reflexivity ]).
Qed.

(* ================================================================ wf is an invariant of every API call *)
Lemma wf_rows_eq s s' : rows s' = rows s -> wf s -> wf s'.
Proof. unfold wf. intros ->. tauto. Qed.

Lemma max_opt_ge l x : In x l -> exists m, max_opt l = Some m /\ x <= m.
Proof.
  induction l as [|a l IH]; cbn; [tauto|]. intros [->|H].
  - destruct (max_opt l); eexists; split; eauto; lia.
  - destruct (IH H) as (m & -> & L). eexists; split; eauto; lia.
Qed.

Lemma next_rowid_fresh t : ~ In (next_rowid t) (map rowid t).
Proof.
  unfold next_rowid. intros H. destruct (max_opt_ge _ _ H) as (m & E & L). rewrite E in L. lia.
Qed.

Lemma wf_write_rows now sel dbk raw t t2 :
  NoDup (map rowid t) -> write_rows now sel dbk raw t t2 -> NoDup (map rowid t2).
Proof.
  intros Hn. destruct sel as [|r0 l]; cbn [write_rows].
  - intros (r & -> & Hid & _). rewrite map_app. cbn [map].
    eapply Permutation_NoDup; [apply Permutation_cons_append|]. constructor; [|exact Hn].
    rewrite Hid. apply next_rowid_fresh.
  - intros (f & -> & Hf). rewrite map_map.
    erewrite map_ext; [exact Hn|]. intros r. cbn. destruct (rowid r =? rowid r0); [apply Hf|reflexivity].
Qed.

Lemma wf_cull c now pg s : wf s -> wf (fst (cull c now pg s)).
Proof.
  intros H. rewrite cull_state. destruct (c_cull_limit c =? 0); [exact H|].
  destruct (policy_runs c now pg s); [apply wf_t_delete|]; apply wf_stage1; exact H.
Qed.

Lemma wf_stored c now pg sel dbk raw s s' : wf s -> stored_then_cull c now pg sel dbk raw s s' -> wf s'.
Proof.
  intros Hw (s2 & W & _ & R & _). unfold wf. rewrite R. apply wf_cull. unfold wf. eapply wf_write_rows; eauto.
Qed.

Lemma wf_t_update wh f s : (forall r, rowid (f r) = rowid r) -> wf s -> wf (t_update wh f s).
Proof.
  intros Hf. unfold wf. rewrite t_update_rows, map_map. intros H.
  erewrite map_ext; [exact H|]. intros r. cbn. destruct (wh r); [apply Hf|reflexivity].
Qed.

Lemma wf_bump s b : wf s -> wf (bump s b).
Proof. apply wf_rows_eq. unfold bump. destruct (statistics s); [destruct b|]; reflexivity. Qed.

Lemma wf_select_delete sel next : forall fuel b s cnt, wf s -> wf (fst (select_delete fuel sel next b s cnt)).
Proof.
  induction fuel as [|f IH]; intros b s cnt Hw; cbn [select_delete]; [exact Hw|].
  destruct (sel b (rows s)) as [|x pg]; [exact Hw|]. apply IH. apply fs_remove_wf, wf_t_delete. exact Hw.
Qed.

Lemma wf_cull_loop c : forall fuel vols s cnt, wf s -> wf (fst (cull_loop fuel c vols s cnt)).
Proof.
  induction fuel as [|f IH]; intros vols s cnt Hw; cbn [cull_loop]; [exact Hw|].
  destruct (cull_over_limit _ _); [|exact Hw].
  destruct (policy_cull_select (c_policy c) cull_page (rows s)) as [|x pg]; [exact Hw|].
  apply IH. apply fs_remove_wf, wf_t_delete. exact Hw.
Qed.

Lemma wf_pull_loop c prefix sd_ now : forall fuel s, wf s -> wf (fst (op_pull_loop fuel c s prefix sd_ now)).
Proof.
  induction fuel as [|f IH]; intros s Hw; cbn [op_pull_loop]; [exact Hw|].
  destruct (pull_select sd_ prefix (rows s)) as [|r0 l]; [exact Hw|].
  destruct (pull_expired (expire_time r0) now); [apply IH, fs_remove_wf, wf_t_delete; exact Hw|].
  destruct (fetch_row _ _ _ _); try (apply fs_remove_wf, wf_t_delete; exact Hw).
  apply IH, fs_remove_wf, wf_t_delete; exact Hw.
Qed.

Lemma wf_peek_loop c prefix sd_ now : forall fuel s, wf s -> wf (fst (op_peek_loop fuel c s prefix sd_ now)).
Proof.
  induction fuel as [|f IH]; intros s Hw; cbn [op_peek_loop]; [exact Hw|].
  destruct (peek_select sd_ prefix (rows s)) as [|r0 l]; [exact Hw|].
  destruct (peek_expired (expire_time r0) now); [apply IH, fs_remove_wf, wf_t_delete; exact Hw|].
  destruct (fetch_row _ _ _ _); exact Hw.
Qed.

Lemma wf_peekitem_loop c last now : forall fuel s, wf s -> wf (fst (op_peekitem_loop fuel c s last now)).
Proof.
  induction fuel as [|f IH]; intros s Hw; cbn [op_peekitem_loop]; [exact Hw|].
  destruct (if last then peekitem_select_last (rows s) else peekitem_select_first (rows s)) as [|r0 l]; [exact Hw|].
  destruct (peekitem_expired (expire_time r0) now); [apply IH, fs_remove_wf, wf_t_delete; exact Hw|].
  destruct (fetch_row _ _ _ _); exact Hw.
Qed.

Lemma wf_init : wf init_st.
Proof. constructor. Qed.

Theorem wf_step c s o now vols : wf s -> wf (fst (step c s o now vols)).
Proof.
  intros Hw. destruct o; cbn [step].
  - destruct (op_set c s k v read expire tag now (hd_vol vols)) as [s' res] eqn:E. cbn [fst].
    destruct (op_set_decompose _ _ _ _ _ _ _ _ _ _ _ E) as [[-> _]|(dbk & raw & _ & _ & H)]; [exact Hw|].
    eapply wf_stored; eauto.
  - destruct (op_add c s k v read expire tag now (hd_vol vols)) as [s' res] eqn:E. cbn [fst].
    destruct (op_add_decompose _ _ _ _ _ _ _ _ _ _ _ E) as [(R & _ & _)|(dbk & raw & _ & _ & H)].
    + eapply wf_rows_eq; eauto.
    + eapply wf_stored; eauto.
  - unfold op_touch. destruct (put (c_codec c) k) as [dbk raw|]; [|exact Hw].
    destruct (touch_select dbk (b2z raw) (rows s)) as [|r0 l]; [exact Hw|].
    destruct (touch_live (expire_time r0) now); [|exact Hw]. cbn [fst]. apply wf_t_update; auto.
  - destruct (op_incr c s k delta default now (hd_vol vols)) as [s' res] eqn:E. cbn [fst].
    destruct (op_incr_decompose _ _ _ _ _ _ _ _ _ E) as [[-> _]|[(dbk & raw & _ & _ & H)|(dbk & raw & r0 & l & z & _ & _ & _ & R)]].
    + exact Hw.
    + eapply wf_stored; eauto.
    + unfold wf. rewrite R, map_map. erewrite map_ext; [exact Hw|].
      intros r. cbn. destruct (rowid r =? rowid r0); reflexivity.
  - destruct (op_get c s k read now) as [s' res] eqn:E. cbn [fst].
    pose proof (op_get_rows _ _ _ _ _ _ _ E) as H.
    destruct res; try (eapply wf_rows_eq; eauto).
    destruct H as (dbk & raw & r0 & l & _ & _ & R). unfold wf. rewrite R, map_map. erewrite map_ext; [exact Hw|].
    intros r. cbn. destruct (rowid r =? rowid r0); [|reflexivity]. destruct (c_policy c); reflexivity.
  - unfold op_contains. destruct (put (c_codec c) k); exact Hw.
  - unfold op_pop. destruct (put (c_codec c) k) as [dbk raw|]; [|exact Hw].
    destruct (pop_select dbk (b2z raw) now (rows s)) as [|r0 l]; [exact Hw|].
    destruct (fetch_row _ _ _ _); cbn [fst]; apply fs_remove_wf, wf_t_delete; exact Hw.
  - unfold op_delete. destruct (put (c_codec c) k) as [dbk raw|]; [|exact Hw].
    destruct (del_select dbk (b2z raw) now (rows s)) as [|r0 l]; [exact Hw|].
    cbn [fst]. apply fs_remove_wf, wf_t_delete; exact Hw.
  - destruct (op_push c s v read prefix sd expire tag now (hd_vol vols)) as [s' res] eqn:E. cbn [fst].
    destruct (op_push_decompose _ _ _ _ _ _ _ _ _ _ _ _ E) as [[-> _]|(dbk & _ & H)]; [exact Hw|].
    eapply wf_stored; eauto.
  - apply wf_pull_loop; exact Hw.
  - apply wf_peek_loop; exact Hw.
  - apply wf_peekitem_loop; exact Hw.
  - apply wf_select_delete; exact Hw.
  - apply wf_select_delete; exact Hw.
  - unfold op_cull. pose proof (wf_select_delete (fun b t => expire_select b now expire_page t)
                                  (fun r => time_or_zero (expire_time r)) (S (length (rows s))) 0 s 0 Hw) as H1.
    fold (op_expire s now) in H1. destruct (op_expire s now) as [s1 r1]. cbn [fst] in H1.
    destruct r1; try exact H1. destruct (policy_has_cull (c_policy c)); [apply wf_cull_loop|]; exact H1.
  - apply wf_select_delete; exact Hw.
  - exact Hw.
  - unfold op_iter. destruct (iter_max (rows s)); exact Hw.
  - unfold op_iterkeys. destruct (if rev then _ else _); exact Hw.
  - exact Hw.
Qed.

(* every state reachable from the empty cache is well formed *)
Fixpoint run_ops (c : cfg) (s : st) (l : list (op * Z * list Z)) : st :=
  match l with
  | [] => s
  | (o, now, vols) :: r => run_ops c (fst (step c s o now vols)) r
  end.

Theorem wf_reachable c l : wf (run_ops c init_st l).
Proof.
  assert (G : forall s, wf s -> wf (run_ops c s l)).
  { induction l as [|[[o now] vols] l IH]; intros s Hw; cbn [run_ops]; [exact Hw|]. apply IH, wf_step, Hw. }
  apply G, wf_init.
Qed.

(* ================================================================ the _cull theorems lifted to set / add / incr / push *)
Definition is_write (o : op) : bool :=
  match o with OSet _ _ _ _ _ | OAdd _ _ _ _ _ | OIncr _ _ _ | OPush _ _ _ _ _ _ => true | _ => false end.

(* every eviction theorem holds for the _cull at the end of a stored write, on the table as the write left it *)
Theorem stored_evicts c now pg sel dbk raw s s' :
  wf s -> stored_then_cull c now pg sel dbk raw s s' ->
  exists s2,
    write_rows now sel dbk raw (rows s) (rows s2) /\ size_tracks s s2 /\ wf s2
    /\ (forall r, In r (rows s') -> In r (rows s2))
    /\ (0 <= c_cull_limit c -> Z.of_nat (length (rows s2)) - Z.of_nat (length (rows s')) <= c_cull_limit c)
    /\ (c_cull_limit c = 0 -> rows s' = rows s2)
    /\ (forall r, In r (rows s2) -> ~ In r (rows s') -> passed now r = false ->
          c_size_limit c <= volume pg (stage1 c now s2) /\ c_policy c <> PNone /\ c_cull_limit c <> 0
          /\ forall r', In r' (rows s') -> policy_key (c_policy c) r <= policy_key (c_policy c) r')
    /\ (c_policy c = PNone -> forall r, In r (rows s2) -> ~ In r (rows s') -> passed now r = true).
Proof.
  intros Hw (s2 & W & T & R & N). exists s2.
  assert (Hw2 : wf s2) by (unfold wf; eapply wf_write_rows; eauto).
  rewrite R. repeat split; auto.
  - apply cull_sub.
  - intros H. apply cull_bound; auto.
  - intros H. rewrite cull_zero by exact H. reflexivity.
  - eapply cull_only_at_limit; eauto. split; eauto.
  - intros E. destruct (cull_only_at_limit c now pg s2 r Hw2 (conj H H0) H1) as (_ & H2 & _). tauto.
  - destruct (cull_only_at_limit c now pg s2 r Hw2 (conj H H0) H1) as (_ & _ & H2). exact H2.
  - intros r' Hr'. eapply cull_order; eauto. split; eauto.
  - intros E r Hr Hn. eapply cull_none_never; eauto. split; eauto.
Qed.

(* One write removes at most cull_limit rows (none when it is zero): t2 is the table after the row change of the
   write itself (nothing / insert / update in place / incr refresh); what the call leaves is t2 minus at most
   cull_limit rows. *)
Theorem write_bound c s o now vols s' res :
  wf s -> 0 <= c_cull_limit c -> is_write o = true -> step c s o now vols = (s', res) ->
  exists t2,
    (t2 = rows s
     \/ (exists sel dbk raw, write_rows now sel dbk raw (rows s) t2)
     \/ (exists r0 v, t2 = map (fun r => if rowid r =? rowid r0 then incr_refresh (c_policy c) now v r else r) (rows s)))
    /\ (length (rows s) <= length t2)%nat
    /\ (forall r, In r (rows s') -> In r t2)
    /\ Z.of_nat (length t2) - Z.of_nat (length (rows s')) <= c_cull_limit c
    /\ (c_cull_limit c = 0 -> rows s' = t2).
Proof.
  intros Hw Hl Ho H.
  assert (Same : rows s' = rows s -> exists t2,
    (t2 = rows s
     \/ (exists sel dbk raw, write_rows now sel dbk raw (rows s) t2)
     \/ (exists r0 v, t2 = map (fun r => if rowid r =? rowid r0 then incr_refresh (c_policy c) now v r else r) (rows s)))
    /\ (length (rows s) <= length t2)%nat
    /\ (forall r, In r (rows s') -> In r t2)
    /\ Z.of_nat (length t2) - Z.of_nat (length (rows s')) <= c_cull_limit c
    /\ (c_cull_limit c = 0 -> rows s' = t2)).
  { intros R. exists (rows s). rewrite R. repeat split; auto; lia. }
  assert (Stored : forall sel dbk raw, stored_then_cull c now (hd_vol vols) sel dbk raw s s' -> exists t2,
    (t2 = rows s
     \/ (exists sel dbk raw, write_rows now sel dbk raw (rows s) t2)
     \/ (exists r0 v, t2 = map (fun r => if rowid r =? rowid r0 then incr_refresh (c_policy c) now v r else r) (rows s)))
    /\ (length (rows s) <= length t2)%nat
    /\ (forall r, In r (rows s') -> In r t2)
    /\ Z.of_nat (length t2) - Z.of_nat (length (rows s')) <= c_cull_limit c
    /\ (c_cull_limit c = 0 -> rows s' = t2)).
  { intros sel dbk raw St. destruct (stored_evicts _ _ _ _ _ _ _ _ Hw St) as (s2 & W & _ & _ & Hsub & Hb & Hz & _).
    exists (rows s2). split; [right; left; eauto|]. split; [|auto].
    destruct sel as [|r0 l]; cbn [write_rows] in W.
    - destruct W as (r & -> & _). rewrite app_length. lia.
    - destruct W as (f & -> & _). rewrite map_length. lia. }
  destruct o; try discriminate; cbn [step] in H.
  - destruct (op_set_decompose _ _ _ _ _ _ _ _ _ _ _ H) as [[-> _]|(dbk & raw & _ & _ & St)]; eauto.
  - destruct (op_add_decompose _ _ _ _ _ _ _ _ _ _ _ H) as [(R & _ & _)|(dbk & raw & _ & _ & St)]; eauto.
  - destruct (op_incr_decompose _ _ _ _ _ _ _ _ _ H)
      as [[-> _]|[(dbk & raw & _ & _ & St)|(dbk & raw & r0 & l & z & _ & _ & _ & R)]]; eauto.
    exists (rows s'). rewrite R at 1. split; [right; right; eauto|]. rewrite R, map_length.
    repeat split; auto; lia.
  - destruct (op_push_decompose _ _ _ _ _ _ _ _ _ _ _ _ H) as [[-> _]|(dbk & _ & St)]; eauto.
Qed.

(* ================================================================ policy-key maintenance *)
(* a stored write leaves exactly one freshly stamped row for its key; every other row is untouched *)
Theorem write_rows_keys now sel dbk raw t t2 :
  incl sel t -> write_rows now sel dbk raw t t2 ->
  (exists r, In r t2 /\ stamped now r
             /\ match sel with
                | [] => rkey r = dbk /\ rraw r = raw /\ rowid r = next_rowid t
                | r0 :: _ => rowid r = rowid r0 /\ rkey r = rkey r0 /\ rraw r = rraw r0
                end)
  /\ (forall r, In r t2 -> stamped now r \/ In r t).
Proof.
  intros Hi. destruct sel as [|r0 l]; cbn [write_rows].
  - intros (r & -> & Hid & Hk & Hr & Hs). split.
    + exists r. rewrite in_app_iff. cbn. tauto.
    + intros x Hx. apply in_app_or in Hx. destruct Hx as [Hx|[<-|[]]]; auto.
  - intros (f & -> & Hf). split.
    + exists (f r0). split.
      * apply in_map_iff. exists r0. rewrite Z.eqb_refl. split; [reflexivity|]. apply Hi. left. reflexivity.
      * destruct (Hf r0) as (H1 & H2 & H3 & H4). tauto.
    + intros x Hx. apply in_map_iff in Hx. destruct Hx as (r & <- & Hr).
      destruct (rowid r =? rowid r0); [left; apply Hf|right; exact Hr].
Qed.

Lemma select_key_incl dbk raw t :
  incl (set_select dbk (b2z raw) t) t /\ incl (add_select dbk (b2z raw) t) t /\ incl (incr_select dbk (b2z raw) t) t.
Proof. repeat split; intros r H; apply filter_In in H; tauto. Qed.

(* what a get-hit / a live incr does to the policy key of the row *)
Theorem refresh_keys p now v r :
  (p = PLRU -> access_time (get_refresh p now r) = now /\ access_count (get_refresh p now r) = access_count r)
  /\ (p = PLFU -> access_count (get_refresh p now r) = access_count r + 1 /\ access_time (get_refresh p now r) = access_time r)
  /\ (p = PLRS \/ p = PNone -> get_refresh p now r = r)
  /\ store_time (get_refresh p now r) = store_time r
  /\ store_time (incr_refresh p now v r) = now
  /\ access_time (incr_refresh p now v r) = access_time (get_refresh p now r)
  /\ access_count (incr_refresh p now v r) = access_count (get_refresh p now r)
  /\ rowid (get_refresh p now r) = rowid r /\ rowid (incr_refresh p now v r) = rowid r
  /\ expire_time (get_refresh p now r) = expire_time r /\ expire_time (incr_refresh p now v r) = expire_time r.
Proof.
  split; [intros ->; split; reflexivity|]. split; [intros ->; split; reflexivity|].
  split; [intros [->| ->]; reflexivity|]. repeat split; destruct p; reflexivity.
Qed.

(* ================================================================ policy none never evicts; get never removes *)
Theorem op_get_keeps c s k read now s' res :
  op_get c s k read now = (s', res) ->
  map rowid (rows s') = map rowid (rows s) /\ (c_policy c = PNone \/ c_policy c = PLRS -> rows s' = rows s).
Proof.
  intros H. pose proof (op_get_rows _ _ _ _ _ _ _ H) as R.
  destruct res; try (rewrite R; split; reflexivity).
  destruct R as (dbk & raw & r0 & l & _ & _ & R). rewrite R. split.
  - rewrite map_map. apply map_ext. intros r. destruct (rowid r =? rowid r0); [|reflexivity].
    destruct (c_policy c); reflexivity.
  - intros Hp. rewrite <- (map_id (rows s)) at 2. apply map_ext. intros r.
    destruct (rowid r =? rowid r0); [|reflexivity]. destruct Hp as [-> | ->]; reflexivity.
Qed.

(* the fuel given to expire()'s page loop suffices *)
Lemma select_delete_fuel sel next :
  (forall b t r, In r (sel b t) -> In r t) ->
  (forall b t, NoDup t -> NoDup (sel b t)) ->
  forall fuel b s cnt, wf s -> (length (rows s) < fuel)%nat ->
  exists s' n, select_delete fuel sel next b s cnt = (s', RInt n).
Proof.
  intros Hsel Hnd. induction fuel as [|f IH]; intros b s cnt Hw Hf; [lia|]. cbn [select_delete].
  destruct (sel b (rows s)) as [|x pg'] eqn:Epg; [eauto|]. rewrite <- Epg.
  set (pg := sel b (rows s)) in *.
  assert (Hincl : incl pg (rows s)) by (intros r Hr; eapply Hsel; eauto).
  assert (Hndp : NoDup pg) by (apply Hnd; eapply NoDup_map_NoDup; eauto).
  assert (Hdel : t_delete (select_delete_delete (map rowid pg) (rows s)) s
                 = t_delete (fun r => mem_rowid (rowid r) pg) s).
  { apply t_delete_ext. intros r. rewrite bridge_select_delete_delete. apply existsb_ids. }
  rewrite Hdel. destruct (delete_sel_facts s pg Hw Hincl Hndp) as (Hw1 & Hin1 & Hc1). cbn zeta in *.
  apply IH; [apply fs_remove_wf; exact Hw1|]. rewrite fs_remove_rows.
  assert (0 < length pg)%nat by (rewrite Epg; cbn; lia). lia.
Qed.

(* cull() always returns a count (never runs out of fuel) *)
Theorem op_cull_total c s now vols : wf s -> exists s' n, op_cull c s now vols = (s', RInt n).
Proof.
  intros Hw. unfold op_cull.
  destruct (select_delete_fuel (fun b t => expire_select b now expire_page t) (fun r => time_or_zero (expire_time r)))
    with (fuel := S (length (rows s))) (b := 0) (s := s) (cnt := 0) as (s1 & n1 & E); auto.
  - intros b t r Hr. rewrite bridge_expire_select in Hr. apply select_shape_incl in Hr. tauto.
  - intros b t Ht. rewrite bridge_expire_select. apply select_shape_nodup. exact Ht.
  - fold (op_expire s now) in E. rewrite E.
    destruct (op_expire_spec s now s1 n1 Hw E) as (Hw1 & _).
    rewrite bridge_policy_has_cull. destruct (is_pnone (c_policy c)) eqn:Ep; cbn [negb]; [eauto|].
    apply cull_loop_fuel; auto.
Qed.

Theorem op_cull_none_never c s now vols s' res r :
  c_policy c = PNone -> wf s -> op_cull c s now vols = (s', res) -> removed s s' r -> passed now r = true.
Proof.
  intros Ep Hw H Hr. destruct (op_cull_total c s now vols Hw) as (s'' & n & E). rewrite E in H. injection H as <- <-.
  destruct (op_cull_spec c s now vols s'' n Hw E) as (s1 & n1 & _ & Hp & _ & _ & _ & _ & Hnone & _).
  rewrite (Hnone Ep) in Hr. apply Hp. exact Hr.
Qed.

(* ================================================================ examples: the hypotheses are satisfiable *)
Definition ex_row (i st_ at_ ac : Z) (ex : option Z) (sz : Z) : row :=
  {| rowid := i; rkey := SInt i; rraw := true; store_time := st_; expire_time := ex; access_time := at_;
     access_count := ac; rtag := SNull; rsize := sz; rmode := 1; rfile := None; rvalue := SInt 0 |}.
Definition ex_st : st :=
  {| rows := [ex_row 1 10 50 3 None 6; ex_row 2 20 30 1 None 6; ex_row 3 5 60 2 (Some 40) 6];
     n_count := 3; n_size := 18; n_hits := 0; n_misses := 0; statistics := false; fs := []; next_file := 0 |}.
Definition ex_cfg (p : policy) (lim : Z) : cfg :=
  {| c_policy := p; c_size_limit := 10; c_cull_limit := lim; c_min_file_size := 100;
     c_codec := {| pkk := fun _ => []; pkv := fun _ => []; unpk := fun _ => None |} |}.

Lemma ex_wf : wf ex_st.
Proof. unfold wf. cbn. repeat constructor; cbn; intuition lia. Qed.

(* clock 100: row 3 is passed and goes first; with limit left and volume 12 >= 10 one more row goes, chosen by policy *)
Example ex_cull_lru : map rowid (rows (fst (cull (ex_cfg PLRU 2) 100 0 ex_st))) = [1].
Proof. vm_compute. reflexivity. Qed.
Example ex_cull_lrs : map rowid (rows (fst (cull (ex_cfg PLRS 2) 100 0 ex_st))) = [2].
Proof. vm_compute. reflexivity. Qed.
Example ex_cull_lfu : map rowid (rows (fst (cull (ex_cfg PLFU 2) 100 0 ex_st))) = [1].
Proof. vm_compute. reflexivity. Qed.
Example ex_cull_none : map rowid (rows (fst (cull (ex_cfg PNone 2) 100 0 ex_st))) = [1; 2].
Proof. vm_compute. reflexivity. Qed.
Example ex_cull_limit1 : map rowid (rows (fst (cull (ex_cfg PLRU 1) 100 0 ex_st))) = [1; 2].
Proof. vm_compute. reflexivity. Qed.
(* clock 0: nothing is passed, volume 18 >= 10: pure policy eviction, a non-passed row is removed *)
Example ex_removed_not_passed :
  removed ex_st (fst (cull (ex_cfg PLRU 1) 0 0 ex_st)) (ex_row 2 20 30 1 None 6) /\ passed 0 (ex_row 2 20 30 1 None 6) = false.
Proof.
  split; [|reflexivity]. split; [cbn; tauto|]. vm_compute. intros [H|[H|[]]]; discriminate.
Qed.
(* cull(): expire() removes row 3, then one page in policy order empties the table; 3 rows removed, 3 returned.
   With policy none the expired row is still counted (the return-0 defect of earlier trees is fixed). *)
Example ex_op_cull : op_cull (ex_cfg PLRU 2) ex_st 100 [0; 0; 0] = (set_rows ex_st [] 0 0, RInt 3).
Proof. vm_compute. reflexivity. Qed.
Example ex_op_cull_none : snd (op_cull (ex_cfg PNone 2) ex_st 100 []) = RInt 1.
Proof. vm_compute. reflexivity. Qed.
