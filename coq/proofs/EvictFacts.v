(* C09 -- eviction only at the size limit, bounded by cull_limit, in policy order; cull().
   Theorems about model/Cache.v (`cull` = the lazy eviction inside set/add/incr/push, `op_cull` = cull())
   for ALL states, configurations, clock values and volume-oracle values.  Everything that looks inside a
   generated definition goes through proofs/EvictBridge.v. *)
From Coq Require Import ZifyBool Sorting.Permutation.
From DC Require Import DCPrelude DCPreludeFacts Val DiskBase SqlBase Gen_Disk Disk Gen_Sql Cache EvictSortFacts EvictBridge.

(* The only state invariant the theorems need: rowids are distinct (INTEGER PRIMARY KEY).
   It holds initially and is preserved by every API call (wf_step below). *)
Definition wf (s : st) : Prop := NoDup (map rowid (rows s)).

(* ================================================================ table primitives *)
Lemma del_rows_spec wh t : forall cnt sz,
  del_rows wh t cnt sz = (filter (fun r => negb (wh r)) t,
                          cnt - Z.of_nat (length (filter wh t)), sz - sumZ (map rsize (filter wh t))).
Proof.
  induction t as [|r t IH]; intros cnt sz; cbn [del_rows filter].
  - cbn. f_equal; [f_equal|]; lia.
  - destruct (wh r) eqn:E; cbn [negb].
    + rewrite IH. destruct (bridge_trig_delete cnt r r) as [-> _]. destruct (bridge_trig_delete sz r r) as [_ ->]. cbn [length map sumZ]. f_equal; [f_equal|]; lia.
    + rewrite IH. reflexivity.
Qed.

Lemma t_delete_rows wh s : rows (t_delete wh s) = filter (fun r => negb (wh r)) (rows s).
Proof. unfold t_delete. rewrite del_rows_spec. reflexivity. Qed.

Lemma t_delete_size wh s : n_size (t_delete wh s) = n_size s - sumZ (map rsize (filter wh (rows s))).
Proof. unfold t_delete. rewrite del_rows_spec. reflexivity. Qed.

Lemma t_delete_count wh s : n_count (t_delete wh s) = n_count s - Z.of_nat (length (filter wh (rows s))).
Proof. unfold t_delete. rewrite del_rows_spec. reflexivity. Qed.

Lemma t_delete_ext wh wh' s : (forall r, wh r = wh' r) -> t_delete wh s = t_delete wh' s.
Proof.
  intros H. unfold t_delete. rewrite !del_rows_spec.
  rewrite (filter_ext wh wh' H), (filter_ext (fun r => negb (wh r)) (fun r => negb (wh' r))); [reflexivity|].
  intros r. rewrite H. reflexivity.
Qed.

Lemma t_delete_none wh s : (forall r, In r (rows s) -> wh r = false) -> t_delete wh s = s.
Proof.
  intros H. unfold t_delete. rewrite del_rows_spec, (filter_none wh), filter_all.
  - destruct s; cbn. unfold set_rows; cbn. f_equal; lia.
  - intros r Hr. rewrite (H r Hr). reflexivity.
  - exact H.
Qed.

Lemma fs_remove_rows l : forall s, rows (fs_remove s l) = rows s.
Proof. unfold fs_remove. induction l as [|o l IH]; intros s; cbn; [reflexivity|]. rewrite IH. destruct o; reflexivity. Qed.

Lemma fs_remove_size l : forall s, n_size (fs_remove s l) = n_size s.
Proof. unfold fs_remove. induction l as [|o l IH]; intros s; cbn; [reflexivity|]. rewrite IH. destruct o; reflexivity. Qed.

Lemma upd_rows_spec wh f t : forall sz,
  upd_rows wh f t sz = (map (fun r => if wh r then f r else r) t,
                        sz + sumZ (map rsize (map (fun r => if wh r then f r else r) t)) - sumZ (map rsize t)).
Proof.
  induction t as [|r t IH]; intros sz; cbn [upd_rows map sumZ].
  - f_equal. lia.
  - destruct (wh r); rewrite IH; [rewrite bridge_trig_update|]; f_equal; lia.
Qed.

Lemma t_update_rows wh f s : rows (t_update wh f s) = map (fun r => if wh r then f r else r) (rows s).
Proof. unfold t_update. rewrite upd_rows_spec. reflexivity. Qed.

Lemma t_update_size wh f s :
  n_size (t_update wh f s) = n_size s + sumZ (map rsize (rows (t_update wh f s))) - sumZ (map rsize (rows s)).
Proof. unfold t_update. rewrite upd_rows_spec. reflexivity. Qed.

Lemma t_insert_rows mk s : rows (t_insert mk s) = rows s ++ [mk (next_rowid (rows s))].
Proof. reflexivity. Qed.

Lemma t_insert_size mk s : n_size (t_insert mk s) = n_size s + rsize (mk (next_rowid (rows s))).
Proof. unfold t_insert. cbn. apply bridge_trig_insert. Qed.

(* ================================================================ DELETE ... WHERE rowid IN (SELECT ...) *)
Lemma mem_rowid_true i sel : mem_rowid i sel = true <-> exists x, In x sel /\ rowid x = i.
Proof.
  unfold mem_rowid. rewrite existsb_exists. split; intros (x & H & E); exists x; split; auto; lia.
Qed.

Lemma mem_sel_iff t sel r :
  NoDup (map rowid t) -> incl sel t -> In r t -> (mem_rowid (rowid r) sel = true <-> In r sel).
Proof.
  intros Hn Hi Hr. rewrite mem_rowid_true. split.
  - intros (x & Hx & E). assert (x = r) by (eapply NoDup_map_inj; eauto). subst; auto.
  - intros H. exists r; auto.
Qed.

(* with distinct rowids the DELETE removes exactly the selected rows *)
Lemma removed_count t sel :
  NoDup (map rowid t) -> incl sel t -> NoDup sel ->
  length (filter (fun r => mem_rowid (rowid r) sel) t) = length sel.
Proof.
  intros Hn Hi Hs. apply Nat.le_antisymm.
  - apply NoDup_incl_length; [apply NoDup_filter'; eapply NoDup_map_NoDup; eauto|].
    intros r Hr. apply filter_In in Hr. destruct Hr as [Hr Hm]. eapply mem_sel_iff; eauto.
  - apply NoDup_incl_length; auto. intros r Hr. apply filter_In. split; auto. apply mem_sel_iff with (t:=t); auto.
Qed.

Lemma wf_t_delete wh s : wf s -> wf (t_delete wh s).
Proof. unfold wf. rewrite t_delete_rows. apply NoDup_map_filter. Qed.

(* ================================================================ _cull, stage by stage *)
(* rows selected as expired; the state after deleting them; the limit left; rows selected by policy *)
Definition exp_sel (c : cfg) (now : Z) (s : st) : list row := cull_expired_select now (c_cull_limit c) (rows s).
Definition stage1 (c : cfg) (now : Z) (s : st) : st :=
  t_delete (fun r => mem_rowid (rowid r) (exp_sel c now s)) s.
Definition lim1 (c : cfg) (now : Z) (s : st) : Z := c_cull_limit c - Z.of_nat (length (exp_sel c now s)).
Definition pol_sel (c : cfg) (now : Z) (s : st) : list row :=
  policy_cull_select (c_policy c) (lim1 c now s) (rows (stage1 c now s)).
(* the policy query runs iff limit is left, the policy has a cull query and volume >= size_limit *)
Definition policy_runs (c : cfg) (now pg : Z) (s : st) : bool :=
  negb (lim1 c now s =? 0) && negb (is_pnone (c_policy c)) && (c_size_limit c <=? volume pg (stage1 c now s)).

Lemma cull_state c now pg s :
  fst (cull c now pg s) =
    if c_cull_limit c =? 0 then s
    else if policy_runs c now pg s
         then t_delete (fun r => mem_rowid (rowid r) (pol_sel c now s)) (stage1 c now s)
         else stage1 c now s.
Proof.
  unfold cull. rewrite bridge_cull_disabled. destruct (c_cull_limit c =? 0) eqn:E0; [reflexivity|].
  assert (Hdel : t_delete (cull_expired_delete now (c_cull_limit c) (rows s)) s = stage1 c now s).
  { unfold stage1. apply t_delete_ext. intros r. apply bridge_cull_expired_delete. }
  rewrite Hdel. fold (exp_sel c now s). unfold policy_runs.
  assert (Hpol : forall s1 l,
    (let pr := policy_cull_select (c_policy c) l (rows s1) in
     if is_nil pr then s1 else t_delete (policy_cull_delete (c_policy c) l (rows s1)) s1)
    = t_delete (fun r => mem_rowid (rowid r) (policy_cull_select (c_policy c) l (rows s1))) s1).
  { intros s1 l. cbn zeta. destruct (policy_cull_select (c_policy c) l (rows s1)) as [|x pr] eqn:Epr; cbn [is_nil].
    - symmetry. apply t_delete_none. reflexivity.
    - apply t_delete_ext. intros r. rewrite bridge_policy_cull_delete, Epr. reflexivity. }
  destruct (exp_sel c now s) as [|e er] eqn:Eer; cbn [is_nil negb].
  - assert (S1 : stage1 c now s = s).
    { unfold stage1. rewrite Eer. apply t_delete_none. reflexivity. }
    assert (L1 : lim1 c now s = c_cull_limit c) by (unfold lim1; rewrite Eer; cbn; lia).
    rewrite L1, E0. cbn [negb andb].
    rewrite bridge_cull_skip_policy, bridge_policy_has_cull.
    destruct (is_pnone (c_policy c)); cbn [negb is_none is_some orb andb]; [symmetry; exact S1|].
    rewrite S1. destruct (volume pg s <? c_size_limit c) eqn:Ev.
    + replace (c_size_limit c <=? volume pg s) with false by lia. reflexivity.
    + replace (c_size_limit c <=? volume pg s) with true by lia.
      unfold pol_sel. rewrite S1, L1. specialize (Hpol s (c_cull_limit c)). cbn zeta in Hpol.
      destruct (is_nil (policy_cull_select (c_policy c) (c_cull_limit c) (rows s))); cbn [fst]; exact Hpol.
  - rewrite bridge_cull_exhausted. fold (lim1 c now s).
    replace (c_cull_limit c - Z.of_nat (length (e :: er))) with (lim1 c now s) by (unfold lim1; rewrite Eer; reflexivity).
    destruct (lim1 c now s =? 0) eqn:El; cbn [negb andb fst]; [reflexivity|].
    rewrite bridge_cull_skip_policy, bridge_policy_has_cull.
    destruct (is_pnone (c_policy c)); cbn [negb is_none is_some orb andb fst]; [reflexivity|].
    destruct (volume pg (stage1 c now s) <? c_size_limit c) eqn:Ev.
    + replace (c_size_limit c <=? volume pg (stage1 c now s)) with false by lia. reflexivity.
    + replace (c_size_limit c <=? volume pg (stage1 c now s)) with true by lia.
      unfold pol_sel. specialize (Hpol (stage1 c now s) (lim1 c now s)). cbn zeta in Hpol.
      destruct (is_nil (policy_cull_select (c_policy c) (lim1 c now s) (rows (stage1 c now s)))); cbn [fst]; exact Hpol.
Qed.

(* ---- the two SELECTs of _cull ---- *)
Lemma exp_sel_spec c now s r : In r (exp_sel c now s) -> In r (rows s) /\ passed now r = true.
Proof. unfold exp_sel. rewrite bridge_cull_expired_select. apply select_shape_incl. Qed.

Lemma exp_sel_incl c now s : incl (exp_sel c now s) (rows s).
Proof. intros r H. apply exp_sel_spec in H. tauto. Qed.

Lemma exp_sel_nodup c now s : wf s -> NoDup (exp_sel c now s).
Proof.
  intros H. unfold exp_sel. rewrite bridge_cull_expired_select. apply select_shape_nodup.
  eapply NoDup_map_NoDup; eauto.
Qed.

Lemma exp_sel_length c now s : 0 <= c_cull_limit c -> Z.of_nat (length (exp_sel c now s)) <= c_cull_limit c.
Proof. intros H. unfold exp_sel. rewrite bridge_cull_expired_select. apply sql_limit_length. exact H. Qed.

(* LIMIT did not cut the expired query when limit is left over: every passed row was selected *)
Lemma exp_sel_complete c now s r :
  lim1 c now s <> 0 -> In r (rows s) -> passed now r = true -> In r (exp_sel c now s).
Proof.
  unfold lim1, exp_sel. rewrite bridge_cull_expired_select. intros Hl Hr Hp.
  rewrite sql_limit_short by lia. apply sql_order_in, filter_In. tauto.
Qed.

Lemma exp_sel_order c now s r r' e e' :
  In r (exp_sel c now s) -> In r' (rows s) -> passed now r' = true -> ~ In r' (exp_sel c now s) ->
  expire_time r = Some e -> expire_time r' = Some e' -> e <= e'.
Proof.
  unfold exp_sel. rewrite bridge_cull_expired_select. intros Hr Hr' Hp Hn E E'.
  eapply order_limit_prefix_optz; eauto. apply filter_In. tauto.
Qed.

Lemma stage1_rows c now s :
  rows (stage1 c now s) = filter (fun r => negb (mem_rowid (rowid r) (exp_sel c now s))) (rows s).
Proof. apply t_delete_rows. Qed.

Lemma stage1_size c now s :
  n_size (stage1 c now s) = n_size s - sumZ (map rsize (filter (fun r => mem_rowid (rowid r) (exp_sel c now s)) (rows s))).
Proof. apply t_delete_size. Qed.

Lemma wf_stage1 c now s : wf s -> wf (stage1 c now s).
Proof. apply wf_t_delete. Qed.

Lemma stage1_in c now s r : wf s -> (In r (rows (stage1 c now s)) <-> In r (rows s) /\ ~ In r (exp_sel c now s)).
Proof.
  intros Hw. rewrite stage1_rows, filter_In.
  assert (M : In r (rows s) -> (mem_rowid (rowid r) (exp_sel c now s) = true <-> In r (exp_sel c now s))).
  { intros Hr. apply mem_sel_iff with (t := rows s); auto. apply exp_sel_incl. }
  split; intros [H1 H2]; split; auto.
  - intros Hi. apply M in Hi; auto. rewrite Hi in H2. discriminate.
  - destruct (mem_rowid (rowid r) (exp_sel c now s)) eqn:E; auto. exfalso. apply H2, M; auto.
Qed.

Lemma pol_sel_incl c now s : incl (pol_sel c now s) (rows (stage1 c now s)).
Proof.
  intros r. unfold pol_sel. rewrite bridge_policy_cull_select. destruct (is_pnone _); [intros []|].
  intros H. apply sql_limit_incl, sql_order_in in H. exact H.
Qed.

Lemma pol_sel_nodup c now s : wf s -> NoDup (pol_sel c now s).
Proof.
  intros H. unfold pol_sel. rewrite bridge_policy_cull_select. destruct (is_pnone _); [constructor|].
  apply sql_limit_nodup, sql_order_nodup. eapply NoDup_map_NoDup. apply wf_stage1. exact H.
Qed.

Lemma pol_sel_length c now s : 0 <= lim1 c now s -> Z.of_nat (length (pol_sel c now s)) <= lim1 c now s.
Proof.
  intros H. unfold pol_sel. rewrite bridge_policy_cull_select. destruct (is_pnone _); [cbn; lia|].
  apply sql_limit_length. exact H.
Qed.

Lemma pol_sel_order c now s r r' :
  In r (pol_sel c now s) -> In r' (rows (stage1 c now s)) -> ~ In r' (pol_sel c now s) ->
  policy_key (c_policy c) r <= policy_key (c_policy c) r'.
Proof.
  unfold pol_sel. rewrite bridge_policy_cull_select. destruct (is_pnone _); [intros []|].
  apply order_limit_prefix_z.
Qed.

(* which rows are left after _cull *)
Lemma cull_in c now pg s r :
  wf s -> c_cull_limit c <> 0 ->
  (In r (rows (fst (cull c now pg s))) <->
   In r (rows s) /\ ~ In r (exp_sel c now s) /\ (policy_runs c now pg s = true -> ~ In r (pol_sel c now s))).
Proof.
  intros Hw H0. rewrite cull_state. replace (c_cull_limit c =? 0) with false by lia.
  destruct (policy_runs c now pg s).
  - rewrite t_delete_rows, filter_In.
    assert (M : In r (rows (stage1 c now s)) ->
                (mem_rowid (rowid r) (pol_sel c now s) = true <-> In r (pol_sel c now s))).
    { intros Hr. apply mem_sel_iff with (t := rows (stage1 c now s)); auto.
      - apply wf_stage1. exact Hw.
      - apply pol_sel_incl. }
    pose proof (stage1_in c now s r Hw) as S1.
    split.
    + intros [H1 H2]. apply S1 in H1 as H1'. destruct H1' as [Ha Hb]. repeat split; auto.
      intros _ Hi. apply M in Hi; auto. rewrite Hi in H2. discriminate.
    + intros (Ha & Hb & H2). assert (H1 : In r (rows (stage1 c now s))) by (apply S1; auto). split; [exact H1|].
      destruct (mem_rowid (rowid r) (pol_sel c now s)) eqn:E; auto. exfalso. apply H2; auto. apply M; auto.
  - rewrite stage1_in by exact Hw. split; [intros [H1 H2]; repeat split; auto; discriminate|tauto].
Qed.

(* a row that disappears was selected by one of the two queries *)
Lemma cull_removed_cases c now pg s r :
  wf s -> In r (rows s) -> ~ In r (rows (fst (cull c now pg s))) ->
  c_cull_limit c <> 0 /\ (In r (exp_sel c now s) \/ (policy_runs c now pg s = true /\ In r (pol_sel c now s))).
Proof.
  intros Hw Hr Hn.
  assert (H0 : c_cull_limit c <> 0).
  { intros E. apply Hn. rewrite cull_state. replace (c_cull_limit c =? 0) with true by lia. exact Hr. }
  split; [exact H0|].
  destruct (mem_rowid (rowid r) (exp_sel c now s)) eqn:E1.
  { left. apply mem_sel_iff with (t := rows s) in E1; auto. apply exp_sel_incl. }
  assert (N1 : ~ In r (exp_sel c now s)).
  { intros Hi. apply mem_sel_iff with (t := rows s) in Hi; auto; [congruence|apply exp_sel_incl]. }
  assert (R1 : In r (rows (stage1 c now s))) by (apply stage1_in; auto).
  right. destruct (policy_runs c now pg s) eqn:Ep.
  - split; [reflexivity|].
    destruct (mem_rowid (rowid r) (pol_sel c now s)) eqn:E2.
    + apply mem_sel_iff with (t := rows (stage1 c now s)) in E2; auto; [apply wf_stage1; auto|apply pol_sel_incl].
    + exfalso. apply Hn. apply cull_in; auto. repeat split; auto. intros _ Hi.
      apply mem_sel_iff with (t := rows (stage1 c now s)) in Hi; auto; [congruence|apply wf_stage1; auto|apply pol_sel_incl].
  - exfalso. apply Hn. apply cull_in; auto. repeat split; auto. rewrite Ep. discriminate.
Qed.

(* exact number of rows removed *)
Lemma cull_removed_count c now pg s :
  wf s -> c_cull_limit c <> 0 ->
  Z.of_nat (length (rows s)) - Z.of_nat (length (rows (fst (cull c now pg s)))) =
  Z.of_nat (length (exp_sel c now s)) + (if policy_runs c now pg s then Z.of_nat (length (pol_sel c now s)) else 0).
Proof.
  intros Hw H0. rewrite cull_state. replace (c_cull_limit c =? 0) with false by lia.
  assert (L1 : Z.of_nat (length (rows s)) - Z.of_nat (length (rows (stage1 c now s))) = Z.of_nat (length (exp_sel c now s))).
  { rewrite stage1_rows. rewrite (filter_length_split (fun r => mem_rowid (rowid r) (exp_sel c now s)) (rows s)).
    rewrite removed_count; [lia|exact Hw|apply exp_sel_incl|apply exp_sel_nodup; exact Hw]. }
  destruct (policy_runs c now pg s); [|lia].
  rewrite t_delete_rows.
  rewrite (filter_length_split (fun r => mem_rowid (rowid r) (pol_sel c now s)) (rows (stage1 c now s))) in L1.
  rewrite removed_count in L1; [lia|apply wf_stage1; exact Hw|apply pol_sel_incl|apply pol_sel_nodup; exact Hw].
Qed.

(* ================================================================ C09 theorems about _cull *)
Definition removed (s s' : st) (r : row) : Prop := In r (rows s) /\ ~ In r (rows s').

(* _cull never changes a row and never adds one *)
Theorem cull_sub c now pg s r : In r (rows (fst (cull c now pg s))) -> In r (rows s).
Proof.
  rewrite cull_state. destruct (c_cull_limit c =? 0); [tauto|].
  destruct (policy_runs c now pg s).
  - rewrite t_delete_rows, filter_In, stage1_rows, filter_In. tauto.
  - rewrite stage1_rows, filter_In. tauto.
Qed.

Theorem cull_only_at_limit c now pg s r :
  wf s -> removed s (fst (cull c now pg s)) r -> passed now r = false ->
  c_size_limit c <= volume pg (stage1 c now s) /\ c_policy c <> PNone /\ c_cull_limit c <> 0.
Proof.
  intros Hw [Hr Hn] Hp. destruct (cull_removed_cases c now pg s r Hw Hr Hn) as [H0 [He|[Hrun Hs]]].
  - apply exp_sel_spec in He. destruct He as [_ He]. congruence.
  - unfold policy_runs in Hrun. apply andb_prop in Hrun. destruct Hrun as [Hrun Hv].
    apply andb_prop in Hrun. destruct Hrun as [_ Hpn].
    repeat split; [lia| |exact H0]. intros E. rewrite E in Hpn. discriminate.
Qed.

Theorem cull_bound c now pg s :
  wf s -> 0 <= c_cull_limit c ->
  Z.of_nat (length (rows s)) - Z.of_nat (length (rows (fst (cull c now pg s)))) <= c_cull_limit c.
Proof.
  intros Hw Hl. destruct (Z.eq_dec (c_cull_limit c) 0) as [E|E].
  - rewrite cull_state. replace (c_cull_limit c =? 0) with true by lia. lia.
  - rewrite cull_removed_count by auto.
    pose proof (exp_sel_length c now s Hl) as L1.
    destruct (policy_runs c now pg s); [|lia].
    assert (L2 : 0 <= lim1 c now s) by (unfold lim1; lia).
    pose proof (pol_sel_length c now s L2) as L3. unfold lim1 in *. lia.
Qed.

Theorem cull_zero c now pg s : c_cull_limit c = 0 -> cull c now pg s = (s, []).
Proof. intros E. unfold cull. rewrite bridge_cull_disabled, E. reflexivity. Qed.

Theorem cull_order c now pg s r r' :
  wf s -> removed s (fst (cull c now pg s)) r -> passed now r = false ->
  In r' (rows (fst (cull c now pg s))) ->
  policy_key (c_policy c) r <= policy_key (c_policy c) r'.
Proof.
  intros Hw [Hr Hn] Hp Hr'. destruct (cull_removed_cases c now pg s r Hw Hr Hn) as [H0 [He|[Hrun Hs]]].
  - apply exp_sel_spec in He. destruct He as [_ He]. congruence.
  - apply cull_in in Hr'; auto. destruct Hr' as (R1 & R2 & R3).
    apply pol_sel_order with (now := now) (s := s); auto. apply stage1_in; auto.
Qed.

Theorem cull_expired_first c now pg s :
  let er := cull_expired_select now (c_cull_limit c) (rows s) in
  (* only passed rows of the table *)
  (forall r, In r er -> In r (rows s) /\ exists e, expire_time r = Some e /\ e < now)
  (* at most cull_limit of them *)
  /\ (0 <= c_cull_limit c -> Z.of_nat (length er) <= c_cull_limit c)
  (* in expire_time order: a passed row that was not selected expires no earlier than every selected one *)
  /\ (forall r r' e e', In r er -> In r' (rows s) -> ~ In r' er -> expire_time r = Some e ->
                        expire_time r' = Some e' -> e' < now -> e <= e')
  (* they are removed (unless cull_limit = 0) *)
  /\ (wf s -> c_cull_limit c <> 0 -> forall r, In r er -> ~ In r (rows (fst (cull c now pg s))))
  (* expired first: if any row that is not passed goes, every passed row goes, and a passed row goes only as
     a member of this selection *)
  /\ (wf s -> forall r, removed s (fst (cull c now pg s)) r -> passed now r = false ->
              forall r', In r' (rows s) -> passed now r' = true -> ~ In r' (rows (fst (cull c now pg s))))
  /\ (wf s -> forall r, removed s (fst (cull c now pg s)) r -> passed now r = true -> In r er).
Proof.
  cbn zeta. fold (exp_sel c now s). repeat split.
  - apply exp_sel_spec in H. tauto.
  - apply exp_sel_spec in H. destruct H as [_ H]. unfold passed in H.
    destruct (expire_time r) as [e|]; [|discriminate]. exists e. split; [reflexivity|lia].
  - apply exp_sel_length.
  - intros r r' e e' Hr Hr' Hn E E' Hlt. eapply exp_sel_order; eauto. unfold passed. rewrite E'. lia.
  - intros Hw H0 r Hr Hi. apply cull_in in Hi; auto. tauto.
  - intros Hw r [Hr Hn] Hp r' Hr' Hp' Hi.
    destruct (cull_removed_cases c now pg s r Hw Hr Hn) as [H0 [He|[Hrun Hs]]].
    + apply exp_sel_spec in He. destruct He as [_ He]. congruence.
    + apply cull_in in Hi; auto. destruct Hi as (_ & Hi & _). apply Hi.
      apply exp_sel_complete; auto. unfold policy_runs in Hrun. lia.
  - intros Hw r [Hr Hn] Hp.
    destruct (cull_removed_cases c now pg s r Hw Hr Hn) as [H0 [He|[Hrun Hs]]]; [exact He|].
    apply exp_sel_complete; auto. unfold policy_runs in Hrun. lia.
Qed.

Theorem cull_none_never c now pg s r :
  c_policy c = PNone -> wf s -> removed s (fst (cull c now pg s)) r -> passed now r = true.
Proof.
  intros E Hw [Hr Hn]. destruct (cull_removed_cases c now pg s r Hw Hr Hn) as [H0 [He|[Hrun Hs]]].
  - apply exp_sel_spec in He. tauto.
  - unfold policy_runs in Hrun. rewrite E in Hrun. cbn in Hrun. lia.
Qed.

(* ================================================================ cull(): expire() then pages in policy order *)
Lemma existsb_ids i l : existsb (Z.eqb i) (map rowid l) = mem_rowid i l.
Proof.
  unfold mem_rowid. induction l as [|a l IH]; cbn; [reflexivity|]. rewrite IH, (Z.eqb_sym i). reflexivity.
Qed.

Lemma fs_remove_wf s l : wf s -> wf (fs_remove s l).
Proof. unfold wf. rewrite fs_remove_rows. tauto. Qed.

(* deleting a selection `sel` (rows of the table, each once) by rowid *)
Lemma delete_sel_facts s sel :
  wf s -> incl sel (rows s) -> NoDup sel ->
  let s1 := t_delete (fun r => mem_rowid (rowid r) sel) s in
  wf s1
  /\ (forall r, In r (rows s1) <-> In r (rows s) /\ ~ In r sel)
  /\ Z.of_nat (length (rows s)) - Z.of_nat (length (rows s1)) = Z.of_nat (length sel).
Proof.
  intros Hw Hi Hn. cbn zeta. split; [apply wf_t_delete; exact Hw|]. split.
  - intros r. rewrite t_delete_rows, filter_In.
    assert (M : In r (rows s) -> (mem_rowid (rowid r) sel = true <-> In r sel)).
    { intros Hr. apply mem_sel_iff with (t := rows s); auto. }
    split; intros [H1 H2]; split; auto.
    + intros Hx. apply M in Hx; auto. rewrite Hx in H2. discriminate.
    + destruct (mem_rowid (rowid r) sel) eqn:E; auto. exfalso. apply H2, M; auto.
  - rewrite t_delete_rows. rewrite (filter_length_split (fun r => mem_rowid (rowid r) sel) (rows s)).
    rewrite removed_count by auto. lia.
Qed.

Lemma skipn_S_tl {A} j (l : list A) : skipn (S j) l = skipn j (tl l).
Proof. destruct l; cbn; [rewrite skipn_nil|]; reflexivity. Qed.

Lemma sql_limit_length_eq n (l : list row) : 0 <= n -> length (sql_limit n l) = Nat.min (Z.to_nat n) (length l).
Proof. intros H. unfold sql_limit. replace (n <? 0) with false by lia. apply length_take. Qed.

Lemma cull_loop_spec c :
  is_pnone (c_policy c) = false ->
  forall fuel vols s cnt s' n, wf s -> cull_loop fuel c vols s cnt = (s', RInt n) ->
  wf s'
  /\ (forall r, In r (rows s') -> In r (rows s))
  /\ n = cnt + Z.of_nat (length (rows s)) - Z.of_nat (length (rows s'))
  /\ (forall r r', removed s s' r -> In r' (rows s') -> policy_key (c_policy c) r <= policy_key (c_policy c) r')
  /\ exists j : nat,
       (* j pages were removed; the loop test was then evaluated on the (j+1)-th volume and failed, or the table is empty *)
       (volume (hd_vol (skipn j vols)) s' <= c_size_limit c \/ rows s' = [])
       /\ (rows s = [] -> j = 0%nat)
       /\ Z.of_nat j * cull_page - cull_page < Z.of_nat (length (rows s)) - Z.of_nat (length (rows s'))
          <= Z.of_nat j * cull_page.
Proof.
  intros Hp. destruct bridge_cull_page as [Epd Epos].
  induction fuel as [|f IH]; intros vols s cnt s' n Hw H; cbn [cull_loop] in H; [discriminate|].
  rewrite bridge_cull_over_limit in H.
  destruct (volume (hd_vol vols) s >? c_size_limit c) eqn:Ev.
  2:{ injection H as <- <-. repeat split; auto; try lia.
      - intros r r' [H1 H2]. tauto.
      - exists 0%nat. cbn [skipn]. split; [left; lia|]. split; lia. }
  rewrite bridge_policy_cull_select, Hp in H.
  destruct (sql_limit cull_page (sql_order false [ord_z (policy_key (c_policy c))] (rows s))) as [|x pg'] eqn:Epg.
  - injection H as <- <-.
    assert (E : rows s = []).
    { apply sql_limit_nil in Epg; [|lia]. apply (f_equal (@length row)) in Epg. rewrite sql_order_length in Epg.
      destruct (rows s); [reflexivity|discriminate]. }
    split; [exact Hw|]. split; [tauto|]. split; [lia|]. split; [intros r r' [H1 H2]; tauto|].
    exists 0%nat. cbn [skipn]. split; [right; exact E|]. rewrite E. cbn [length]. split; lia.
  - rewrite <- Epg in H.
    set (pg := sql_limit cull_page (sql_order false [ord_z (policy_key (c_policy c))] (rows s))) in *.
    assert (Hincl : incl pg (rows s)).
    { intros r Hr. unfold pg in Hr. apply sql_limit_incl, sql_order_in in Hr. exact Hr. }
    assert (Hnd : NoDup pg).
    { unfold pg. apply sql_limit_nodup, sql_order_nodup. eapply NoDup_map_NoDup; eauto. }
    assert (Hlen : length pg = Nat.min (Z.to_nat cull_page) (length (rows s))).
    { unfold pg. rewrite sql_limit_length_eq by lia. rewrite sql_order_length. reflexivity. }
    assert (Hne : (0 < length pg)%nat) by (rewrite Epg; cbn; lia).
    assert (Hdel : t_delete (policy_cullall_delete (c_policy c) cull_page_delete (rows s)) s
                   = t_delete (fun r => mem_rowid (rowid r) pg) s).
    { apply t_delete_ext. intros r. rewrite bridge_policy_cullall_delete, Epd, bridge_policy_cull_select, Hp. reflexivity. }
    rewrite Hdel in H. clear Hdel.
    destruct (delete_sel_facts s pg Hw Hincl Hnd) as (Hw1 & Hin1 & Hc1). cbn zeta in *.
    set (s1 := t_delete (fun r => mem_rowid (rowid r) pg) s) in *.
    apply IH in H; [|apply fs_remove_wf; exact Hw1].
    rewrite !fs_remove_rows in H.
    destruct H as (Hw' & Hsub & Hn & Hord & j & Hj1 & Hj2 & Hj3).
    split; [exact Hw'|]. split; [intros r Hr; apply Hsub, Hin1 in Hr; tauto|]. split; [lia|]. split.
    + intros r r' [Hr Hnr] Hr'.
      destruct (mem_rowid (rowid r) pg) eqn:Em.
      * apply mem_sel_iff with (t := rows s) in Em; auto.
        apply Hsub, Hin1 in Hr' as [Hr'1 Hr'2].
        unfold pg in Em, Hr'2. eapply order_limit_prefix_z; eauto.
      * apply Hord; auto. split; [rewrite fs_remove_rows|exact Hnr]. apply Hin1. split; auto.
        intros Hi. apply mem_sel_iff with (t := rows s) in Hi; auto. congruence.
    + exists (S j). rewrite skipn_S_tl. split; [exact Hj1|]. split.
      * intros E. rewrite E in Hlen. cbn [length] in Hlen. lia.
      * destruct (Nat.lt_ge_cases (length pg) (Z.to_nat cull_page)) as [Hlt|Hge].
        -- assert (E1 : rows s1 = []).
           { destruct (rows s1); [reflexivity|]. cbn [length] in Hc1. lia. }
           assert (E2 : rows s' = []).
           { destruct (rows s') as [|a l] eqn:E2; [reflexivity|]. exfalso.
             specialize (Hsub a (or_introl eq_refl)). rewrite E1 in Hsub. exact Hsub. }
           rewrite (Hj2 E1). rewrite E1 in Hc1. rewrite E2. cbn [length] in *. lia.
        -- lia.
Qed.

(* _select_delete with a page query that returns rows of the table satisfying P, each at most once *)
Lemma select_delete_spec (P : row -> Prop) sel next :
  (forall b t r, In r (sel b t) -> In r t /\ P r) ->
  (forall b t, NoDup t -> NoDup (sel b t)) ->
  forall fuel b s cnt s' n, wf s -> select_delete fuel sel next b s cnt = (s', RInt n) ->
  wf s'
  /\ (forall r, In r (rows s') -> In r (rows s))
  /\ (forall r, removed s s' r -> P r)
  /\ n = cnt + Z.of_nat (length (rows s)) - Z.of_nat (length (rows s')).
Proof.
  intros Hsel Hnd. induction fuel as [|f IH]; intros b s cnt s' n Hw H; cbn [select_delete] in H; [discriminate|].
  destruct (sel b (rows s)) as [|x pg'] eqn:Epg.
  - injection H as <- <-. repeat split; auto; try lia. intros r [H1 H2]. tauto.
  - rewrite <- Epg in H.
    set (pg := sel b (rows s)) in *.
    assert (Hincl : incl pg (rows s)) by (intros r Hr; apply Hsel in Hr; tauto).
    assert (Hndp : NoDup pg) by (apply Hnd; eapply NoDup_map_NoDup; eauto).
    assert (Hdel : t_delete (select_delete_delete (map rowid pg) (rows s)) s
                   = t_delete (fun r => mem_rowid (rowid r) pg) s).
    { apply t_delete_ext. intros r. rewrite bridge_select_delete_delete. apply existsb_ids. }
    rewrite Hdel in H. clear Hdel.
    destruct (delete_sel_facts s pg Hw Hincl Hndp) as (Hw1 & Hin1 & Hc1). cbn zeta in *.
    set (s1 := t_delete (fun r => mem_rowid (rowid r) pg) s) in *.
    apply IH in H; [|apply fs_remove_wf; exact Hw1].
    rewrite !fs_remove_rows in H.
    destruct H as (Hw' & Hsub & HP & Hn).
    split; [exact Hw'|]. split; [intros r Hr; apply Hsub, Hin1 in Hr; tauto|]. split; [|lia].
    intros r [Hr Hnr].
    destruct (mem_rowid (rowid r) pg) eqn:Em.
    + apply mem_sel_iff with (t := rows s) in Em; auto. apply Hsel in Em. tauto.
    + apply HP. split; [rewrite fs_remove_rows|exact Hnr]. apply Hin1. split; auto.
      intros Hi. apply mem_sel_iff with (t := rows s) in Hi; auto. congruence.
Qed.

(* expire(now) removes only rows with 0 <= expire_time < now and returns how many *)
Lemma op_expire_spec s now s' n :
  wf s -> op_expire s now = (s', RInt n) ->
  wf s'
  /\ (forall r, In r (rows s') -> In r (rows s))
  /\ (forall r, removed s s' r -> passed now r = true)
  /\ n = Z.of_nat (length (rows s)) - Z.of_nat (length (rows s')).
Proof.
  intros Hw H. unfold op_expire in H.
  assert (Hsel : forall b t r, In r (expire_select b now expire_page t) -> In r t /\ passed now r = true).
  { intros b t r Hr. rewrite bridge_expire_select in Hr. apply select_shape_incl in Hr. destruct Hr as [Hr Hd].
    split; [exact Hr|]. unfold expire_due in Hd. unfold passed. destruct (expire_time r); [lia|discriminate]. }
  assert (Hnd : forall b t, NoDup t -> NoDup (expire_select b now expire_page t)).
  { intros b t Ht. rewrite bridge_expire_select. apply select_shape_nodup. exact Ht. }
  destruct (select_delete_spec (fun r => passed now r = true) _ _ Hsel Hnd _ _ _ _ _ _ Hw H) as (H1 & H2 & H3 & H4).
  repeat split; auto; lia.
Qed.

(* cull(): the full statement.  vols = the page part of volume() at each evaluation of the loop test. *)
Theorem op_cull_spec c s now vols s' n :
  wf s -> op_cull c s now vols = (s', RInt n) ->
  exists s1 n1,
    (* first expire(now): only passed rows go *)
    op_expire s now = (s1, RInt n1)
    /\ (forall r, removed s s1 r -> passed now r = true)
    (* then rows of what is left, in policy order *)
    /\ (forall r, In r (rows s') -> In r (rows s1)) /\ (forall r, In r (rows s1) -> In r (rows s))
    /\ (forall r r', removed s1 s' r -> In r' (rows s') -> policy_key (c_policy c) r <= policy_key (c_policy c) r')
    /\ (c_policy c = PNone -> s' = s1)
    (* until the volume is no larger than the limit or nothing is left: j pages of cull_page rows (the last may be short) *)
    /\ (c_policy c <> PNone ->
        exists j : nat,
          (volume (hd_vol (skipn j vols)) s' <= c_size_limit c \/ rows s' = [])
          /\ Z.of_nat j * cull_page - cull_page < Z.of_nat (length (rows s1)) - Z.of_nat (length (rows s'))
             <= Z.of_nat j * cull_page)
    (* and the number returned is the number of rows removed *)
    /\ n = Z.of_nat (length (rows s)) - Z.of_nat (length (rows s'))
    /\ wf s'.
Proof.
  intros Hw H. unfold op_cull in H.
  destruct (op_expire s now) as [s1 r1] eqn:Ee.
  destruct r1 as [| n1 | | | | | | |]; try discriminate.
  exists s1, n1. split; [reflexivity|].
  destruct (op_expire_spec s now s1 n1 Hw Ee) as (Hw1 & Hsub1 & Hp1 & Hn1).
  split; [exact Hp1|].
  rewrite bridge_policy_has_cull in H. destruct (is_pnone (c_policy c)) eqn:Ep; cbn [negb] in H.
  - rewrite bridge_cull_none_returns_count in H. injection H as <- <-.
    repeat split; auto.
    + intros r r' [H1 H2]. tauto.
    + intros Hne. destruct (c_policy c); try discriminate. tauto.
  - destruct (cull_loop_spec c Ep _ _ _ _ _ _ Hw1 H) as (Hw' & Hsub & Hn & Hord & j & Hj1 & Hj2 & Hj3).
    repeat split; auto; try lia.
    + intros E. rewrite E in Ep. discriminate.
    + intros _. exists j. split; auto.
Qed.

(* the fuel given by op_cull always suffices: no page is empty, so every iteration removes a row *)
Lemma cull_loop_fuel c :
  is_pnone (c_policy c) = false ->
  forall fuel vols s cnt, wf s -> (length (rows s) < fuel)%nat ->
  exists s' n, cull_loop fuel c vols s cnt = (s', RInt n).
Proof.
  intros Hp. destruct bridge_cull_page as [Epd Epos].
  induction fuel as [|f IH]; intros vols s cnt Hw Hf; [lia|]. cbn [cull_loop].
  destruct (cull_over_limit (volume (hd_vol vols) s) (c_size_limit c)); [|eauto].
  rewrite bridge_policy_cull_select, Hp.
  destruct (sql_limit cull_page (sql_order false [ord_z (policy_key (c_policy c))] (rows s))) as [|x pg'] eqn:Epg; [eauto|].
  rewrite <- Epg.
  set (pg := sql_limit cull_page (sql_order false [ord_z (policy_key (c_policy c))] (rows s))) in *.
  assert (Hincl : incl pg (rows s)).
  { intros r Hr. unfold pg in Hr. apply sql_limit_incl, sql_order_in in Hr. exact Hr. }
  assert (Hnd : NoDup pg).
  { unfold pg. apply sql_limit_nodup, sql_order_nodup. eapply NoDup_map_NoDup; eauto. }
  assert (Hdel : t_delete (policy_cullall_delete (c_policy c) cull_page_delete (rows s)) s
                 = t_delete (fun r => mem_rowid (rowid r) pg) s).
  { apply t_delete_ext. intros r. rewrite bridge_policy_cullall_delete, Epd, bridge_policy_cull_select, Hp. reflexivity. }
  rewrite Hdel. destruct (delete_sel_facts s pg Hw Hincl Hnd) as (Hw1 & Hin1 & Hc1). cbn zeta in *.
  apply IH; [apply fs_remove_wf; exact Hw1|]. rewrite fs_remove_rows.
  assert (0 < length pg)%nat by (rewrite Epg; cbn; lia). lia.
Qed.
