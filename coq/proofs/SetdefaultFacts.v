(* Index.setdefault on the machine of model/Conc.v with the real transaction bodies.
   The code (persistent.py, read off by tools/emit_persistent.py: Gen_Persistent.index_setdefault_retry,
   index_setdefault_add with qc_in_txn = true) is
       with cache.transact(retry=True): loop: lookup key; on a miss add key default
   i.e. ONE block of the machine (model/TxnBlock.v) whose only writing inner call is the add.
   (1) For every number of clients, every schedule and every kill, the block's COMMIT installs exactly the result of
       `add` applied to the committed state the block started from, in one step, and frees the lock: no other
       client's removal can fall between the add and the lookup that follows it.
   (2) What the code did before the repair recorded in known_findings.txt (C12): lookup, add and lookup were three
       separate calls.  The schedule below lets another client pop the key between the add and the second lookup:
       setdefault adds the key again, so ONE setdefault and ONE successful pop of the key leave the key present --
       the outcome of neither order of an atomic setdefault and the pop.  On the repaired block every placement of
       the pop gives one of those two orders. *)
From DC Require Import DCPrelude DCPreludeFacts Val DiskBase SqlBase Gen_Disk Disk Gen_Sql Cache CacheRun Refs
  SinvFacts Conc ConcFacts ConcTheorems Txn TxnFacts TxnBlock TxnBlockFacts.

(* the calls Index.setdefault makes on its cache *)
Definition sd_calls (k v : pyval) (now pg : Z) : list call :=
  [CGet k false now; CAdd true k v false None SNull now pg; CGet k false now].
Definition setdefault_block (k v : pyval) (now pg : Z) : bcall := BBlock true (sd_calls k v now pg) false.

Lemma setdefault_block_compiles c k v now pg :
  bcompile c (setdefault_block k v now pg) = OWrite (w_block true [w_add true c k v false None SNull now pg] false).
Proof. reflexivity. Qed.

Lemma setdefault_block_db c k v now pg d f :
  bo_db (body_block [w_add true c k v false None SNull now pg] false d f) = bo_db (body_add c k v false None SNull now pg d None).
Proof.
  unfold body_block. cbn [block_fold w_add w_body].
  destruct (body_add c k v false None SNull now pg d None) as [d' e cl fe r ok]. reflexivity.
Qed.

(* (1) every schedule, every program of the other clients *)
Theorem setdefault_commit_atomic c (progs : nat -> list bcall) sched i k v now pg f o :
  let cf := exec (init_config init_st (fun i => map (bcompile c) (progs i))) sched in
  c_pc (cl cf i) = AtCommit (w_block true [w_add true c k v false None SNull now pg] false) f o -> bo_ok o = true ->
  exists c', cstep cf i = Some c' /\ db c' = bo_db (body_add c k v false None SNull now pg (db cf) None) /\ lock c' = None.
Proof.
  intros cf Hpc Hok.
  destruct (block_commit_atomic c progs sched i true (sd_calls k v now pg) false f o Hpc Hok) as [c' [H1 [H2 H3]]].
  exists c'. split; [exact H1|]. split; [|exact H3].
  rewrite H2. apply setdefault_block_db.
Qed.

Print Assumptions setdefault_commit_atomic.

(* (2) the witness *)
Definition sdk : pyval := VStr [107].
Definition sdv : pyval := VInt 7.
Definition c_get := CGet sdk false wnow.
Definition c_add := CAdd true sdk sdv false None SNull wnow 0.
Definition c_pop := CPop true sdk wnow.
Definition two (p0 p1 : list bcall) : config st result :=
  init_config init_st (fun i => map (bcompile wcfg) (if Nat.eqb i 0 then p0 else if Nat.eqb i 1 then p1 else [])).
(* client 0 takes n steps, client 1 runs (to its end unless it has to wait for the lock), client 0 runs to its end, client 1 finishes *)
Definition placed (p0 p1 : list bcall) (n : nat) : config st result :=
  exec (two p0 p1) (repeat (Step 0) n ++ repeat (Step 1) 30 ++ repeat (Step 0) 80 ++ repeat (Step 1) 30).
Definition summary (c : config st result) : list (outcome result) * list (outcome result) * nat * bool :=
  (c_done (cl c 0), c_done (cl c 1), length (rows (db c)),
   match c_todo (cl c 0), c_todo (cl c 1), lock c with [], [], None => true | _, _, _ => false end).

(* the path the old loop takes when its second lookup misses: lookup, add, lookup, add, lookup *)
Definition old_path : list bcall := map BOne [c_get; c_add; c_get; c_add; c_get].
Definition hit : outcome result := ORes (RVal (FVal sdv) None SNull).
Definition miss : outcome result := ORes RDefault.

Lemma old_setdefault_adds_twice :
  summary (placed old_path [BOne c_pop] 6) = ([miss; ORes (RBool true); miss; ORes (RBool true); hit], [hit], 1%nat, true).
Proof. vm_compute. reflexivity. Qed.

(* the two orders of an atomic setdefault and the pop: the pop succeeds and the key is gone, or the pop misses *)
Definition new_prog : list bcall := [BOne c_get; BBlock true [c_get; c_add; c_get] false; BOne c_get].
Definition order_sd_pop := summary (placed new_prog [BOne c_pop] 80).
Definition order_pop_sd := summary (placed new_prog [BOne c_pop] 0).
Lemma setdefault_orders :
  order_sd_pop = ([miss; ORes (RBool true); hit], [hit], 0%nat, true) /\
  order_pop_sd = ([miss; ORes (RBool true); hit], [miss], 1%nat, true).
Proof. vm_compute. split; reflexivity. Qed.

Definition summary_eqb (a b : list (outcome result) * list (outcome result) * nat * bool) : bool :=
  let '(a0, a1, an, af) := a in let '(b0, b1, bn, bf) := b in
  Nat.eqb an bn && Bool.eqb af bf && Nat.eqb (length a1) (length b1) &&
  match a1, b1 with
  | [ORes RDefault], [ORes RDefault] => true
  | [ORes (RVal _ _ _)], [ORes (RVal _ _ _)] => true
  | _, _ => false
  end.

(* the repaired block under every placement of the pop (the block's lookups are inside the transaction) *)
Lemma repaired_setdefault_every_placement :
  forallb (fun n => let s := summary (placed new_prog [BOne c_pop] n) in summary_eqb s order_sd_pop || summary_eqb s order_pop_sd)
          (seq 0 40) = true.
Proof. vm_compute. reflexivity. Qed.

(* ... and the old outcome is neither of them *)
Lemma old_outcome_is_no_order :
  let s := summary (placed old_path [BOne c_pop] 6) in summary_eqb s order_sd_pop || summary_eqb s order_pop_sd = false.
Proof. vm_compute. reflexivity. Qed.
