(* Key-ordered iteration (C02/C03, iterkeys clause): Cache.iterkeys pages through the table in (key, raw)
   order, 100 rows at a time, restarting each page strictly after the last (key, raw) pair it yielded:

       SELECT key, raw FROM Cache ORDER BY key ASC, raw ASC LIMIT 1
       SELECT key, raw FROM Cache WHERE key = ? AND raw > ? OR key > ? ORDER BY key ASC, raw ASC LIMIT ?

   For a table of ANY size the paging loop yields every row exactly once, in (key, raw) order (resp. the
   reverse order for reverse=True).  Needs: the (key, raw) pairs of the rows are pairwise distinct under the
   SQLite comparison (UNIQUE index: clause w_keys of the state invariant), no REAL-NaN key (clause w_wf) and
   NO NULL KEY (clause w_nonnull).  The last one is needed: the cursor predicate is never true against a NULL
   cursor and never selects a NULL row (iterkeys_null_key_table_incomplete below).  It is part of the invariant
   since the repair of finding C02-F2 / C03-F1 (Disk.put pickles a float NaN key instead of binding it, which
   SQLite stored as NULL: DiskFacts.put_never_null), so every state reachable through the API has it
   (iterkeys_reachable); the table-level statements (keys_ok) stay as the general form.

   Structure: the order on sqlvals and on (key, raw) pairs; bridge lemmas (the only place where the generated
   statements are unfolded); an abstract paging loop over a strict total order with an arbitrary positive page
   size; the instantiation. *)
From Coq Require Import ZArith List Bool Lia Sorted Permutation.
From DC Require Import DCPrelude DCPreludeFacts Val DiskBase SqlBase Gen_Disk Disk Gen_Sql Cache Refs
  TableFacts TableRows SqlBridge ExpiryFacts DiskFacts SortFacts SqlOrderFacts SinvFacts DictExamples.

(* ================================================================== sql_cmp is a total preorder *)
Lemma num_cmp_lt_trans a b c : num_cmp a b = Lt -> num_cmp b c = Lt -> num_cmp a c = Lt.
Proof. destruct a, b, c; cbn [num_cmp]; try congruence. apply dy_cmp_lt_trans. Qed.

Lemma sql_cmp_lt_class a b : sql_cmp a b = Lt -> sql_class a <= sql_class b.
Proof.
  unfold sql_cmp. destruct (Z.compare_spec (sql_class a) (sql_class b)) as [E|L|G]; intros H; try lia.
  discriminate.
Qed.

(* the strict part is transitive for ALL values (a comparison that says Lt never involves a NaN) *)
Lemma sql_cmp_lt_trans a b c : sql_cmp a b = Lt -> sql_cmp b c = Lt -> sql_cmp a c = Lt.
Proof.
  intros H1 H2. pose proof (sql_cmp_lt_class _ _ H1) as C1. pose proof (sql_cmp_lt_class _ _ H2) as C2.
  destruct (Z.eq_dec (sql_class a) (sql_class c)) as [E|N].
  - assert (Eb : sql_class b = sql_class a) by lia.
    destruct (sql_class_cases a) as [->|[Ca|[[s ->]|[s ->]]]].
    + destruct b; cbn in Eb, H1; discriminate.
    + assert (Cb : sql_class b = 1) by lia. assert (Cc : sql_class c = 1) by lia.
      rewrite (sql_cmp_numeric a b Ca Cb) in H1. rewrite (sql_cmp_numeric b c Cb Cc) in H2.
      rewrite (sql_cmp_numeric a c Ca Cc).
      destruct (sql_num a) as [x|]; [|discriminate]. destruct (sql_num b) as [y|]; [|discriminate].
      destruct (sql_num c) as [z|]; [|discriminate].
      eapply num_cmp_lt_trans; eauto.
    + destruct b; cbn in Eb; try discriminate. destruct c; cbn in E; try discriminate.
      rewrite sql_cmp_text in *. eapply lex_cmp_lt_trans; eauto.
    + destruct b; cbn in Eb; try discriminate. destruct c; cbn in E; try discriminate.
      rewrite sql_cmp_blob in *. eapply lex_cmp_lt_trans; eauto.
  - unfold sql_cmp. assert (L : sql_class a < sql_class c) by lia. apply Z.compare_lt_iff in L. rewrite L. reflexivity.
Qed.

(* equality and strict order compose (the value that is compared twice must not be REAL NaN) *)
Lemma sql_cmp_eq_lt a b c : sv_wf a = true -> sql_cmp a b = Eq -> sql_cmp b c = Lt -> sql_cmp a c = Lt.
Proof.
  intros W H1 H2. destruct (sql_cmp a c) eqn:E; [|reflexivity|]; exfalso.
  - assert (X : sql_cmp b c = Eq) by (eapply sql_cmp_eq_trans; [exact W|apply sql_cmp_eq_sym, H1|exact E]). congruence.
  - assert (X : sql_cmp c a = Lt) by (rewrite (sql_cmp_antisym a c), E; reflexivity).
    pose proof (sql_cmp_lt_trans _ _ _ H2 X) as Y. rewrite (sql_cmp_antisym a b), H1 in Y. discriminate.
Qed.

Lemma sql_cmp_lt_eq a b c : sv_wf c = true -> sql_cmp a b = Lt -> sql_cmp b c = Eq -> sql_cmp a c = Lt.
Proof.
  intros W H1 H2. destruct (sql_cmp a c) eqn:E; [|reflexivity|]; exfalso.
  - assert (X : sql_cmp a b = Eq) by (eapply sql_cmp_eq_trans; [exact W|exact E|apply sql_cmp_eq_sym, H2]). congruence.
  - assert (X : sql_cmp c a = Lt) by (rewrite (sql_cmp_antisym a c), E; reflexivity).
    pose proof (sql_cmp_lt_trans _ _ _ X H1) as Y. rewrite (sql_cmp_antisym b c), H2 in Y. discriminate.
Qed.

(* without the restriction the composition fails: 1 < 2 = NaN but 1 = NaN in the model's comparison *)
Example sql_cmp_lt_eq_needs_wf :
  sql_cmp (SInt 1) (SInt 2) = Lt /\ sql_cmp (SInt 2) (SReal FNaN) = Eq /\ sql_cmp (SInt 1) (SReal FNaN) = Eq.
Proof. repeat split; reflexivity. Qed.

(* ================================================================== the order on (key, raw) pairs *)
Definition kpair : Type := sqlval * bool.

(* ORDER BY key, raw: sql_cmp on the keys, then raw (false < true) *)
Definition kcmp (p q : kpair) : comparison :=
  match sql_cmp (fst p) (fst q) with
  | Eq => Z.compare (b2z (snd p)) (b2z (snd q))
  | c => c
  end.
Definition klt (p q : kpair) : bool := c_lt (kcmp p q).
Definition kwf (p : kpair) : bool := sv_wf (fst p).

Lemma c_lt_true c : c_lt c = true <-> c = Lt.
Proof. destruct c; cbn; split; congruence. Qed.

Lemma kcmp_antisym p q : kcmp q p = CompOpp (kcmp p q).
Proof.
  unfold kcmp. rewrite (sql_cmp_antisym (fst p) (fst q)).
  destruct (sql_cmp (fst p) (fst q)); cbn [CompOpp]; try reflexivity. apply Z.compare_antisym.
Qed.

Lemma kcmp_refl p : kcmp p p = Eq.
Proof. unfold kcmp. rewrite sql_cmp_refl. apply Z.compare_refl. Qed.

Lemma kcmp_eq p q : kcmp p q = Eq -> sql_cmp (fst p) (fst q) = Eq /\ snd p = snd q.
Proof.
  unfold kcmp. destruct (sql_cmp (fst p) (fst q)); try discriminate. intros H. split; [reflexivity|].
  apply Z.compare_eq in H. apply b2z_inj, H.
Qed.

Lemma kcmp_lt_trans p q r : kwf p = true -> kwf q = true -> kwf r = true ->
  kcmp p q = Lt -> kcmp q r = Lt -> kcmp p r = Lt.
Proof.
  unfold kwf, kcmp. intros Wp Wq Wr.
  destruct (sql_cmp (fst p) (fst q)) eqn:A; destruct (sql_cmp (fst q) (fst r)) eqn:B; intros H1 H2; try discriminate.
  - rewrite (sql_cmp_eq_trans _ _ _ Wq A B). rewrite Z.compare_lt_iff in *. lia.
  - rewrite (sql_cmp_eq_lt _ _ _ Wp A B). reflexivity.
  - rewrite (sql_cmp_lt_eq _ _ _ Wr A B). reflexivity.
  - rewrite (sql_cmp_lt_trans _ _ _ A B). reflexivity.
Qed.

(* klt is a strict total order on pairs whose key is not REAL NaN (equality: same key under sql_cmp, same raw) *)
Lemma klt_irrefl p : klt p p = false.
Proof. unfold klt. rewrite kcmp_refl. reflexivity. Qed.

Lemma klt_asym p q : klt p q = true -> klt q p = false.
Proof. unfold klt. rewrite (kcmp_antisym p q). destruct (kcmp p q); cbn; congruence. Qed.

Lemma klt_trans p q r : kwf p = true -> kwf q = true -> kwf r = true ->
  klt p q = true -> klt q r = true -> klt p r = true.
Proof.
  unfold klt. rewrite !c_lt_true. apply kcmp_lt_trans.
Qed.

Lemma klt_total p q : klt p q = false -> klt q p = false -> sql_cmp (fst p) (fst q) = Eq /\ snd p = snd q.
Proof.
  unfold klt. rewrite (kcmp_antisym p q). destruct (kcmp p q) eqn:E; cbn; try discriminate.
  intros _ _. apply kcmp_eq, E.
Qed.

(* ---- rows ---- *)
Definition kof (r : row) : kpair := (rkey r, rraw r).
Definition rlt (a b : row) : bool := klt (kof a) (kof b).

Lemma lex_rcmp_kcmp a b : lex_rcmp [ord_sql rkey; ord_bool rraw] a b = kcmp (kof a) (kof b).
Proof.
  cbn [lex_rcmp]. unfold ord_sql, ord_bool, kcmp, kof. cbn [fst snd].
  destruct (sql_cmp (rkey a) (rkey b)); try reflexivity. destruct (b2z (rraw a) ?= b2z (rraw b)); reflexivity.
Qed.

Lemma sort_keys t :
  sort_stable (fun a b => c_lt (lex_rcmp [ord_sql rkey; ord_bool rraw] a b)) t = sort_stable rlt t.
Proof. apply sort_stable_ext. intros a b _ _. rewrite lex_rcmp_kcmp. reflexivity. Qed.

Lemma sql_order_keys_asc t : sql_order false [ord_sql rkey; ord_bool rraw] t = sort_stable rlt t.
Proof. unfold sql_order. cbv zeta. apply sort_keys. Qed.

Lemma sql_order_keys_desc t : sql_order true [ord_sql rkey; ord_bool rraw] t = rev (sort_stable rlt t).
Proof. unfold sql_order. cbv zeta. f_equal. apply sort_keys. Qed.

(* the cursor predicates on non-NULL keys *)
Lemma tv_cmp_nn f a b : a <> SNull -> b <> SNull -> tv_cmp f a b = Some (f (sql_cmp a b)).
Proof. intros Na Nb. destruct a, b; try reflexivity; congruence. Qed.

Lemma cursor_pred_asc k raw r : rkey r <> SNull -> k <> SNull ->
  truthy (tv_or (tv_and (sql_eq (rkey r) k) (tvz_gt (b2z (rraw r)) (b2z raw))) (sql_gt (rkey r) k)) = klt (k, raw) (kof r).
Proof.
  intros Nr Nk. unfold sql_eq, sql_gt. rewrite !(tv_cmp_nn _ _ _ Nr Nk). unfold tvz_gt, klt, kcmp, kof. cbn [fst snd].
  rewrite (sql_cmp_antisym (rkey r) k). destruct (sql_cmp (rkey r) k); destruct raw, (rraw r); reflexivity.
Qed.

Lemma cursor_pred_desc k raw r : rkey r <> SNull -> k <> SNull ->
  truthy (tv_or (tv_and (sql_eq (rkey r) k) (tvz_lt (b2z (rraw r)) (b2z raw))) (sql_lt (rkey r) k)) = klt (kof r) (k, raw).
Proof.
  intros Nr Nk. unfold sql_eq, sql_lt. rewrite !(tv_cmp_nn _ _ _ Nr Nk). unfold tvz_lt, klt, kcmp, kof. cbn [fst snd].
  destruct (sql_cmp (rkey r) k); destruct raw, (rraw r); reflexivity.
Qed.

(* against a NULL cursor, or on a NULL row, the predicates are never true *)
Lemma cursor_pred_null_cursor raw r :
  truthy (tv_or (tv_and (sql_eq (rkey r) SNull) (tvz_gt (b2z (rraw r)) (b2z raw))) (sql_gt (rkey r) SNull)) = false /\
  truthy (tv_or (tv_and (sql_eq (rkey r) SNull) (tvz_lt (b2z (rraw r)) (b2z raw))) (sql_lt (rkey r) SNull)) = false.
Proof. destruct (rkey r), raw, (rraw r); split; reflexivity. Qed.

(* ================================================================== bridge lemmas *)
Lemma bridge_iterkeys_first_asc t : iterkeys_first_asc t = take 1 (sort_stable rlt t).
Proof. unfold iterkeys_first_asc. rewrite sql_limit_take by lia. rewrite sql_order_keys_asc. reflexivity. Qed.

Lemma bridge_iterkeys_first_desc t : iterkeys_first_desc t = take 1 (rev (sort_stable rlt t)).
Proof. unfold iterkeys_first_desc. rewrite sql_limit_take by lia. rewrite sql_order_keys_desc. reflexivity. Qed.

Lemma bridge_iterkeys_iter_asc k raw n t :
  (forall r, In r t -> rkey r <> SNull) -> k <> SNull -> 0 <= n ->
  iterkeys_iter_asc k (b2z raw) k n t =
  take (Z.to_nat n) (sort_stable rlt (filter (fun r => klt (k, raw) (kof r)) t)).
Proof.
  intros Nt Nk Hn. unfold iterkeys_iter_asc. rewrite sql_limit_take by exact Hn. rewrite sql_order_keys_asc.
  do 2 f_equal. apply filter_ext_in. intros r I. apply cursor_pred_asc; auto.
Qed.

Lemma bridge_iterkeys_iter_desc k raw n t :
  (forall r, In r t -> rkey r <> SNull) -> k <> SNull -> 0 <= n ->
  iterkeys_iter_desc k (b2z raw) k n t =
  take (Z.to_nat n) (rev (sort_stable rlt (filter (fun r => klt (kof r) (k, raw)) t))).
Proof.
  intros Nt Nk Hn. unfold iterkeys_iter_desc. rewrite sql_limit_take by exact Hn. rewrite sql_order_keys_desc.
  do 3 f_equal. apply filter_ext_in. intros r I. apply cursor_pred_desc; auto.
Qed.

Lemma bridge_iterkeys_page_pos : 0 < iterkeys_page.
Proof. reflexivity. Qed.

Definition kpage_n : nat := Z.to_nat iterkeys_page.
Lemma kpage_n_pos : (0 < kpage_n)%nat.
Proof. unfold kpage_n. pose proof bridge_iterkeys_page_pos. lia. Qed.

(* ================================================================== lists *)
Lemma perm_filter {A} (p : A -> bool) l1 l2 : Permutation l1 l2 -> Permutation (filter p l1) (filter p l2).
Proof.
  induction 1 as [|x l1 l2 _ IH|x y l|l1 l2 l3 _ IH1 _ IH2]; cbn [filter].
  - constructor.
  - destruct (p x); [constructor|]; exact IH.
  - destruct (p x), (p y); try reflexivity. apply perm_swap.
  - etransitivity; eauto.
Qed.

Lemma ss_app_inv {A} (R : A -> A -> Prop) a b :
  StronglySorted R (a ++ b) -> StronglySorted R a /\ StronglySorted R b /\ forall x y, In x a -> In y b -> R x y.
Proof.
  induction a as [|r a IH]; cbn [app]; intros S.
  - repeat split; [constructor|exact S|intros x y []].
  - inversion S as [|? ? S' F]; subst. destruct (IH S') as [Sa [Sb L]]. apply Forall_app in F as [Fa Fb]. repeat split.
    + constructor; assumption.
    + exact Sb.
    + intros x y [<-|Ix] Iy; [|auto]. rewrite Forall_forall in Fb. apply Fb, Iy.
Qed.

Lemma ss_app {A} (R : A -> A -> Prop) a b :
  StronglySorted R a -> StronglySorted R b -> (forall x y, In x a -> In y b -> R x y) -> StronglySorted R (a ++ b).
Proof.
  induction a as [|x a IH]; cbn [app]; intros Sa Sb H; [exact Sb|].
  inversion Sa as [|? ? Sa' F]; subst. constructor.
  - apply IH; [exact Sa'|exact Sb|]. intros u v Iu Iv. apply H; [right; exact Iu|exact Iv].
  - apply Forall_app. split; [exact F|]. apply Forall_forall. intros y Iy. apply H; [left; reflexivity|exact Iy].
Qed.

Lemma ss_rev {A} (R : A -> A -> Prop) l : StronglySorted R l -> StronglySorted (fun x y => R y x) (rev l).
Proof.
  induction 1 as [|x l S IH F]; cbn [rev]; [constructor|].
  apply ss_app; [exact IH|repeat constructor|]. intros a b Ia [<-|[]].
  rewrite Forall_forall in F. apply F. apply in_rev. exact Ia.
Qed.

Lemma ss_last {A} (R : A -> A -> Prop) l x d : StronglySorted R l -> In x l -> x = last l d \/ R x (last l d).
Proof.
  intros S I. destruct (list_snoc_cases l) as [->|[l' [y ->]]]; [destruct I|].
  rewrite last_snoc. apply in_app_or in I as [I|[<-|[]]]; [right|left; reflexivity].
  apply ss_app_inv in S as [_ [_ L]]. apply L; [exact I|left; reflexivity].
Qed.

Lemma take_in {A} n (l : list A) x : In x (take n l) -> In x l.
Proof. revert l; induction n; intros [|a l]; cbn; try tauto. intros [->|H]; auto. Qed.

Lemma NoDup_map_on {A B} (f : A -> B) l :
  (forall x y, In x l -> In y l -> f x = f y -> x = y) -> NoDup l -> NoDup (map f l).
Proof.
  induction l as [|a l IH]; cbn [map]; intros Inj N; [constructor|].
  inversion N as [|? ? Na Nl]; subst. constructor.
  - intros I. apply in_map_iff in I as [y [E Iy]]. apply Na.
    rewrite <- (Inj y a (or_intror Iy) (or_introl eq_refl) E). exact Iy.
  - apply IH; [|exact Nl]. intros x y Ix Iy. apply Inj; right; assumption.
Qed.

(* ================================================================== sorting by a strict total order on a table *)
Definition ple {A} (ltb : A -> A -> bool) (x y : A) : Prop := ltb y x = false.

Section Order.
  Context {A : Type}.
  Variable ltb : A -> A -> bool.
  Variable t : list A.
  (* ltb is a strict total order on the elements of t *)
  Hypothesis ltb_asym : forall a b, In a t -> In b t -> ltb a b = true -> ltb b a = false.
  Hypothesis ltb_trans : forall a b c, In a t -> In b t -> In c t -> ltb a b = true -> ltb b c = true -> ltb a c = true.
  Hypothesis ltb_total : forall a b, In a t -> In b t -> ltb a b = false -> ltb b a = false -> a = b.

  Lemma ltb_irrefl a : In a t -> ltb a a = false.
  Proof. intros Ia. destruct (ltb a a) eqn:E; [|reflexivity]. pose proof (ltb_asym a a Ia Ia E). congruence. Qed.

  Lemma ple_trans a b c : In a t -> In b t -> In c t -> ple ltb a b -> ple ltb b c -> ple ltb a c.
  Proof.
    unfold ple. intros Ia Ib Ic H1 H2. destruct (ltb c a) eqn:E; [|reflexivity]. exfalso.
    destruct (ltb a b) eqn:E2.
    - pose proof (ltb_trans c a b Ic Ia Ib E E2). congruence.
    - assert (a = b) by (apply ltb_total; assumption). subst. congruence.
  Qed.

  Lemma insert_sorted x l : In x t -> incl l t ->
    StronglySorted (ple ltb) l -> StronglySorted (ple ltb) (insert_stable ltb x l).
  Proof.
    intros Ix. induction l as [|y l IH]; cbn [insert_stable]; intros Il S.
    - constructor; constructor.
    - inversion S as [|? ? S' F]; subst.
      assert (Iy : In y t) by (apply Il; left; reflexivity).
      assert (Il' : incl l t) by (intros z Iz; apply Il; right; exact Iz).
      destruct (ltb x y) eqn:E.
      + constructor; [exact S|]. constructor; [apply (ltb_asym x y Ix Iy E)|].
        rewrite Forall_forall in *. intros z Iz.
        apply (ple_trans x y z Ix Iy (Il' z Iz)); [apply (ltb_asym x y Ix Iy E)|apply F, Iz].
      + constructor; [apply IH; assumption|].
        rewrite Forall_forall in *. intros z Iz. apply insert_stable_perm in Iz as [->|Iz]; [exact E|apply F, Iz].
  Qed.

  Lemma sort_sorted l : incl l t -> StronglySorted (ple ltb) (sort_stable ltb l).
  Proof.
    induction l as [|x l IH] using rev_ind; intros Il; [constructor|].
    rewrite sort_stable_snoc. apply insert_sorted.
    - apply Il, in_or_app. right. left. reflexivity.
    - intros z Iz. apply sort_stable_in in Iz. apply Il, in_or_app. left. exact Iz.
    - apply IH. intros z Iz. apply Il, in_or_app. left. exact Iz.
  Qed.

  (* a table has one sorted arrangement *)
  Lemma sorted_unique : forall l1 l2, incl l1 t -> incl l2 t ->
    StronglySorted (ple ltb) l1 -> StronglySorted (ple ltb) l2 -> Permutation l1 l2 -> l1 = l2.
  Proof.
    induction l1 as [|x l1 IH]; intros l2 I1 I2 S1 S2 Pm.
    - apply Permutation_nil in Pm. subst. reflexivity.
    - destruct l2 as [|y l2]; [apply Permutation_sym, Permutation_nil in Pm; discriminate|].
      inversion S1 as [|? ? S1' F1]; subst. inversion S2 as [|? ? S2' F2]; subst.
      assert (Ix : In x t) by (apply I1; left; reflexivity).
      assert (Iy : In y t) by (apply I2; left; reflexivity).
      assert (E : x = y).
      { apply ltb_total; [exact Ix|exact Iy| |].
        - assert (Jx : In x (y :: l2)) by (eapply Permutation_in; [exact Pm|left; reflexivity]).
          destruct Jx as [Jx|Jx]; [subst y; apply ltb_irrefl, Ix|]. rewrite Forall_forall in F2. apply (F2 x Jx).
        - assert (Jy : In y (x :: l1)) by (eapply Permutation_in; [apply Permutation_sym; exact Pm|left; reflexivity]).
          destruct Jy as [Jy|Jy]; [subst y; apply ltb_irrefl, Ix|]. rewrite Forall_forall in F1. apply (F1 y Jy). }
      subst y. f_equal. apply IH; [| |exact S1'|exact S2'|eapply Permutation_cons_inv; exact Pm].
      + intros z Iz. apply I1. right. exact Iz.
      + intros z Iz. apply I2. right. exact Iz.
  Qed.
End Order.

(* ================================================================== the paging loop, abstractly *)
Section Paging.
  Context {A : Type}.
  Variable ltb : A -> A -> bool.        (* "strictly after" *)
  Variable srt : list A -> list A.      (* ORDER BY *)
  Variable t : list A.                  (* the table *)
  Variable d : A.
  Variable n : nat.                     (* page size *)

  (* one page: the first n rows strictly after the cursor; then restart after the last row of the page *)
  Fixpoint ploop (fuel : nat) (c : A) : list A :=
    match fuel with
    | O => []
    | S f => let pg := take n (srt (filter (ltb c) t)) in
             match pg with
             | [] => []
             | _ => pg ++ ploop f (last pg d)
             end
    end.

  Hypothesis ltb_asym : forall a b, In a t -> In b t -> ltb a b = true -> ltb b a = false.
  Hypothesis ltb_trans : forall a b c, In a t -> In b t -> In c t -> ltb a b = true -> ltb b c = true -> ltb a c = true.
  Hypothesis ltb_total : forall a b, In a t -> In b t -> ltb a b = false -> ltb b a = false -> a = b.
  Hypothesis t_nodup : NoDup t.
  Hypothesis srt_perm : forall l, Permutation (srt l) l.
  Hypothesis srt_sorted : forall l, incl l t -> StronglySorted (ple ltb) (srt l).
  Hypothesis n_pos : (0 < n)%nat.

  Lemma srt_in l x : In x (srt l) <-> In x l.
  Proof. split; intros I; [eapply Permutation_in; [apply srt_perm|exact I]|eapply Permutation_in; [apply Permutation_sym, srt_perm|exact I]]. Qed.

  (* the rows after the cursor, in order, are the tail of the sorted table *)
  Lemma page_eq c done rest : srt t = done ++ rest ->
    (forall x, In x done -> ltb c x = false) -> (forall x, In x rest -> ltb c x = true) ->
    srt (filter (ltb c) t) = rest.
  Proof.
    intros EL Hd Hr. apply (sorted_unique ltb t ltb_asym ltb_total).
    - intros x I. apply srt_in, filter_In in I as [I _]. exact I.
    - intros x I. apply srt_in. rewrite EL. apply in_or_app. right. exact I.
    - apply srt_sorted. intros x I. apply filter_In in I as [I _]. exact I.
    - pose proof (srt_sorted t (incl_refl t)) as S. rewrite EL in S. apply ss_app_inv in S as [_ [S _]]. exact S.
    - rewrite srt_perm. transitivity (filter (ltb c) (srt t)); [apply perm_filter, Permutation_sym, srt_perm|].
      rewrite EL, filter_app, (filter_none _ done Hd), (filter_all _ rest Hr). reflexivity.
  Qed.

  Lemma ploop_rest fuel : forall done rest c, In c t -> srt t = done ++ rest ->
    (forall x, In x done -> ltb c x = false) -> (forall x, In x rest -> ltb c x = true) ->
    (length rest < fuel)%nat ->
    ploop fuel c = rest.
  Proof.
    induction fuel as [|f IH]; intros done rest c Ic EL Hd Hr Hf; [lia|].
    cbn [ploop]. rewrite (page_eq c done rest EL Hd Hr). cbv zeta.
    destruct rest as [|r0 rest0]; [rewrite take_nil; reflexivity|].
    set (rest := r0 :: rest0) in *.
    assert (Ne : take n rest <> []) by (apply take_nonempty; [exact n_pos|discriminate]).
    remember (take n rest) as pg eqn:Epg. destruct pg as [|p0 pg0]; [congruence|]. clear Ne. cbv iota.
    set (pg := p0 :: pg0) in *. set (dr := drop n rest).
    assert (Esplit : rest = pg ++ dr) by (rewrite Epg; apply take_app_drop).
    assert (SL : StronglySorted (ple ltb) (done ++ pg ++ dr))
      by (rewrite <- Esplit, <- EL; apply srt_sorted, incl_refl).
    assert (NL : NoDup (done ++ pg ++ dr))
      by (rewrite <- Esplit, <- EL; eapply Permutation_NoDup; [apply Permutation_sym, srt_perm|exact t_nodup]).
    assert (InL : forall x, In x (done ++ rest) -> In x t) by (intros x I; rewrite <- EL in I; apply srt_in, I).
    set (c' := last pg d).
    assert (Jc' : In c' pg) by (apply last_in; discriminate).
    assert (Ipg : forall x, In x pg -> In x rest) by (intros x I; rewrite Esplit; apply in_or_app; auto).
    assert (Idr : forall x, In x dr -> In x rest) by (intros x I; rewrite Esplit; apply in_or_app; auto).
    assert (Ic' : In c' t) by (apply InL, in_or_app; right; apply Ipg, Jc').
    destruct (ss_app_inv _ _ _ SL) as [_ [Spd _]]. destruct (ss_app_inv _ _ _ Spd) as [Spg [_ Lpd]].
    rewrite (IH (done ++ pg) dr c' Ic').
    - symmetry. exact Esplit.
    - rewrite <- app_assoc, <- Esplit. exact EL.
    - intros x I. apply in_app_or in I as [I|I].
      + destruct (ltb c' x) eqn:E; [|reflexivity]. exfalso.
        assert (Ix : In x t) by (apply InL, in_or_app; left; exact I).
        pose proof (ltb_trans c c' x Ic Ic' Ix (Hr c' (Ipg _ Jc')) E) as H1. pose proof (Hd x I) as H0. congruence.
      + destruct (ss_last _ pg x d Spg I) as [->|L]; [apply (ltb_irrefl ltb t ltb_asym), Ic'|exact L].
    - intros x I. pose proof (Lpd c' x Jc' I) as L. unfold ple in L.
      destruct (ltb c' x) eqn:E; [reflexivity|]. exfalso.
      assert (Ix : In x t) by (apply InL, in_or_app; right; apply Idr, I).
      assert (X : c' = x) by (apply ltb_total; assumption).
      apply NoDup_app_r in NL. apply (NoDup_app_disj pg dr x NL); [rewrite <- X; exact Jc'|exact I].
    - unfold dr. rewrite drop_length. unfold rest in *. cbn [length] in *. lia.
  Qed.

  (* first row, then pages until one is empty: the whole table in order, every row once *)
  Theorem paging_complete r0 l' : srt t = r0 :: l' -> r0 :: ploop (S (length t)) r0 = srt t.
  Proof.
    intros EL. rewrite EL. f_equal.
    assert (I0 : In r0 t) by (apply srt_in; rewrite EL; left; reflexivity).
    apply (ploop_rest _ [r0] l' r0 I0 EL).
    - intros x [<-|[]]. apply (ltb_irrefl ltb t ltb_asym), I0.
    - intros x I. pose proof (srt_sorted t (incl_refl t)) as S. rewrite EL in S.
      inversion S as [|? ? _ F]; subst. rewrite Forall_forall in F. pose proof (F x I) as L. unfold ple in L.
      destruct (ltb r0 x) eqn:E; [reflexivity|]. exfalso.
      assert (Ix : In x t) by (apply srt_in; rewrite EL; right; exact I).
      assert (X : r0 = x) by (apply ltb_total; assumption).
      assert (N : NoDup (r0 :: l')) by (rewrite <- EL; eapply Permutation_NoDup; [apply Permutation_sym, srt_perm|exact t_nodup]).
      inversion N as [|? ? N0 _]; subst. contradiction.
    - pose proof (Permutation_length (srt_perm t)) as Len. rewrite EL in Len. cbn [length] in Len. lia.
  Qed.
End Paging.

(* ================================================================== the table hypotheses *)
(* what iterkeys needs of a table: rows pairwise distinct; (key, raw) unique under the SQLite comparison
   (UNIQUE index); no REAL NaN and no NULL key *)
Definition keys_ok (t : list row) : Prop :=
  NoDup t /\ keys_unique t /\ (forall r, In r t -> sv_wf (rkey r) = true) /\ (forall r, In r t -> rkey r <> SNull).

(* every state satisfying the invariant has such a table *)
Lemma winv_keys_ok s : Winv s -> keys_ok (rows s).
Proof.
  intros W. repeat split.
  - apply rows_nodup, (w_rowids s W).
  - apply (w_keys s W).
  - apply (w_wf s W).
  - intros r I. apply key_nonnull_spec, (w_nonnull s W), I.
Qed.

(* the boolean form of the last clause, for tables given explicitly *)
Lemma keys_ok_of_forallb t :
  NoDup t -> keys_unique t -> (forall r, In r t -> sv_wf (rkey r) = true) ->
  forallb (fun r => key_nonnull (rkey r)) t = true -> keys_ok t.
Proof.
  intros N U W Nn. repeat split; auto. intros r I. rewrite forallb_forall in Nn. apply key_nonnull_spec, Nn, I.
Qed.

Section Rows.
  Variable t : list row.
  Hypothesis K : keys_ok t.

  Lemma rlt_asym_in a b : In a t -> In b t -> rlt a b = true -> rlt b a = false.
  Proof. intros _ _. apply klt_asym. Qed.
  Lemma rlt_trans_in a b c : In a t -> In b t -> In c t -> rlt a b = true -> rlt b c = true -> rlt a c = true.
  Proof. destruct K as [_ [_ [W _]]]. intros Ia Ib Ic. apply klt_trans; unfold kwf, kof; cbn [fst]; auto. Qed.
  Lemma rlt_total_in a b : In a t -> In b t -> rlt a b = false -> rlt b a = false -> a = b.
  Proof.
    destruct K as [_ [U [_ N]]]. intros Ia Ib H1 H2. destruct (klt_total _ _ H1 H2) as [E1 E2]. cbn [kof fst snd] in E1, E2.
    apply U; [exact Ia|exact Ib|]. apply key_match_spec. repeat split; auto.
    - apply sql_cmp_eq_sym, E1.
    - rewrite E2. reflexivity.
  Qed.

  (* the reversed order *)
  Definition rgt (a b : row) : bool := rlt b a.
  Lemma rgt_asym_in a b : In a t -> In b t -> rgt a b = true -> rgt b a = false.
  Proof. intros _ _. apply klt_asym. Qed.
  Lemma rgt_trans_in a b c : In a t -> In b t -> In c t -> rgt a b = true -> rgt b c = true -> rgt a c = true.
  Proof. unfold rgt. intros Ia Ib Ic H1 H2. apply (rlt_trans_in c b a); assumption. Qed.
  Lemma rgt_total_in a b : In a t -> In b t -> rgt a b = false -> rgt b a = false -> a = b.
  Proof. unfold rgt. intros Ia Ib H1 H2. apply rlt_total_in; assumption. Qed.

  Lemma sorted_asc l : incl l t -> StronglySorted (ple rlt) (sort_stable rlt l).
  Proof. apply (sort_sorted rlt t rlt_asym_in rlt_trans_in rlt_total_in). Qed.
  Lemma sorted_desc l : incl l t -> StronglySorted (ple rgt) (rev (sort_stable rlt l)).
  Proof. intros Il. apply (ss_rev (ple rlt)). apply sorted_asc, Il. Qed.
  Lemma perm_desc (l : list row) : Permutation (rev (sort_stable rlt l)) l.
  Proof. rewrite <- Permutation_rev. apply sort_stable_perm. Qed.

  (* ---- the model's loop is the abstract loop (cursors are rows of the table: never NULL) ---- *)
  Lemma page_last_in (q : row -> bool) (f : list row -> list row) n p0 pg0 :
    (forall l x, In x (f l) -> In x l) -> p0 :: pg0 = take n (f (filter q t)) -> In (last (p0 :: pg0) dummy_row) t.
  Proof.
    intros Hf E. assert (I : In (last (p0 :: pg0) dummy_row) (p0 :: pg0)) by (apply last_in; discriminate).
    assert (J : forall x, In x (p0 :: pg0) -> In x t)
      by (intros x Ix; rewrite E in Ix; apply take_in, Hf, filter_In in Ix as [Ix _]; exact Ix).
    apply J, I.
  Qed.

  Lemma iterkeys_loop_asc fuel : forall c, In c t ->
    iterkeys_loop fuel false (rkey c) (rraw c) t = ploop rlt (sort_stable rlt) t dummy_row kpage_n fuel c.
  Proof.
    destruct K as [_ [_ [_ N]]].
    induction fuel as [|f IH]; intros c Ic; [reflexivity|]. cbn [iterkeys_loop ploop].
    rewrite (bridge_iterkeys_iter_asc (rkey c) (rraw c) iterkeys_page t N (N c Ic))
      by (pose proof bridge_iterkeys_page_pos; lia).
    fold kpage_n. change (fun r => klt (rkey c, rraw c) (kof r)) with (rlt c). cbv zeta.
    remember (take kpage_n (sort_stable rlt (filter (rlt c) t))) as pg eqn:Epg. destruct pg as [|p0 pg0]; [reflexivity|].
    cbv iota. f_equal. apply IH. apply (page_last_in (rlt c) (sort_stable rlt) kpage_n p0 pg0); [|exact Epg].
    intros l x I. apply sort_stable_in in I. exact I.
  Qed.

  Lemma iterkeys_loop_desc fuel : forall c, In c t ->
    iterkeys_loop fuel true (rkey c) (rraw c) t = ploop rgt (fun l => rev (sort_stable rlt l)) t dummy_row kpage_n fuel c.
  Proof.
    destruct K as [_ [_ [_ N]]].
    induction fuel as [|f IH]; intros c Ic; [reflexivity|]. cbn [iterkeys_loop ploop].
    rewrite (bridge_iterkeys_iter_desc (rkey c) (rraw c) iterkeys_page t N (N c Ic))
      by (pose proof bridge_iterkeys_page_pos; lia).
    fold kpage_n. change (fun r => klt (kof r) (rkey c, rraw c)) with (rgt c). cbv zeta.
    remember (take kpage_n (rev (sort_stable rlt (filter (rgt c) t)))) as pg eqn:Epg. destruct pg as [|p0 pg0]; [reflexivity|].
    cbv iota. f_equal. apply IH.
    apply (page_last_in (rgt c) (fun l => rev (sort_stable rlt l)) kpage_n p0 pg0); [|exact Epg].
    intros l x I. apply in_rev, sort_stable_in in I. exact I.
  Qed.

  (* ---- first row + loop = the sorted table ---- *)
  Lemma iterkeys_asc_complete r0 l' : sort_stable rlt t = r0 :: l' ->
    r0 :: iterkeys_loop (S (length t)) false (rkey r0) (rraw r0) t = sort_stable rlt t.
  Proof.
    intros EL. assert (I0 : In r0 t) by (apply (sort_stable_in rlt); rewrite EL; left; reflexivity).
    rewrite (iterkeys_loop_asc _ r0 I0).
    apply (paging_complete rlt (sort_stable rlt) t dummy_row kpage_n rlt_asym_in rlt_trans_in rlt_total_in
             (proj1 K) (sort_stable_perm rlt) sorted_asc kpage_n_pos r0 l' EL).
  Qed.

  Lemma iterkeys_desc_complete r0 l' : rev (sort_stable rlt t) = r0 :: l' ->
    r0 :: iterkeys_loop (S (length t)) true (rkey r0) (rraw r0) t = rev (sort_stable rlt t).
  Proof.
    intros EL. assert (I0 : In r0 t) by (apply (sort_stable_in rlt), in_rev; rewrite EL; left; reflexivity).
    rewrite (iterkeys_loop_desc _ r0 I0).
    apply (paging_complete rgt (fun l => rev (sort_stable rlt l)) t dummy_row kpage_n rgt_asym_in rgt_trans_in rgt_total_in
             (proj1 K) perm_desc sorted_desc kpage_n_pos r0 l' EL).
  Qed.
End Rows.

(* ================================================================== Cache.iterkeys *)
Definition iterkeys_order : list rcmp := [ord_sql rkey; ord_bool rraw].

Lemma iterkeys_state s reverse : fst (op_iterkeys s reverse) = s.
Proof. unfold op_iterkeys. destruct (if reverse then _ else _); reflexivity. Qed.

(* every row exactly once, in (key, raw) order resp. its reverse, whatever the number of pages *)
Theorem iterkeys_all_rows_table s reverse : keys_ok (rows s) ->
  op_iterkeys s reverse = (s, RKeys (keys_of (sql_order reverse iterkeys_order (rows s)))).
Proof.
  intros K. unfold op_iterkeys, iterkeys_order. destruct reverse.
  - rewrite bridge_iterkeys_first_desc, sql_order_keys_desc.
    pose proof (iterkeys_desc_complete (rows s) K) as H.
    destruct (rev (sort_stable rlt (rows s))) as [|r0 l'] eqn:EL; [reflexivity|].
    cbn [take]. rewrite (H r0 l' eq_refl). reflexivity.
  - rewrite bridge_iterkeys_first_asc, sql_order_keys_asc.
    pose proof (iterkeys_asc_complete (rows s) K) as H.
    destruct (sort_stable rlt (rows s)) as [|r0 l'] eqn:EL; [reflexivity|].
    cbn [take]. rewrite (H r0 l' eq_refl). reflexivity.
Qed.

Theorem iterkeys_all_rows s reverse :
  Winv s -> snd (op_iterkeys s reverse) = RKeys (keys_of (sql_order reverse iterkeys_order (rows s))).
Proof. intros W. rewrite (iterkeys_all_rows_table s reverse (winv_keys_ok s W)). reflexivity. Qed.

Corollary iterkeys_sinv s reverse :
  Sinv s -> op_iterkeys s reverse = (s, RKeys (keys_of (sql_order reverse iterkeys_order (rows s)))).
Proof. intros [W _]. apply iterkeys_all_rows_table, winv_keys_ok; assumption. Qed.

(* every state reachable from the empty cache through the API (any configuration, any history of calls other than
   push, any clock and volume-oracle values): no hypothesis on the keys is left *)
Corollary iterkeys_reachable c h reverse :
  (forall x, In x h -> is_push (fst (fst x)) = false) ->
  let s := run c init_st h in
  op_iterkeys s reverse = (s, RKeys (keys_of (sql_order reverse iterkeys_order (rows s)))).
Proof. intros Np s. apply iterkeys_sinv. apply sinv_run_nopush, Np. Qed.

Lemma sinv_no_null_key s : Sinv s -> forall r, In r (rows s) -> rkey r <> SNull.
Proof. intros S r I. apply key_nonnull_spec. exact (w_nonnull s (proj1 S) r I). Qed.

(* ... and no reachable state holds a NULL key *)
Corollary reachable_no_null_key c h :
  (forall x, In x h -> is_push (fst (fst x)) = false) ->
  forall r, In r (rows (run c init_st h)) -> rkey r <> SNull.
Proof.
  intros Np r I. apply key_nonnull_spec. apply (w_nonnull _ (proj1 (sinv_run_nopush c h Np))), I.
Qed.

(* the result described without reference to the sort: a duplicate-free permutation of the (key, raw) pairs
   of the table, ascending (resp. descending) in the order klt *)
Lemma sql_order_perm reverse ks t : Permutation (sql_order reverse ks t) t.
Proof.
  unfold sql_order. cbv zeta. destruct reverse; [rewrite <- Permutation_rev|]; apply sort_stable_perm.
Qed.

Lemma keys_nodup t : keys_ok t -> NoDup (keys_of t).
Proof.
  intros [N [U [_ Nn]]]. unfold keys_of. apply NoDup_map_on; [|exact N].
  intros x y Ix Iy E. inversion E as [[E1 E2]]. apply U; [exact Ix|exact Iy|]. apply key_match_spec.
  repeat split; auto.
  - rewrite E1. apply sql_cmp_refl.
  - rewrite E2. reflexivity.
Qed.

Definition pairs_sorted (reverse : bool) (l : list kpair) : Prop :=
  StronglySorted (fun p q => if reverse then klt q p = true else klt p q = true) l.

Lemma ple_strict (ltb : row -> row -> bool) t l :
  (forall a b, In a t -> In b t -> ltb a b = false -> ltb b a = false -> a = b) ->
  incl l t -> NoDup l -> StronglySorted (ple ltb) l -> StronglySorted (fun a b => ltb a b = true) l.
Proof.
  intros Tot. induction l as [|x l IH]; intros Il N S; [constructor|].
  inversion S as [|? ? S' F]; subst. inversion N as [|? ? Nx Nl]; subst. constructor.
  - apply IH; [intros z Iz; apply Il; right; exact Iz|exact Nl|exact S'].
  - rewrite Forall_forall in *. intros y Iy. pose proof (F y Iy) as L. unfold ple in L.
    destruct (ltb x y) eqn:E; [reflexivity|]. exfalso. apply Nx.
    rewrite (Tot x y (Il x (or_introl eq_refl)) (Il y (or_intror Iy)) E L). exact Iy.
Qed.

Lemma ss_map {A B} (f : A -> B) (R : B -> B -> Prop) l :
  StronglySorted (fun a b => R (f a) (f b)) l -> StronglySorted R (map f l).
Proof.
  induction 1 as [|x l S IH F]; cbn [map]; constructor; [exact IH|].
  rewrite Forall_forall in *. intros y Iy. apply in_map_iff in Iy as [z [<- Iz]]. apply F, Iz.
Qed.

Theorem iterkeys_result_table s reverse :
  keys_ok (rows s) ->
  exists l, op_iterkeys s reverse = (s, RKeys l) /\
            Permutation l (keys_of (rows s)) /\ NoDup l /\ pairs_sorted reverse l /\
            length l = length (rows s).
Proof.
  intros K.
  exists (keys_of (sql_order reverse iterkeys_order (rows s))). split; [apply iterkeys_all_rows_table, K|].
  assert (P : Permutation (keys_of (sql_order reverse iterkeys_order (rows s))) (keys_of (rows s)))
    by (unfold keys_of; apply Permutation_map, sql_order_perm).
  repeat split.
  - exact P.
  - eapply Permutation_NoDup; [apply Permutation_sym, P|apply keys_nodup, K].
  - unfold pairs_sorted, keys_of, iterkeys_order. apply ss_map. pose proof (proj1 K) as N. destruct reverse.
    + rewrite sql_order_keys_desc.
      apply (ple_strict rgt (rows s)); [apply (rgt_total_in (rows s) K)| | |apply (sorted_desc (rows s) K), incl_refl].
      * intros x I. apply in_rev, sort_stable_in in I. exact I.
      * eapply Permutation_NoDup; [apply Permutation_sym, perm_desc|exact N].
    + rewrite sql_order_keys_asc.
      apply (ple_strict rlt (rows s)); [apply (rlt_total_in (rows s) K)| | |apply (sorted_asc (rows s) K), incl_refl].
      * intros x I. apply sort_stable_in in I. exact I.
      * eapply Permutation_NoDup; [apply Permutation_sym, sort_stable_perm|exact N].
  - rewrite (Permutation_length P). unfold keys_of. apply map_length.
Qed.

Corollary iterkeys_result s reverse :
  Winv s ->
  exists l, op_iterkeys s reverse = (s, RKeys l) /\
            Permutation l (keys_of (rows s)) /\ NoDup l /\ pairs_sorted reverse l /\
            length l = length (rows s).
Proof. intros W. apply iterkeys_result_table, winv_keys_ok, W. Qed.

Corollary iterkeys_result_reachable c h reverse :
  (forall x, In x h -> is_push (fst (fst x)) = false) ->
  let s := run c init_st h in
  exists l, op_iterkeys s reverse = (s, RKeys l) /\
            Permutation l (keys_of (rows s)) /\ NoDup l /\ pairs_sorted reverse l /\
            length l = length (rows s).
Proof. intros Np s. apply iterkeys_result. exact (proj1 (sinv_run_nopush c h Np)). Qed.

(* ================================================================== examples *)
(* the hypotheses are satisfiable by a non-trivial reachable state: int, float, text, bytes and pickled keys,
   1 and 1.0 being one key *)
Definition iterkeys_demo_hist : list (op * Z * list Z) :=
  [(OSet (VStr [98]) (VInt 1) false None SNull, 0, []);
   (OSet (VInt 7) (VInt 2) false None SNull, 1, []);
   (OSet (VBytes [98]) (VInt 3) false None SNull, 2, []);
   (OSet (VFloat (FFin 3 (-1))) (VInt 4) false None SNull, 3, []);
   (OSet (VOther 5) (VInt 5) false None SNull, 4, []);
   (OSet (VInt 1) (VInt 6) false None SNull, 5, []);
   (OSet (VFloat (FFin 1 0)) (VInt 7) false None SNull, 6, []);
   (OSet (VInt (-4)) (VInt 8) false None SNull, 7, [])].
Definition iterkeys_demo_st : st := run demo_cfg init_st iterkeys_demo_hist.

Example iterkeys_demo_hyps :
  (forall x, In x iterkeys_demo_hist -> is_push (fst (fst x)) = false) /\
  Sinv iterkeys_demo_st /\ Winv iterkeys_demo_st /\ keys_ok (rows iterkeys_demo_st) /\
  forallb (fun r => key_nonnull (rkey r)) (rows iterkeys_demo_st) = true /\
  length (rows iterkeys_demo_st) = 7%nat.
Proof.
  assert (Np : forall x, In x iterkeys_demo_hist -> is_push (fst (fst x)) = false)
    by (intros x I; repeat (destruct I as [<-|I]; [reflexivity|]); destruct I).
  assert (S : Sinv iterkeys_demo_st) by (apply (sinv_run_nopush demo_cfg iterkeys_demo_hist), Np).
  split; [exact Np|]. split; [exact S|]. split; [exact (proj1 S)|]. split; [apply winv_keys_ok; exact (proj1 S)|].
  split; vm_compute; reflexivity.
Qed.

Example iterkeys_demo_result :
  snd (op_iterkeys iterkeys_demo_st false) =
    RKeys [(SInt (-4), true); (SInt 1, true); (SReal (FFin 3 (-1)), true); (SInt 7, true); (SText [98], true);
           (SBlob [4; 5], false); (SBlob [98], true)] /\
  snd (op_iterkeys iterkeys_demo_st true) =
    RKeys [(SBlob [98], true); (SBlob [4; 5], false); (SText [98], true); (SInt 7, true); (SReal (FFin 3 (-1)), true);
           (SInt 1, true); (SInt (-4), true)].
Proof. split; vm_compute; reflexivity. Qed.

(* a page-straddling run of the abstract loop: 7 rows, page size 2 (3 full pages, 1 short page, 1 empty page),
   two rows differing only in raw *)
Definition demo_row (i : Z) (k : sqlval) (raw : bool) : row :=
  {| rowid := i; rkey := k; rraw := raw; store_time := 0; expire_time := None; access_time := 0; access_count := 0;
     rtag := SNull; rsize := 0; rmode := 1; rfile := None; rvalue := SInt i |}.
Definition demo_table : list row :=
  [demo_row 1 (SText [98]) true; demo_row 2 (SInt 7) true; demo_row 3 (SBlob [98]) true;
   demo_row 4 (SReal (FFin 3 (-1))) true; demo_row 5 (SBlob [98]) false; demo_row 6 (SInt (-4)) true;
   demo_row 7 (SText [97; 98]) true].

Example ploop_straddles_pages :
  map rowid (ploop rlt (sort_stable rlt) demo_table dummy_row 2 8 (demo_row 6 (SInt (-4)) true)) = [4; 2; 7; 1; 5; 3] /\
  map rowid (sort_stable rlt demo_table) = [6; 4; 2; 7; 1; 5; 3] /\
  map rowid (ploop rgt (fun l => rev (sort_stable rlt l)) demo_table dummy_row 2 8 (demo_row 3 (SBlob [98]) true))
    = [5; 1; 7; 2; 4; 6].
Proof. repeat split; vm_compute; reflexivity. Qed.

(* float('nan') keys.  Before the repair of finding C02-F2 / C03-F1 Disk.put bound a NaN key natively, SQLite
   stored NULL, every such set inserted a new row (NULL = NULL is not true) and iterkeys stopped after the first
   NULL row (ascending) resp. never reached one (descending): the witness history c[nan] = 1; c[7] = 2; c[nan] = 3
   gave three rows with keys NULL, 7, NULL and the listings [NULL] / [7].  On the repaired put (the generated
   decision tree, run here by vm_compute) the same history gives TWO rows -- the second NaN set replaces the
   first, the key is the pickle of NaN with raw = 0 -- and iterkeys lists both keys, in either direction. *)
Definition iterkeys_nan_hist : list (op * Z * list Z) :=
  [(OSet (VFloat FNaN) (VInt 1) false None SNull, 0, []);
   (OSet (VInt 7) (VInt 2) false None SNull, 1, []);
   (OSet (VFloat FNaN) (VInt 3) false None SNull, 2, [])].

Example iterkeys_nan_key_complete :
  (forall x, In x iterkeys_nan_hist -> is_push (fst (fst x)) = false) /\
  let s := run demo_cfg init_st iterkeys_nan_hist in
  Sinv s /\ keys_of (rows s) = [(SBlob (pkk demo_codec (VFloat FNaN)), false); (SInt 7, true)] /\
  snd (op_iterkeys s false) = RKeys [(SInt 7, true); (SBlob (pkk demo_codec (VFloat FNaN)), false)] /\
  snd (op_iterkeys s true) = RKeys [(SBlob (pkk demo_codec (VFloat FNaN)), false); (SInt 7, true)] /\
  (forall reverse, snd (op_iterkeys s reverse) = RKeys (keys_of (sql_order reverse iterkeys_order (rows s)))) /\
  (* the NaN entry is reached by key: it holds the value of the LAST set, and the decoded key is NaN again *)
  snd (op_get demo_cfg s (VFloat FNaN) false 3) = RVal (FVal (VInt 3)) None SNull /\
  snd (op_contains demo_cfg s (VFloat FNaN) 3) = RBool true /\
  get demo_codec (SBlob (pkk demo_codec (VFloat FNaN))) false = Some (VFloat FNaN) /\
  keys_of (rows (fst (op_delete demo_cfg s (VFloat FNaN) false 3))) = [(SInt 7, true)].
Proof.
  assert (Np : forall x, In x iterkeys_nan_hist -> is_push (fst (fst x)) = false)
    by (intros x I; repeat (destruct I as [<-|I]; [reflexivity|]); destruct I).
  split; [exact Np|]. cbv zeta. split; [apply sinv_run_nopush, Np|].
  split; [vm_compute; reflexivity|]. split; [vm_compute; reflexivity|]. split; [vm_compute; reflexivity|].
  split; [intros reverse; rewrite (iterkeys_reachable demo_cfg iterkeys_nan_hist reverse Np); reflexivity|].
  repeat split; vm_compute; reflexivity.
Qed.

(* the non-NULL clause of keys_ok cannot be dropped from the table-level statement: on a table holding NULL keys
   (what the released put left behind for NaN keys: the three rows of the old witness) iterkeys lists [NULL]
   ascending and [7] descending.  Such a table is not reachable through the repaired API (reachable_no_null_key);
   a directory written by released code can still hold such rows: they stay invisible to key lookups and are
   removed by clear / expire / evict / cull like any other row *)
Definition null_key_table : list row :=
  [demo_row 1 SNull true; demo_row 2 (SInt 7) true; demo_row 3 SNull true].

Example iterkeys_null_key_table_incomplete :
  let s := set_rows init_st null_key_table 3 0 in
  NoDup (rows s) /\ keys_unique (rows s) /\ (forall r, In r (rows s) -> sv_wf (rkey r) = true) /\
  snd (op_iterkeys s false) = RKeys [(SNull, true)] /\
  snd (op_iterkeys s true) = RKeys [(SInt 7, true)].
Proof.
  cbv zeta. split; [|split; [|split; [|split; vm_compute; reflexivity]]].
  - change (rows (set_rows init_st null_key_table 3 0)) with null_key_table.
    repeat constructor; cbn; intuition discriminate.
  - change (rows (set_rows init_st null_key_table 3 0)) with null_key_table.
    intros r r' I I' M. cbn in I, I'.
    destruct I as [<-|[<-|[<-|[]]]]; destruct I' as [<-|[<-|[<-|[]]]]; try reflexivity; vm_compute in M; discriminate.
  - change (rows (set_rows init_st null_key_table 3 0)) with null_key_table.
    intros r I. cbn in I. destruct I as [<-|[<-|[<-|[]]]]; reflexivity.
Qed.

Print Assumptions sql_cmp_lt_trans.
Print Assumptions klt_trans.
Print Assumptions bridge_iterkeys_iter_asc.
Print Assumptions bridge_iterkeys_iter_desc.
Print Assumptions paging_complete.
Print Assumptions iterkeys_all_rows_table.
Print Assumptions iterkeys_all_rows.
Print Assumptions iterkeys_result.
Print Assumptions iterkeys_sinv.
Print Assumptions iterkeys_state.
Print Assumptions iterkeys_reachable.
Print Assumptions iterkeys_result_reachable.
Print Assumptions reachable_no_null_key.
Print Assumptions iterkeys_nan_key_complete.
Print Assumptions iterkeys_null_key_table_incomplete.
