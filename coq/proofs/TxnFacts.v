(* The real transaction bodies (model/Txn.v) meet what the concurrency machine asks of a body
   (ConcFacts.body_ok), with the database invariant Dinv := Winv (the state invariant of SinvFacts.v minus
   the orphan clause: between COMMIT and cleanup the replaced file is an orphan).  And run without
   interleaving, store ; body ; cleanup ; fetch is exactly the corresponding op_* of model/Cache.v.
   This discharges the hypotheses of the all-schedule theorems of proofs/ConcTheorems.v for programs made
   of set / add / delete / pop / touch / incr / get / contains calls. *)
From Coq Require Import ZArith List Bool Lia Sorted Permutation.
From DC Require Import DCPrelude DCPreludeFacts Val DiskBase SqlBase Gen_Disk Disk Gen_Sql Cache Refs Conc Txn
  TableFacts TableRows SqlBridge ExpiryFacts DiskFacts SortFacts SqlOrderFacts SinvFacts ConcFacts ConcTheorems.

(* ================================================================== ids: fs_put vs fs_write *)
Definition fs_fresh (s : st) : Prop := forall id, In id (map fst (fs s)) -> id < next_file s.

Lemma sinv_fs_fresh s : Winv s -> fs_fresh s.
Proof. intros W id I. apply (w_lt s W). right. exact I. Qed.

(* in a sequential run the machine's fresh id is next_file s, and recording the content is fs_write *)
Lemma fs_put_is_fs_write s content : fs_fresh s ->
  (fs_put s (next_file s) content, Some (next_file s)) = fs_write s (Some content).
Proof.
  intros Fr. unfold fs_put, fs_write. f_equal. f_equal.
  - f_equal. apply filter_all. intros [i x] I. cbn [fst]. apply negb_true_iff, Z.eqb_neq.
    specialize (Fr i (in_map fst _ _ I)). cbn in Fr. lia.
  - lia.
Qed.

Lemma fs_remove_somes l : forall s, fs_remove s (map Some (somes l)) = fs_remove s l.
Proof.
  induction l as [|o l IH]; intros s; [reflexivity|]. destruct o as [g|]; cbn [somes flat_map ofile app map].
  - rewrite !fs_remove_cons. apply IH.
  - rewrite fs_remove_cons. cbn [fs_remove1]. apply IH.
Qed.

(* ================================================================== sequential equivalence *)
Ltac seq_start :=
  unfold run_seq; cbn [w_store w_body w_set w_add w_delete w_pop w_touch w_incr].

Theorem seq_set retry c s k v rd e tag now pg :
  fs_fresh s -> run_seq (w_set retry c k v rd e tag now pg) s = op_set c s k v rd e tag now pg.
Proof.
  intros Fr. seq_start. unfold body_set, op_set, stores_file.
  destruct (put (c_codec c) k) as [dbk raw|]; [|reflexivity].
  destruct (store _ _ v rd) as [sd|]; [|reflexivity].
  destruct (s_file sd) as [content|] eqn:Ef; cbn [is_some attach].
  - rewrite <- (fs_put_is_fs_write s content Fr).
    destruct (set_select _ _ _); cbv beta iota zeta; destruct (cull _ _ _ _) as [s3 cl2];
      cbn [ok_out bo_ok bo_db bo_cleanup bo_fetch bo_res ofile map]; rewrite fs_remove_somes; reflexivity.
  - cbn [fs_write].
    destruct (set_select _ _ _); cbv beta iota zeta; destruct (cull _ _ _ _) as [s3 cl2];
      cbn [ok_out bo_ok bo_db bo_cleanup bo_fetch bo_res ofile map]; rewrite fs_remove_somes; reflexivity.
Qed.

Theorem seq_add retry c s k v rd e tag now pg :
  fs_fresh s -> run_seq (w_add retry c k v rd e tag now pg) s = op_add c s k v rd e tag now pg.
Proof.
  intros Fr. seq_start. unfold body_add, op_add, stores_file.
  destruct (put (c_codec c) k) as [dbk raw|]; [|reflexivity].
  destruct (store _ _ v rd) as [sd|]; [|reflexivity].
  destruct (s_file sd) as [content|] eqn:Ef; cbn [is_some attach].
  - rewrite <- (fs_put_is_fs_write s content Fr).
    destruct (add_select _ _ _); cbv beta iota zeta.
    + destruct (cull _ _ _ _) as [s3 cl2];
        cbn [ok_out bo_ok bo_db bo_cleanup bo_fetch bo_res ofile map]; rewrite fs_remove_somes; reflexivity.
    + destruct (add_live _ _).
      * cbn [ok_out bo_ok bo_db bo_cleanup bo_fetch bo_res ofile map]. rewrite fs_remove_somes. reflexivity.
      * destruct (cull _ _ _ _) as [s3 cl2];
          cbn [ok_out bo_ok bo_db bo_cleanup bo_fetch bo_res ofile map]; rewrite fs_remove_somes; reflexivity.
  - cbn [fs_write].
    destruct (add_select _ _ _); cbv beta iota zeta.
    + destruct (cull _ _ _ _) as [s3 cl2];
        cbn [ok_out bo_ok bo_db bo_cleanup bo_fetch bo_res ofile map]; rewrite fs_remove_somes; reflexivity.
    + destruct (add_live _ _).
      * cbn [ok_out bo_ok bo_db bo_cleanup bo_fetch bo_res ofile map]. rewrite fs_remove_somes. reflexivity.
      * destruct (cull _ _ _ _) as [s3 cl2];
          cbn [ok_out bo_ok bo_db bo_cleanup bo_fetch bo_res ofile map]; rewrite fs_remove_somes; reflexivity.
Qed.

Theorem seq_delete retry c s k di now : run_seq (w_delete retry c k di now) s = op_delete c s k di now.
Proof.
  seq_start. unfold body_delete, op_delete. destruct (put (c_codec c) k) as [dbk raw|]; [|reflexivity].
  destruct (del_select _ _ _ _); [destruct di; reflexivity|].
  cbn [ok_out bo_ok bo_db bo_cleanup bo_fetch bo_res ofile map]. rewrite fs_remove_somes. reflexivity.
Qed.

Theorem seq_pop retry c s k now : run_seq (w_pop retry c k now) s = op_pop c s k now.
Proof.
  seq_start. unfold body_pop, op_pop. destruct (put (c_codec c) k) as [dbk raw|]; [|reflexivity].
  destruct (pop_select _ _ _ _) as [|r0 rs]; [reflexivity|]. cbv zeta.
  cbn [ok_out bo_ok bo_db bo_cleanup bo_fetch bo_res somes flat_map map].
  assert (E : fs_remove (fs_remove (t_delete (pop_delete (rowid r0) (rows s)) s) []) (map Some (ofile (rfile r0))) =
              fs_remove (t_delete (pop_delete (rowid r0) (rows s)) s) [rfile r0]).
  { destruct (rfile r0); reflexivity. }
  rewrite E. destruct (fetch_row _ _ _ _); reflexivity.
Qed.

Theorem seq_touch retry c s k e now : run_seq (w_touch retry c k e now) s = op_touch c s k e now.
Proof.
  seq_start. unfold body_touch, op_touch. destruct (put (c_codec c) k) as [dbk raw|]; [|reflexivity].
  destruct (touch_select _ _ _); [reflexivity|]. destruct (touch_live _ _); reflexivity.
Qed.

Theorem seq_incr retry c s k d df now pg :
  incr_inline c d df = true -> run_seq (w_incr retry c k d df now pg) s = op_incr c s k d df now pg.
Proof.
  intros Hin. seq_start. unfold body_incr, op_incr. destruct (put (c_codec c) k) as [dbk raw|]; [|reflexivity].
  assert (Fr : forall upd,
    (let o := match df with
      | None => raise_out s (RRaise EKeyError)
      | Some d0 =>
        match store (c_codec c) (c_min_file_size c) (VInt (d0 + d)) false with
        | StRaise => raise_out s (RRaise EStore)
        | StOk sd =>
          match s_file sd with
          | Some _ => raise_out s (RRaise EStore)
          | None =>
            let s2 := match upd with
                      | None => t_insert (columns_insert dbk raw now None SNull sd None) s
                      | Some r0 => columns_update (rowid r0) now None SNull sd None s
                      end in
            let '(s3, cl2) := cull c now pg s2 in
            ok_out s3 (cl2 ++ match upd with Some r0 => [rfile r0] | None => [] end) None (RVal (FVal (VInt (d0 + d))) None SNull)
          end
        end
      end in
     if bo_ok o then (fs_remove (fs_remove (bo_db o) (map Some (bo_cleanup o))) (map Some (ofile (bo_fetch o))), bo_res o)
     else (s, bo_res o)) =
    match df with
    | None => (s, RRaise EKeyError)
    | Some d0 =>
      match store (c_codec c) (c_min_file_size c) (VInt (d0 + d)) false with
      | StRaise => (s, RRaise EStore)
      | StOk sd =>
        let '(s1, fid) := fs_write s (s_file sd) in
        let s2 := match upd with
                  | None => t_insert (columns_insert dbk raw now None SNull sd fid) s1
                  | Some r0 => columns_update (rowid r0) now None SNull sd fid s1
                  end in
        let '(s3, cl2) := cull c now pg s2 in
        (fs_remove s3 (cl2 ++ match upd with Some r0 => [rfile r0] | None => [] end), RVal (FVal (VInt (d0 + d))) None SNull)
      end
    end).
  { intros upd. unfold incr_inline in Hin. destruct df as [d0|]; [|reflexivity].
    destruct (store _ _ _ _) as [sd|]; [|reflexivity].
    destruct (s_file sd) as [content|]; [discriminate|]. cbn [fs_write]. cbv zeta.
    destruct (cull _ _ _ _) as [s3 cl2]. cbn [ok_out bo_ok bo_db bo_cleanup bo_fetch bo_res ofile map].
    rewrite fs_remove_somes. reflexivity. }
  destruct (incr_select _ _ _) as [|r0 rs]; [apply (Fr None)|].
  destruct (incr_expired _ _); [apply (Fr (Some r0))|].
  destruct (rvalue r0); try reflexivity. destruct (in_int64 _); reflexivity.
Qed.

(* incr's side condition holds whenever the new value is an int64 (the only case in which the real
   incr stores inline for every min_file_size); with default = None nothing is stored at all *)
Lemma incr_inline_int64 c delta d0 : in_int64 (d0 + delta) = true -> incr_inline c delta (Some d0) = true.
Proof.
  intros R. unfold incr_inline, store. rewrite bridge_store_plan. cbn [store_plan_spec]. rewrite R.
  cbn [run_plan bind]. rewrite R. reflexivity.
Qed.

(* a sequential call preserves the full invariant (Part 1 through the equivalence) *)
Corollary run_seq_set_sinv retry c s k v rd e tag now pg :
  Sinv s -> Sinv (fst (run_seq (w_set retry c k v rd e tag now pg) s)).
Proof. intros H. rewrite seq_set; [apply sinv_set, H|apply sinv_fs_fresh, H]. Qed.

(* the lock-free lookups: SELECT then open, with every file in place, is op_get / op_contains *)
Theorem seq_get c s k rd now : Winv s -> run_rop (r_get c k rd now) s = snd (op_get c s k rd now).
Proof.
  intros W. unfold run_rop, r_get, r_get_with, op_get. cbn [r_select]. destruct (put (c_codec c) k) as [dbk raw|]; [|reflexivity].
  destruct (get_select dbk (b2z raw) now (rows s)) as [|r0 rs] eqn:G.
  - destruct (get_fast_path _ _); reflexivity.
  - assert (I0 : In r0 (rows s)).
    { rewrite bridge_get_select in G. apply filter_cons_in in G. apply G. }
    assert (E : (match rfile r0 with
                 | None => SelHit (match fetch_row c s r0 rd with FIOError => RDefault | v => RVal v (expire_time r0) (rtag r0) end)
                 | Some g => SelFile g (match fetch_row c s r0 rd with FIOError => RDefault | v => RVal v (expire_time r0) (rtag r0) end) RDefault
                 end) = SelHit (match fetch_row c s r0 rd with FIOError => RDefault | v => RVal v (expire_time r0) (rtag r0) end)
              \/ exists g, rfile r0 = Some g /\ is_some (fs_get (fs s) g) = true).
    { destruct (rfile r0) as [g|] eqn:Ef; [right|left; reflexivity]. exists g. split; [reflexivity|].
      pose proof (w_file s W r0 I0) as F. unfold file_ok in F. rewrite Ef in F. destruct F as [c0 [F _]]. rewrite F. reflexivity. }
    cbv zeta. destruct E as [E|[g [Ef Pr]]].
    + rewrite E. destruct (get_fast_path _ _); destruct (fetch_row _ _ _ _); reflexivity.
    + rewrite Ef, Pr. destruct (get_fast_path _ _); destruct (fetch_row _ _ _ _); reflexivity.
Qed.

Theorem seq_get_fast_path c s k rd now :
  get_fast_path (statistics s) (if policy_has_get (c_policy c) then Some tt else None) = true ->
  fst (op_get c s k rd now) = s.
Proof.
  intros Fp. unfold op_get. destruct (put (c_codec c) k); [|reflexivity]. rewrite Fp.
  destruct (get_select _ _ _ _); [reflexivity|]. destruct (fetch_row _ _ _ _); reflexivity.
Qed.

Theorem seq_contains c s k now : run_rop (r_contains c k now) s = snd (op_contains c s k now).
Proof.
  unfold run_rop, r_contains, op_contains. cbn [r_select]. destruct (put (c_codec c) k) as [dbk raw|]; [|reflexivity].
  destruct (is_nil _); reflexivity.
Qed.

(* ================================================================== body_ok *)
Definition out_ok (d : st) (f : option Z) (o : bout) : Prop :=
  Winv (bo_db o) /\
  (forall g, In g (refs (bo_db o)) -> In g (refs d) \/ f = Some g) /\
  (forall g, In g (bo_cleanup o ++ optl (bo_fetch o)) -> (In g (refs d) \/ f = Some g) /\ ~ In g (refs (bo_db o))) /\
  NoDup (bo_cleanup o ++ optl (bo_fetch o)) /\
  bo_early o = [] /\
  (bo_ok o = true -> forall g, f = Some g -> In g (refs (bo_db o)) \/ In g (bo_cleanup o)).

Lemma body_ok_intro (w : cwop) :
  (forall d f, Winv d -> (forall g, f = Some g -> ~ In g (refs d)) -> (w_store w = false -> f = None) -> out_ok d f (w_body w d f)) ->
  body_ok refs Winv w.
Proof. intros H d f Hd Hf Hs. apply H; assumption. Qed.

Lemma out_ok_raise d f r : Winv d -> out_ok d f (raise_out d r).
Proof.
  intros W. unfold out_ok, raise_out. cbn [bo_db bo_cleanup bo_fetch bo_early bo_ok optl app].
  split; [exact W|]. split; [intros g I; left; exact I|]. split; [intros g []|]. split; [constructor|].
  split; [reflexivity|]. intros E. discriminate E.
Qed.

(* conservation of files: every file the body started with (the referenced ones and the stored one) ends up
   referenced, in the cleanup list, or as the file to fetch -- exactly once *)
Lemma out_ok_conserve d f o :
  (forall g, f = Some g -> ~ In g (refs d)) -> Winv d -> Winv (bo_db o) -> bo_early o = [] ->
  (forall g, f = Some g -> bo_fetch o <> Some g) ->
  Permutation (ofile f ++ refs d) (refs (bo_db o) ++ bo_cleanup o ++ ofile (bo_fetch o)) ->
  out_ok d f o.
Proof.
  intros Hf W W' He Hfe Pm.
  assert (Nd : NoDup (ofile f ++ refs d)).
  { destruct f as [g|]; cbn; [constructor; [apply Hf; reflexivity|apply W]|apply W]. }
  assert (Nd' : NoDup (refs (bo_db o) ++ bo_cleanup o ++ ofile (bo_fetch o))) by (eapply Permutation_NoDup; eauto).
  assert (InA : forall g, In g (ofile f ++ refs d) -> In g (refs d) \/ f = Some g).
  { intros g I. apply in_app_or in I as [I|I]; [right; apply in_ofile, I|left; exact I]. }
  unfold out_ok. change optl with ofile.
  split; [exact W'|]. split; [|split; [|split; [|split; [exact He|]]]].
  - intros g I. apply InA. eapply Permutation_in; [apply Permutation_sym, Pm|]. apply in_or_app. left. exact I.
  - intros g I. split.
    + apply InA. eapply Permutation_in; [apply Permutation_sym, Pm|]. apply in_or_app. right. exact I.
    + intros I'. eapply (NoDup_app_disj _ _ g Nd'); eauto.
  - eapply NoDup_app_r, Nd'.
  - intros _ g E. assert (I : In g (ofile f ++ refs d)) by (apply in_or_app; left; apply in_ofile, E).
    eapply Permutation_in in I; [|exact Pm]. apply in_app_or in I as [I|I]; [left; exact I|].
    apply in_app_or in I as [I|I]; [right; exact I|]. apply in_ofile in I. exfalso. eapply Hfe; eauto.
Qed.

(* ---- the stored file joins the working copy ---- *)
Lemma winv_fs_put d g content : Winv d -> ~ In g (refs d) ->
  Winv (fs_put d g content) /\ refs (fs_put d g content) = refs d /\ rows (fs_put d g content) = rows d /\
  fs_get (fs (fs_put d g content)) g = Some content.
Proof.
  intros W Ng.
  assert (Gother : forall id, id <> g ->
            fs_get (filter (fun p => negb (fst p =? g)) (fs d) ++ [(g, content)]) id = fs_get (fs d) id).
  { intros id N. rewrite fs_get_app, fs_get_filter. destruct (Z.eqb_spec id g); [contradiction|].
    destruct (fs_get (fs d) id); [reflexivity|]. destruct (Z.eqb_spec g id); [congruence|reflexivity]. }
  assert (Gg : fs_get (filter (fun p => negb (fst p =? g)) (fs d) ++ [(g, content)]) g = Some content).
  { rewrite fs_get_app, fs_get_filter, !Z.eqb_refl. reflexivity. }
  split; [|split; [reflexivity|split; [reflexivity|exact Gg]]].
  split; try (apply W).
  - cbn [fs_put set_fs fs]. rewrite map_app. cbn [map fst]. apply NoDup_snoc; [apply NoDup_map_filter, W|].
    intros I. apply in_map_iff in I as [[i x] [E I]]. cbn in E. subst i. apply filter_In in I as [_ T].
    cbn in T. rewrite Z.eqb_refl in T. discriminate.
  - change (refs (fs_put d g content)) with (refs d). cbn [fs_put set_fs fs next_file]. intros id [I|I].
    + pose proof (w_lt d W id (or_introl I)). lia.
    + rewrite map_app in I. apply in_app_or in I as [I|[<-|[]]]; [|cbn; lia].
      apply in_map_iff in I as [[i x] [E I]]. cbn in E. subst i. apply filter_In in I as [I _].
      pose proof (w_lt d W id (or_intror (in_map fst _ _ I))). lia.
  - cbn [fs_put set_fs fs rows]. intros r I. pose proof (w_file d W r I) as F. unfold file_ok in *.
    destruct (rfile r) as [id|] eqn:Ef; [|exact F]. destruct F as [c0 [F S]]. exists c0. split; [|exact S].
    rewrite Gother; [exact F|]. intros ->. apply Ng. apply in_frefs. eauto.
Qed.

Lemma attach_ok d f oc s1 fid :
  Winv d -> (forall g, f = Some g -> ~ In g (refs d)) -> attach d f oc = Some (s1, fid) ->
  Winv s1 /\ refs s1 = refs d /\ rows s1 = rows d /\ fid = f /\
  fid_ok s1 fid (match oc with Some c0 => fsize c0 | None => 0 end).
Proof.
  intros W Hf. unfold attach. destruct f as [g|], oc as [content|]; try discriminate; intros E; inversion E; subst; clear E.
  - destruct (winv_fs_put d g content W (Hf g eq_refl)) as [W1 [R1 [Rw G]]].
    split; [exact W1|]. split; [exact R1|]. split; [exact Rw|]. split; [reflexivity|].
    unfold fid_ok. split; [rewrite R1; apply Hf; reflexivity|]. exists content. split; [exact G|reflexivity].
  - split; [exact W|]. split; [reflexivity|]. split; [reflexivity|]. split; reflexivity.
Qed.

(* ---- the tails: cull after the INSERT / UPDATE ---- *)
Lemma perm_insert_tail (f : list Z) (d s3 cl2 : list Z) :
  Permutation (d ++ f) (s3 ++ cl2) -> Permutation (f ++ d) (s3 ++ cl2 ++ []).
Proof. intros H. rewrite app_nil_r. eapply Permutation_trans; [apply Permutation_app_comm|exact H]. Qed.

Lemma perm_update_tail (f d old s2 s3 cl2 : list Z) :
  Permutation (f ++ d) (old ++ s2) -> Permutation s2 (s3 ++ cl2) -> Permutation (f ++ d) (s3 ++ (old ++ cl2) ++ []).
Proof.
  intros H1 H2. rewrite app_nil_r. eapply Permutation_trans; [exact H1|].
  eapply Permutation_trans; [apply Permutation_app_head, H2|]. apply Permutation_app_swap_app.
Qed.

Lemma insert_tail_ok c now pg d f s1 dbk raw exp tag sd l :
  Winv d -> (forall g, f = Some g -> ~ In g (refs d)) ->
  Winv s1 -> refs s1 = refs d -> rows s1 = rows d -> fid_ok s1 f (s_size sd) ->
  (forall r, In r (rows s1) -> key_match dbk (b2z raw) r = false) -> sv_wf dbk = true -> key_nonnull dbk = true ->
  let s2 := t_insert (columns_insert dbk raw now exp tag sd f) s1 in
  Permutation (somes l) (somes (snd (cull c now pg s2))) ->
  forall r, out_ok d f (ok_out (fst (cull c now pg s2)) l None r).
Proof.
  intros W Hf W1 R1 Rw Fok Hk Hw Hnn s2 Hl r.
  destruct (pinv_columns_insert s1 _ dbk raw now exp tag sd f (winv_pinv s1 W1) Hk Hw Hnn Fok) as [H2 [Rf2 _]]. fold s2 in H2, Rf2.
  destruct (cull c now pg s2) as [s3 cl2] eqn:C. cbn [fst snd] in *.
  destruct (pinv_cull c now pg s2 _ s3 cl2 C H2) as [H3 [Pm _]].
  apply out_ok_conserve; cbn [ok_out bo_db bo_early bo_cleanup bo_fetch]; auto.
  - apply H3.
  - discriminate.
  - cbn [ofile]. eapply Permutation_trans; [|apply Permutation_app_head, Permutation_app_tail, Permutation_sym, Hl].
    apply perm_insert_tail. rewrite <- R1, <- Rf2. exact Pm.
Qed.

Lemma update_tail_ok c now pg d f s1 r0 exp tag sd l :
  Winv d -> (forall g, f = Some g -> ~ In g (refs d)) ->
  Winv s1 -> refs s1 = refs d -> fid_ok s1 f (s_size sd) -> In r0 (rows s1) ->
  let s2 := columns_update (rowid r0) now exp tag sd f s1 in
  Permutation (somes l) (ofile (rfile r0) ++ somes (snd (cull c now pg s2))) ->
  forall r, out_ok d f (ok_out (fst (cull c now pg s2)) l None r).
Proof.
  intros W Hf W1 R1 Fok I0 s2 Hl r.
  destruct (pinv_columns_update s1 _ r0 now exp tag sd f (winv_pinv s1 W1) I0 Fok) as [H2 [Pm2 _]]. fold s2 in H2, Pm2.
  destruct (cull c now pg s2) as [s3 cl2] eqn:C. cbn [fst snd] in *.
  destruct (pinv_cull c now pg s2 _ s3 cl2 C H2) as [H3 [Pm _]].
  apply out_ok_conserve; cbn [ok_out bo_db bo_early bo_cleanup bo_fetch]; auto.
  - apply H3.
  - discriminate.
  - cbn [ofile]. eapply Permutation_trans; [|apply Permutation_app_head, Permutation_app_tail, Permutation_sym, Hl].
    rewrite <- R1. eapply perm_update_tail; eauto.
Qed.

(* ---- set ---- *)
Theorem body_ok_set retry c k v rd e tag now pg : body_ok refs Winv (w_set retry c k v rd e tag now pg).
Proof.
  apply body_ok_intro. intros d f W Hf _. cbn [w_body w_set]. unfold body_set.
  destruct (put (c_codec c) k) as [dbk raw|] eqn:Pk; [|apply out_ok_raise, W].
  destruct (store _ _ v rd) as [sd|] eqn:St; [|apply out_ok_raise, W].
  destruct (attach d f (s_file sd)) as [[s1 fid]|] eqn:At; [|apply out_ok_raise, W].
  destruct (attach_ok d f _ s1 fid W Hf At) as [W1 [R1 [Rw [-> Fok]]]].
  rewrite <- (store_size_ok _ _ _ _ _ St) in Fok.
  rewrite bridge_set_select. destruct (filter _ (rows s1)) as [|r0 rs] eqn:F; cbv beta iota zeta.
  - pose proof (insert_tail_ok c now pg d f s1 dbk raw (expire_at now e) tag sd) as Tl. cbv zeta in Tl.
    destruct (cull c now pg _) as [s3 cl2] eqn:C. cbn [fst snd] in Tl. apply Tl; auto.
    + intros r I. eapply filter_nil_none; eauto.
    + eapply put_wf; eauto.
    + eapply put_key_nonnull; eauto.
  - apply filter_cons_in in F as [I0 _].
    pose proof (update_tail_ok c now pg d f s1 r0 (expire_at now e) tag sd) as Tl. cbv zeta in Tl.
    destruct (cull c now pg _) as [s3 cl2] eqn:C. cbn [fst snd] in Tl. apply Tl; auto.
Qed.

(* ---- add ---- *)
Theorem body_ok_add retry c k v rd e tag now pg : body_ok refs Winv (w_add retry c k v rd e tag now pg).
Proof.
  apply body_ok_intro. intros d f W Hf _. cbn [w_body w_add]. unfold body_add.
  destruct (put (c_codec c) k) as [dbk raw|] eqn:Pk; [|apply out_ok_raise, W].
  destruct (store _ _ v rd) as [sd|] eqn:St; [|apply out_ok_raise, W].
  destruct (attach d f (s_file sd)) as [[s1 fid]|] eqn:At; [|apply out_ok_raise, W].
  destruct (attach_ok d f _ s1 fid W Hf At) as [W1 [R1 [Rw [-> Fok]]]].
  rewrite <- (store_size_ok _ _ _ _ _ St) in Fok.
  rewrite bridge_add_select. destruct (filter _ (rows s1)) as [|r0 rs] eqn:F; cbv beta iota zeta.
  - pose proof (insert_tail_ok c now pg d f s1 dbk raw (expire_at now e) tag sd) as Tl. cbv zeta in Tl.
    destruct (cull c now pg _) as [s3 cl2] eqn:C. cbn [fst snd] in Tl. apply Tl; auto.
    + intros r I. eapply filter_nil_none; eauto.
    + eapply put_wf; eauto.
    + eapply put_key_nonnull; eauto.
  - apply filter_cons_in in F as [I0 _]. destruct (add_live _ _).
    + apply out_ok_conserve; cbn [ok_out bo_db bo_early bo_cleanup bo_fetch]; auto; [discriminate|].
      rewrite R1. cbn [somes flat_map ofile]. rewrite !app_nil_r. apply Permutation_app_comm.
    + pose proof (update_tail_ok c now pg d f s1 r0 (expire_at now e) tag sd) as Tl. cbv zeta in Tl.
      destruct (cull c now pg _) as [s3 cl2] eqn:C. cbn [fst snd] in Tl. apply Tl; auto.
Qed.

(* ---- delete / pop: one row goes, its file is handed over ---- *)
Lemma delete_one_ok d wh r0 cl fe r :
  Winv d -> In r0 (rows d) -> (forall x, wh x = (rowid x =? rowid r0)) ->
  Permutation (somes cl ++ ofile fe) (ofile (rfile r0)) ->
  out_ok d None (ok_out (t_delete wh d) cl fe r).
Proof.
  intros W I0 Hwh Hp.
  destruct (pinv_delete_sel d _ wh [r0] (winv_pinv d W) (sel_of_one _ _ I0)) as [H1 [Pm _]].
  { intros x _. rewrite Hwh, mem_rowid_one. reflexivity. }
  apply out_ok_conserve; cbn [ok_out bo_db bo_early bo_cleanup bo_fetch]; auto; try discriminate.
  - apply H1.
  - cbn [ofile app]. eapply Permutation_trans; [exact Pm|]. apply Permutation_app_head.
    cbn [map somes flat_map]. rewrite app_nil_r. apply Permutation_sym, Hp.
Qed.

Lemma unchanged_ok d cl r : Winv d -> cl = [] -> out_ok d None (ok_out d cl None r).
Proof.
  intros W ->. apply out_ok_conserve; cbn [ok_out bo_db bo_early bo_cleanup bo_fetch]; auto; try discriminate.
  cbn. rewrite app_nil_r. apply Permutation_refl.
Qed.

Theorem body_ok_delete retry c k di now : body_ok refs Winv (w_delete retry c k di now).
Proof.
  apply body_ok_intro. intros d f W Hf Hs. cbn [w_body w_delete w_store] in *. rewrite (Hs eq_refl). unfold body_delete.
  destruct (put (c_codec c) k) as [dbk raw|] eqn:Pk; [|apply out_ok_raise, W].
  rewrite bridge_del_select. destruct (filter _ (rows d)) as [|r0 rs] eqn:F.
  - apply out_ok_raise, W.
  - apply filter_cons_in in F as [I0 _]. apply (delete_one_ok d _ r0); auto.
    + intros x. apply bridge_del_delete.
    + cbn. rewrite !app_nil_r. apply Permutation_refl.
Qed.

Theorem body_ok_pop retry c k now : body_ok refs Winv (w_pop retry c k now).
Proof.
  apply body_ok_intro. intros d f W Hf Hs. cbn [w_body w_pop w_store] in *. rewrite (Hs eq_refl). unfold body_pop.
  destruct (put (c_codec c) k) as [dbk raw|] eqn:Pk; [|apply out_ok_raise, W].
  rewrite bridge_pop_select. destruct (filter _ (rows d)) as [|r0 rs] eqn:F.
  - apply unchanged_ok; auto.
  - apply filter_cons_in in F as [I0 _]. cbv zeta. apply (delete_one_ok d _ r0); auto.
    intros x. apply bridge_pop_delete.
Qed.

(* ---- touch / incr in place: no file moves ---- *)
Lemma update_keep_ok d wh f r :
  Winv d -> keeps_id f -> keeps_file f -> out_ok d None (ok_out (t_update wh f d) [] None r).
Proof.
  intros W Ki Kf. destruct (pinv_update_keep d _ wh f Ki Kf (winv_pinv d W)) as [H1 [Rf _]].
  apply out_ok_conserve; cbn [ok_out bo_db bo_early bo_cleanup bo_fetch]; auto; try discriminate.
  - apply H1.
  - rewrite Rf. cbn. rewrite app_nil_r. apply Permutation_refl.
Qed.

Theorem body_ok_touch retry c k e now : body_ok refs Winv (w_touch retry c k e now).
Proof.
  apply body_ok_intro. intros d f W Hf Hs. cbn [w_body w_touch w_store] in *. rewrite (Hs eq_refl). unfold body_touch.
  destruct (put (c_codec c) k) as [dbk raw|] eqn:Pk; [|apply out_ok_raise, W].
  destruct (touch_select _ _ _); [apply unchanged_ok; auto|].
  destruct (touch_live _ _); [|apply unchanged_ok; auto].
  apply update_keep_ok; auto using bridge_touch_update_keeps_id, bridge_touch_update_keeps_file.
Qed.

Theorem body_ok_incr retry c k dl df now pg : body_ok refs Winv (w_incr retry c k dl df now pg).
Proof.
  apply body_ok_intro. intros d f W Hf Hs. cbn [w_body w_incr w_store] in *. rewrite (Hs eq_refl). unfold body_incr.
  destruct (put (c_codec c) k) as [dbk raw|] eqn:Pk; [|apply out_ok_raise, W].
  assert (Hn : forall g, @None Z = Some g -> ~ In g (refs d)) by discriminate.
  assert (Fr : forall upd,
    match upd with Some r0 => In r0 (rows d) | None => forall r, In r (rows d) -> key_match dbk (b2z raw) r = false end ->
    out_ok d None (match df with
      | None => raise_out d (RRaise EKeyError)
      | Some d0 =>
        match store (c_codec c) (c_min_file_size c) (VInt (d0 + dl)) false with
        | StRaise => raise_out d (RRaise EStore)
        | StOk sd =>
          match s_file sd with
          | Some _ => raise_out d (RRaise EStore)
          | None =>
            let s2 := match upd with
                      | None => t_insert (columns_insert dbk raw now None SNull sd None) d
                      | Some r0 => columns_update (rowid r0) now None SNull sd None d
                      end in
            let '(s3, cl2) := cull c now pg s2 in
            ok_out s3 (cl2 ++ match upd with Some r0 => [rfile r0] | None => [] end) None (RVal (FVal (VInt (d0 + dl))) None SNull)
          end
        end
      end)).
  { intros upd Hu. destruct df as [d0|]; [|apply out_ok_raise, W].
    destruct (store _ _ _ _) as [sd|] eqn:St; [|apply out_ok_raise, W].
    destruct (s_file sd) as [content|] eqn:Ef; [apply out_ok_raise, W|].
    assert (Fok : fid_ok d None (s_size sd)).
    { cbn. rewrite (store_size_ok _ _ _ _ _ St), Ef. reflexivity. }
    cbv zeta. destruct upd as [r0|].
    - pose proof (update_tail_ok c now pg d None d r0 None SNull sd) as Tl. cbv zeta in Tl.
      destruct (cull c now pg _) as [s3 cl2] eqn:C. cbn [fst snd] in Tl. apply Tl; auto.
      rewrite somes_app. cbn [somes flat_map]. rewrite app_nil_r. apply Permutation_app_comm.
    - pose proof (insert_tail_ok c now pg d None d dbk raw None SNull sd) as Tl. cbv zeta in Tl.
      destruct (cull c now pg _) as [s3 cl2] eqn:C. cbn [fst snd] in Tl. apply Tl; auto.
      + eapply put_wf; eauto.
      + eapply put_key_nonnull; eauto.
      + rewrite app_nil_r. apply Permutation_refl. }
  rewrite bridge_incr_select. destruct (filter _ (rows d)) as [|r0 rs] eqn:F.
  - apply (Fr None). intros r I. eapply filter_nil_none; eauto.
  - apply filter_cons_in in F as [I0 _].
    destruct (incr_expired _ _); [apply (Fr (Some r0)), I0|].
    destruct (rvalue r0); try (apply out_ok_raise, W). destruct (in_int64 _); [|apply out_ok_raise, W].
    apply update_keep_ok; auto using bridge_incr_update_keeps_id, bridge_incr_update_keeps_file.
Qed.

(* ---- lookups open only files their row refers to ---- *)
Theorem rop_ok_get_with again c k rd now : rop_ok refs (r_get_with again c k rd now).
Proof.
  intros d f h m. unfold r_get_with. cbn [r_select]. destruct (put (c_codec c) k) as [dbk raw|]; [|discriminate].
  destruct (get_select dbk (b2z raw) now (rows d)) as [|r0 rs] eqn:G; [discriminate|].
  assert (I0 : In r0 (rows d)).
  { rewrite bridge_get_select in G. apply filter_cons_in in G. apply G. }
  cbv zeta. destruct (rfile r0) as [g|] eqn:Ef; [|discriminate]. intros E; inversion E; subst.
  apply in_frefs. eauto.
Qed.

Theorem rop_ok_get c k rd now : rop_ok refs (r_get c k rd now).
Proof. apply rop_ok_get_with. Qed.

(* the code looks the row up again when the file is gone (read off the source by the translator) *)
Lemma get_looks_again c k rd now : r_again (r_get c k rd now) = true.
Proof. reflexivity. Qed.

Theorem rop_ok_contains c k now : rop_ok refs (r_contains c k now).
Proof.
  intros d f h m. cbn [r_select r_contains]. destruct (put (c_codec c) k); [|discriminate].
  destruct (is_nil _); discriminate.
Qed.

(* ================================================================== programs of Cache calls, every schedule *)
Inductive call :=
| CSet (retry : bool) (k v : pyval) (rd : bool) (e : option Z) (tag : sqlval) (now pg : Z)
| CAdd (retry : bool) (k v : pyval) (rd : bool) (e : option Z) (tag : sqlval) (now pg : Z)
| CDelete (retry : bool) (k : pyval) (delitem : bool) (now : Z)
| CPop (retry : bool) (k : pyval) (now : Z)
| CTouch (retry : bool) (k : pyval) (e : option Z) (now : Z)
| CIncr (retry : bool) (k : pyval) (delta : Z) (default : option Z) (now pg : Z)
| CGet (k : pyval) (rd : bool) (now : Z)
| CContains (k : pyval) (now : Z).

Definition compile (c : cfg) (x : call) : Conc.op st result :=
  match x with
  | CSet retry k v rd e tag now pg => OWrite (w_set retry c k v rd e tag now pg)
  | CAdd retry k v rd e tag now pg => OWrite (w_add retry c k v rd e tag now pg)
  | CDelete retry k di now => OWrite (w_delete retry c k di now)
  | CPop retry k now => OWrite (w_pop retry c k now)
  | CTouch retry k e now => OWrite (w_touch retry c k e now)
  | CIncr retry k d df now pg => OWrite (w_incr retry c k d df now pg)
  | CGet k rd now => ORead (r_get c k rd now)
  | CContains k now => ORead (r_contains c k now)
  end.

Theorem compile_ok c x : op_ok refs Winv (compile c x).
Proof.
  destruct x; cbn [compile op_ok].
  - apply body_ok_set.
  - apply body_ok_add.
  - apply body_ok_delete.
  - apply body_ok_pop.
  - apply body_ok_touch.
  - apply body_ok_incr.
  - apply rop_ok_get.
  - apply rop_ok_contains.
Qed.

(* the machine invariant holds in every configuration reachable by any schedule (with kills) of any
   programs made of these calls, from the empty cache *)
Theorem cache_inv c (progs : nat -> list call) sched :
  Inv refs Winv (exec (init_config init_st (fun i => map (compile c) (progs i))) sched).
Proof.
  apply inv_exec, inv_init.
  - apply sinv_init.
  - reflexivity.
  - intros i. apply Forall_forall. intros o I. apply in_map_iff in I as [x [<- _]]. apply compile_ok.
Qed.

(* hence (ConcTheorems.ref_inv, instantiated): in every reachable configuration every file a committed row
   refers to is completely written, and the committed state satisfies the row-level invariant Winv *)
Corollary cache_committed_files_complete c progs sched :
  let cf := exec (init_config init_st (fun i => map (compile c) (progs i))) sched in
  Winv (db cf) /\ forall g, In g (refs (db cf)) -> files cf g = FDone.
Proof.
  cbv zeta. pose proof (cache_inv c progs sched) as H. split; [apply (@i_dinv _ _ _ _ _ H)|apply (@i_ref _ _ _ _ _ H)].
Qed.

(* ================================================================== a program step run alone = Cache.step *)
(* what the machine does for one call when nobody interleaves *)
Definition call_run (c : cfg) (x : call) (s : st) : st * result :=
  match compile c x with
  | OWrite w => run_seq w s
  | ORead r => (s, run_rop r s)
  end.
(* the same call in the sequential model (pg = the page part of volume() seen by _cull) *)
Definition call_step (c : cfg) (x : call) (s : st) : st * result :=
  match x with
  | CSet _ k v rd e tag now pg => step c s (OSet k v rd e tag) now [pg]
  | CAdd _ k v rd e tag now pg => step c s (OAdd k v rd e tag) now [pg]
  | CDelete _ k di now => step c s (ODelete k di) now []
  | CPop _ k now => step c s (OPop k) now []
  | CTouch _ k e now => step c s (OTouch k e) now []
  | CIncr _ k d df now pg => step c s (OIncr k d df) now [pg]
  | CGet k rd now => step c s (OGet k rd) now []
  | CContains k now => step c s (OContains k) now []
  end.
(* side conditions: incr stores inline; the lock-free get is the fast path of get *)
Definition call_side (c : cfg) (x : call) (s : st) : Prop :=
  match x with
  | CIncr _ _ d df _ _ => incr_inline c d df = true
  | CGet _ _ _ => get_fast_path (statistics s) (if policy_has_get (c_policy c) then Some tt else None) = true
  | _ => True
  end.

Theorem call_run_is_step c x s : Winv s -> call_side c x s -> call_run c x s = call_step c x s.
Proof.
  intros W Sd. destruct x; unfold call_run; cbn [compile call_step step hd_vol call_side] in *.
  - apply seq_set, sinv_fs_fresh, W.
  - apply seq_add, sinv_fs_fresh, W.
  - apply seq_delete.
  - apply seq_pop.
  - apply seq_touch.
  - apply seq_incr, Sd.
  - rewrite (seq_get c s k rd now W). rewrite <- (seq_get_fast_path c s k rd now Sd) at 1.
    destruct (op_get c s k rd now); reflexivity.
  - rewrite seq_contains. unfold op_contains. destruct (put _ k); reflexivity.
Qed.

(* so a call run alone preserves the full state invariant, orphans included *)
Corollary call_run_sinv c x s : Sinv s -> call_side c x s -> Sinv (fst (call_run c x s)).
Proof.
  intros H Sd. rewrite (call_run_is_step c x s (proj1 H) Sd). destruct x; cbn [call_step]; apply sinv_step_nopush; auto.
Qed.

Print Assumptions seq_set.
Print Assumptions seq_add.
Print Assumptions seq_incr.
Print Assumptions compile_ok.
Print Assumptions cache_inv.
Print Assumptions call_run_is_step.
