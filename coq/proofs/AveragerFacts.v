(* Averager (C20): the stored (total, count) is exactly (sum, number) of the adds completed since
   the last pop, for every number of clients, every program of adds/gets/pops and every schedule. *)
From DC Require Import DCPrelude RecipesBase Gen_Recipes Recipes.

(* ---- bridge lemmas ---- *)
Lemma bridge_avg_retry : avg_add_retry = true /\ avg_get_retry = true /\ avg_pop_retry = true.
Proof. repeat split; reflexivity. Qed.

Definition avg_view (s : avg_state) : Z * Z := k_get (0, 0) s.
Definition report (tc : Z * Z) : option (Z * Z) := if snd tc =? 0 then None else Some tc.

Lemma bridge_avg_add v s : avg_add v s = Some (fst (avg_view s) + v, snd (avg_view s) + 1).
Proof. unfold avg_add, avg_view. destruct s as [[t c]|]; reflexivity. Qed.

Lemma bridge_avg_get s : avg_get s = (report (avg_view s), s).
Proof. destruct s as [[t c]|]; reflexivity. Qed.

Lemma bridge_avg_pop s : avg_pop s = (report (avg_view s), None).
Proof. destruct s as [[t c]|]; reflexivity. Qed.

(* ---- invariant ---- *)
Definition ainv (cfg : aconfig) : Prop :=
  avg_view (a_shared cfg) = (sumZ (a_ledger cfg), Z.of_nat (length (a_ledger cfg))).

Lemma report_ledger l : report (sumZ l, Z.of_nat (length l)) = ledger_mean l.
Proof. destruct l as [|x l]; [reflexivity|]. unfold report. cbn [snd length]. destruct (Z.of_nat (S (length l)) =? 0) eqn:E; [|reflexivity]. apply Z.eqb_eq in E. lia. Qed.

Lemma astep_inv cfg c : ainv cfg -> ainv (astep cfg c).
Proof.
  unfold ainv, astep. intros I.
  destruct (nth_error (a_clients cfg) c) as [[|o rest]|]; try exact I.
  destruct o.
  - cbn [a_shared a_ledger]. rewrite bridge_avg_add, I. cbn [avg_view k_get fst snd sumZ length]. f_equal; lia.
  - rewrite bridge_avg_get. cbn [a_shared a_ledger]. exact I.
  - rewrite bridge_avg_pop. cbn [a_shared a_ledger]. reflexivity.
Qed.

Lemma arun_inv sched : forall cfg, ainv cfg -> ainv (arun sched cfg).
Proof. unfold arun. induction sched as [|c r IH]; cbn; intros cfg I; auto. apply IH, astep_inv, I. Qed.

Theorem avg_exact progs sched :
  let cfg := arun sched (ainit progs) in
  avg_view (a_shared cfg) = (sumZ (a_ledger cfg), Z.of_nat (length (a_ledger cfg))).
Proof. apply arun_inv. reflexivity. Qed.

(* what the next get / pop / add of any client does in any reachable state *)
Theorem avg_get_reports progs sched c rest :
  let cfg := arun sched (ainit progs) in
  nth_error (a_clients cfg) c = Some (AGet :: rest) ->
  let cfg' := astep cfg c in
  hd_error (a_trace cfg') = Some (c, AGot (ledger_mean (a_ledger cfg))) /\
  a_shared cfg' = a_shared cfg /\ a_ledger cfg' = a_ledger cfg.
Proof.
  intros cfg En cfg'. pose proof (avg_exact progs sched) as I. fold cfg in I.
  subst cfg'. unfold astep. rewrite En, bridge_avg_get, I, report_ledger. cbn. auto.
Qed.

Theorem avg_pop_reports progs sched c rest :
  let cfg := arun sched (ainit progs) in
  nth_error (a_clients cfg) c = Some (APop :: rest) ->
  let cfg' := astep cfg c in
  hd_error (a_trace cfg') = Some (c, APopped (ledger_mean (a_ledger cfg))) /\
  a_shared cfg' = None /\ a_ledger cfg' = [].
Proof.
  intros cfg En cfg'. pose proof (avg_exact progs sched) as I. fold cfg in I.
  subst cfg'. unfold astep. rewrite En, bridge_avg_pop, I, report_ledger. cbn. auto.
Qed.

Theorem avg_add_counts_once progs sched c v rest :
  let cfg := arun sched (ainit progs) in
  nth_error (a_clients cfg) c = Some (AAdd v :: rest) ->
  let cfg' := astep cfg c in
  avg_view (a_shared cfg') = (sumZ (a_ledger cfg) + v, Z.of_nat (length (a_ledger cfg)) + 1) /\
  a_ledger cfg' = v :: a_ledger cfg.
Proof.
  intros cfg En cfg'. pose proof (avg_exact progs sched) as I. fold cfg in I.
  subst cfg'. unfold astep. rewrite En. cbn [a_shared a_ledger]. rewrite bridge_avg_add, I. cbn. auto.
Qed.

Example avg_nonvacuous :
  let cfg := arun [0; 1; 0; 2; 1; 2; 0]%nat (ainit [[AAdd 3; AAdd 5; AGet]; [AAdd 4; AGet]; [APop; AAdd 7]]) in
  rev (a_trace cfg) = [(0%nat, AAdded); (1%nat, AAdded); (0%nat, AAdded); (2%nat, APopped (Some (12, 3)));
                       (1%nat, AGot None); (2%nat, AAdded); (0%nat, AGot (Some (7, 1)))] /\ a_ledger cfg = [7].
Proof. vm_compute. auto. Qed.
