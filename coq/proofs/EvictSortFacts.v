(* Generic facts about sort_stable / sql_order / sql_limit / take used by the eviction proofs (C09):
   the output of ORDER BY is a sorted permutation of its input, LIMIT keeps a prefix, and therefore
   every selected row is <= every unselected row in the order key.  Stdlib only. *)
From Coq Require Import ZifyBool Sorting.Sorted Sorting.Permutation.
From DC Require Import DCPrelude DCPreludeFacts Val SqlBase.

(* ---------------------------------------------------------------- lists *)
Lemma filter_all {A} (p : A -> bool) l : (forall x, In x l -> p x = true) -> filter p l = l.
Proof.
  induction l as [|a l IH]; cbn; intros H; [reflexivity|].
  rewrite (H a (or_introl eq_refl)). f_equal. apply IH. intros x Hx. apply H. right. exact Hx.
Qed.

Lemma filter_none {A} (p : A -> bool) l : (forall x, In x l -> p x = false) -> filter p l = [].
Proof.
  induction l as [|a l IH]; cbn; intros H; [reflexivity|].
  rewrite (H a (or_introl eq_refl)). apply IH. intros x Hx. apply H. right. exact Hx.
Qed.

Lemma filter_length_split {A} (p : A -> bool) l :
  length l = (length (filter p l) + length (filter (fun x => negb (p x)) l))%nat.
Proof. induction l as [|a l IH]; cbn; [reflexivity|]. destruct (p a); cbn; lia. Qed.

Lemma NoDup_filter' {A} (p : A -> bool) l : NoDup l -> NoDup (filter p l).
Proof.
  induction 1 as [|a l Hn Hd IH]; cbn; [constructor|].
  destruct (p a); [constructor|]; auto. rewrite filter_In. tauto.
Qed.

Lemma NoDup_map_filter {A B} (f : A -> B) (p : A -> bool) l : NoDup (map f l) -> NoDup (map f (filter p l)).
Proof.
  induction l as [|a l IH]; cbn; intros H; [constructor|].
  inversion H as [|? ? Hn Hd]; subst. destruct (p a); cbn; auto.
  constructor; auto. rewrite in_map_iff in *. intros (x & E & Hx). apply Hn. exists x. split; auto.
  apply filter_In in Hx. tauto.
Qed.

Lemma NoDup_map_inj {A B} (f : A -> B) l x y :
  NoDup (map f l) -> In x l -> In y l -> f x = f y -> x = y.
Proof.
  induction l as [|a l IH]; cbn; intros H Hx Hy E; [tauto|].
  inversion H as [|? ? Hn Hd]; subst.
  destruct Hx as [->|Hx], Hy as [->|Hy]; auto.
  - exfalso. apply Hn. rewrite E. apply in_map. exact Hy.
  - exfalso. apply Hn. rewrite <- E. apply in_map. exact Hx.
Qed.

Lemma NoDup_map_NoDup {A B} (f : A -> B) l : NoDup (map f l) -> NoDup l.
Proof.
  induction l as [|a l IH]; cbn; intros H; [constructor|].
  inversion H as [|? ? Hn Hd]; subst. constructor; auto. intros Hi. apply Hn. apply in_map. exact Hi.
Qed.

(* ---------------------------------------------------------------- take / drop *)
Lemma take_incl {A} n (l : list A) x : In x (take n l) -> In x l.
Proof. revert l; induction n; intros [|a l]; cbn; try tauto. intros [->|H]; auto. Qed.

Lemma drop_incl {A} n (l : list A) x : In x (drop n l) -> In x l.
Proof. revert l; induction n; intros [|a l]; cbn; try tauto. intros H. right. auto. Qed.

Lemma in_take_or_drop {A} n (l : list A) x : In x l -> In x (take n l) \/ In x (drop n l).
Proof. intros H. rewrite <- (take_drop n l) in H. apply in_app_or in H. exact H. Qed.

Lemma take_all {A} n (l : list A) : (length l <= n)%nat -> take n l = l.
Proof. revert l; induction n; intros [|a l]; cbn; intros H; try reflexivity; try lia. f_equal. apply IHn. lia. Qed.

Lemma NoDup_take {A} n (l : list A) : NoDup l -> NoDup (take n l).
Proof.
  revert l; induction n; intros [|a l] H; cbn; try constructor.
  - inversion H; subst. intros Hi. apply take_incl in Hi. tauto.
  - inversion H; subst. auto.
Qed.

Lemma sorted_take_drop {A} (R : A -> A -> Prop) n l :
  StronglySorted R l -> forall x y, In x (take n l) -> In y (drop n l) -> R x y.
Proof.
  revert l; induction n; intros [|a l] Hs x y; cbn; try tauto.
  inversion Hs as [|? ? Hs' Hall]; subst. intros [->|Hx] Hy.
  - rewrite Forall_forall in Hall. apply Hall. eapply drop_incl. exact Hy.
  - eapply IHn; eauto.
Qed.

(* ---------------------------------------------------------------- stable insertion sort *)
Section Perm.
  Context {A : Type} (ltb : A -> A -> bool).

  Lemma insert_stable_permutation x l : Permutation (insert_stable ltb x l) (x :: l).
  Proof.
    induction l as [|y l IH]; cbn; [reflexivity|].
    destruct (ltb x y); [reflexivity|].
    rewrite IH. apply perm_swap.
  Qed.

  Lemma sort_stable_permutation l : Permutation (sort_stable ltb l) l.
  Proof.
    unfold sort_stable.
    assert (G : forall acc, Permutation (fold_left (fun acc x => insert_stable ltb x acc) l acc) (acc ++ l)).
    { induction l as [|x l IH]; cbn; intros acc; [rewrite app_nil_r; reflexivity|].
      rewrite IH, insert_stable_permutation. apply Permutation_middle. }
    apply (G []).
  Qed.
End Perm.

Section Sorted.
  Context {A : Type} (ltb : A -> A -> bool).
  (* "x <= y" in the order decided by ltb *)
  Definition le_of (x y : A) : Prop := ltb y x = false.
  Hypothesis ltb_asym : forall a b, ltb a b = true -> ltb b a = false.
  Hypothesis le_trans : forall a b c, le_of a b -> le_of b c -> le_of a c.

  Lemma insert_stable_sorted x l :
    StronglySorted le_of l -> StronglySorted le_of (insert_stable ltb x l).
  Proof.
    induction l as [|y l IH]; cbn; intros Hs.
    - constructor; [constructor|constructor].
    - inversion Hs as [|? ? Hs' Hall]; subst.
      destruct (ltb x y) eqn:E.
      + constructor; [exact Hs|]. constructor; [apply ltb_asym; exact E|].
        rewrite Forall_forall in *. intros z Hz. eapply le_trans; [apply ltb_asym; exact E|]. apply Hall. exact Hz.
      + constructor; [apply IH; exact Hs'|].
        rewrite Forall_forall in *. intros z Hz. apply insert_stable_perm in Hz. destruct Hz as [->|Hz]; [exact E|].
        apply Hall. exact Hz.
  Qed.

  Lemma sort_stable_sorted l : StronglySorted le_of (sort_stable ltb l).
  Proof.
    unfold sort_stable.
    assert (G : forall acc, StronglySorted le_of acc ->
                            StronglySorted le_of (fold_left (fun acc x => insert_stable ltb x acc) l acc)).
    { induction l as [|x l IH]; cbn; intros acc Hs; [exact Hs|]. apply IH. apply insert_stable_sorted. exact Hs. }
    apply G. constructor.
  Qed.

  (* LIMIT after ORDER BY: every kept element is <= every element that was not kept *)
  Lemma sorted_prefix n l x y :
    In x (take n (sort_stable ltb l)) -> In y l -> ~ In y (take n (sort_stable ltb l)) -> le_of x y.
  Proof.
    intros Hx Hy Hn.
    apply (sort_stable_in ltb) in Hy. apply (in_take_or_drop n) in Hy. destruct Hy as [Hy|Hy]; [tauto|].
    eapply sorted_take_drop; eauto. apply sort_stable_sorted.
  Qed.
End Sorted.

(* ---------------------------------------------------------------- sql_order / sql_limit *)
Lemma sql_order_in ks t x : In x (sql_order false ks t) <-> In x t.
Proof. unfold sql_order. apply sort_stable_in. Qed.

Lemma sql_order_permutation ks t : Permutation (sql_order false ks t) t.
Proof. unfold sql_order. apply sort_stable_permutation. Qed.

Lemma sql_order_length ks t : length (sql_order false ks t) = length t.
Proof. unfold sql_order. apply sort_stable_length. Qed.

Lemma sql_order_nodup ks t : NoDup t -> NoDup (sql_order false ks t).
Proof. intros H. eapply Permutation_NoDup; [symmetry; apply sql_order_permutation|exact H]. Qed.

Lemma sql_limit_incl n l x : In x (sql_limit n l) -> In x l.
Proof. unfold sql_limit. destruct (n <? 0); [tauto|]. apply take_incl. Qed.

Lemma sql_limit_length n l : 0 <= n -> Z.of_nat (length (sql_limit n l)) <= n.
Proof.
  intros H. unfold sql_limit. destruct (n <? 0) eqn:E; [lia|]. rewrite length_take. lia.
Qed.

Lemma sql_limit_nodup n l : NoDup l -> NoDup (sql_limit n l).
Proof. unfold sql_limit. destruct (n <? 0); [tauto|]. apply NoDup_take. Qed.

(* LIMIT did not cut anything when fewer than n rows came back *)
Lemma sql_limit_short n l : Z.of_nat (length (sql_limit n l)) <> n -> sql_limit n l = l.
Proof.
  unfold sql_limit. destruct (n <? 0) eqn:E; [reflexivity|]. rewrite length_take. intros H.
  apply take_all. lia.
Qed.

Lemma sql_limit_nil n l : n <> 0 -> sql_limit n l = [] -> l = [].
Proof.
  unfold sql_limit. destruct (n <? 0) eqn:E; [tauto|]. intros Hn H.
  destruct l as [|a l]; [reflexivity|]. destruct (Z.to_nat n) eqn:En; [lia|]. cbn in H. discriminate.
Qed.

(* ---- order keys used by the eviction queries ---- *)
Lemma c_lt_ord_z f a b : c_lt (lex_rcmp [ord_z f] a b) = (f a <? f b).
Proof.
  cbn. unfold ord_z. destruct (Z.compare_spec (f a) (f b)) as [E|L|G]; cbn; lia.
Qed.

Definition optz_ltb (a b : option Z) : bool := c_lt (optz_compare a b).

Lemma c_lt_ord_optz f a b : c_lt (lex_rcmp [ord_optz f] a b) = optz_ltb (f a) (f b).
Proof. cbn. unfold ord_optz, optz_ltb. destruct (optz_compare (f a) (f b)); reflexivity. Qed.

Lemma optz_ltb_some a b : optz_ltb (Some a) (Some b) = (a <? b).
Proof. unfold optz_ltb. cbn. destruct (Z.compare_spec a b); cbn; lia. Qed.

(* SELECT ... ORDER BY <integer column> LIMIT n: selected rows precede the others *)
Lemma order_limit_prefix_z f n t x y :
  In x (sql_limit n (sql_order false [ord_z f] t)) -> In y t ->
  ~ In y (sql_limit n (sql_order false [ord_z f] t)) -> f x <= f y.
Proof.
  unfold sql_limit, sql_order. destruct (n <? 0).
  - intros _ Hy Hn. exfalso. apply Hn. apply sort_stable_in. exact Hy.
  - intros Hx Hy Hn.
    assert (L : le_of (fun a b => c_lt (lex_rcmp [ord_z f] a b)) x y).
    { eapply sorted_prefix; eauto.
      - intros a b. rewrite !c_lt_ord_z. lia.
      - unfold le_of. intros a b c. rewrite !c_lt_ord_z. lia. }
    unfold le_of in L. rewrite c_lt_ord_z in L. lia.
Qed.

(* the same for a nullable time column on rows where it is not NULL *)
Lemma order_limit_prefix_optz f n t x y ex ey :
  In x (sql_limit n (sql_order false [ord_optz f] t)) -> In y t ->
  ~ In y (sql_limit n (sql_order false [ord_optz f] t)) -> f x = Some ex -> f y = Some ey -> ex <= ey.
Proof.
  unfold sql_limit, sql_order. destruct (n <? 0).
  - intros _ Hy Hn. exfalso. apply Hn. apply sort_stable_in. exact Hy.
  - intros Hx Hy Hn Ex Ey.
    assert (L : le_of (fun a b => c_lt (lex_rcmp [ord_optz f] a b)) x y).
    { eapply sorted_prefix; eauto.
      - intros a b. rewrite !c_lt_ord_optz. unfold optz_ltb.
        destruct (f a) as [u|], (f b) as [v|]; cbn; try discriminate; try reflexivity.
        destruct (Z.compare_spec u v), (Z.compare_spec v u); cbn; try reflexivity; try discriminate; lia.
      - unfold le_of. intros a b c. rewrite !c_lt_ord_optz. unfold optz_ltb.
        destruct (f a) as [u|], (f b) as [v|], (f c) as [w|]; cbn; try discriminate; try reflexivity.
        destruct (Z.compare_spec v u), (Z.compare_spec w v), (Z.compare_spec w u); cbn;
          try reflexivity; try discriminate; lia. }
    unfold le_of in L. rewrite c_lt_ord_optz, Ey, Ex, optz_ltb_some in L. lia.
Qed.

(* a SELECT of this shape returns rows of the table, each at most once *)
Lemma select_shape_incl n ks (p : row -> bool) t x :
  In x (sql_limit n (sql_order false ks (filter p t))) -> In x t /\ p x = true.
Proof. intros H. apply sql_limit_incl, sql_order_in, filter_In in H. exact H. Qed.

Lemma select_shape_nodup n ks (p : row -> bool) t :
  NoDup t -> NoDup (sql_limit n (sql_order false ks (filter p t))).
Proof. intros H. apply sql_limit_nodup, sql_order_nodup, NoDup_filter'. exact H. Qed.

Example sort_prefix_example :
  let r (i k : Z) := {| rowid := i; rkey := SNull; rraw := false; store_time := k; expire_time := None; access_time := 0;
                        access_count := 0; rtag := SNull; rsize := 0; rmode := 0; rfile := None; rvalue := SNull |} in
  map rowid (sql_limit 2 (sql_order false [ord_z store_time] [r 1 5; r 2 3; r 3 5; r 4 3])) = [2; 4].
Proof. vm_compute. reflexivity. Qed.
