(* Facts for C18: the format read off the current source equals the frozen released format; the settings
   merge; handles.  Bridge lemmas (the only statements that look inside gen/Gen_Format.v) first. *)
From DC Require Import DCPrelude DCPreludeFacts Val DiskBase FormatBase Gen_Disk Disk Gen_Format Format_5_6_3 Open.

(* ---------------- bridge lemmas ---------------- *)
Lemma bridge_merge_order : Gen_Format.merge_order = [SrcDefaults; SrcStored; SrcGiven].
Proof. reflexivity. Qed.
Lemma bridge_merge_drops_metadata : Gen_Format.merge_drops_metadata = true.
Proof. reflexivity. Qed.
Lemma bridge_cache_state : Gen_Format.cache_getstate = Gen_Format.cache_init_params.
Proof. reflexivity. Qed.
Lemma bridge_fanout_state : Gen_Format.fanout_getstate = Gen_Format.fanout_init_params.
Proof. reflexivity. Qed.
Lemma bridge_fanout_size_limit_rule : Gen_Format.fanout_size_limit_rule = SLWhenGivenOrNew.
Proof. reflexivity. Qed.

(* ---------------- the format is the released one ---------------- *)
(* One recorded difference (repair of finding C18-F1): the released FanoutCache.__init__ handed size_limit to every
   shard on every open; the current one hands it over when it was given or the shard is new.  Stated as such, not as an
   equality; fanout_rule_compatible below says where the two rules agree. *)
Lemma format_constants_frozen :
  Gen_Format.DBNAME = Format_5_6_3.DBNAME /\
  Gen_Format.DEFAULT_SETTINGS = Format_5_6_3.DEFAULT_SETTINGS /\
  Gen_Format.METADATA = Format_5_6_3.METADATA /\
  Gen_Format.merge_order = Format_5_6_3.merge_order /\
  Gen_Format.merge_drops_metadata = Format_5_6_3.merge_drops_metadata /\
  Gen_Format.init_ddl = Format_5_6_3.init_ddl /\
  Gen_Format.policy_ddl = Format_5_6_3.policy_ddl /\
  Gen_Format.tag_index_ddl = Format_5_6_3.tag_index_ddl /\
  Gen_Format.value_file_layout = Format_5_6_3.value_file_layout /\
  Gen_Format.queue = Format_5_6_3.queue /\
  Gen_Format.shard_dir_format = Format_5_6_3.shard_dir_format /\
  (Format_5_6_3.fanout_size_limit_rule = SLAlwaysPassed /\ Gen_Format.fanout_size_limit_rule = SLWhenGivenOrNew) /\
  Gen_Format.cache_getstate = Format_5_6_3.cache_getstate /\
  Gen_Format.cache_init_params = Format_5_6_3.cache_init_params /\
  Gen_Format.fanout_getstate = Format_5_6_3.fanout_getstate /\
  Gen_Format.fanout_init_params = Format_5_6_3.fanout_init_params.
Proof. repeat split; vm_compute; reflexivity. Qed.

Lemma modes_frozen :
  Gen_Disk.MODE_NONE = Format_5_6_3.MODE_NONE /\ Gen_Disk.MODE_RAW = Format_5_6_3.MODE_RAW /\
  Gen_Disk.MODE_BINARY = Format_5_6_3.MODE_BINARY /\ Gen_Disk.MODE_TEXT = Format_5_6_3.MODE_TEXT /\
  Gen_Disk.MODE_PICKLE = Format_5_6_3.MODE_PICKLE /\ Gen_Disk.hash_mask = Format_5_6_3.hash_mask.
Proof. repeat split; reflexivity. Qed.

(* A second recorded difference (repair of finding C02-F2 / C03-F1): the released Disk.put bound a float NaN KEY natively
   (SQLite stores NULL: released_put_nan_null); the current one pickles it like every non-native key.  For every other key
   the decision is the released one.  Stated as such, not as an equality. *)
Lemma put_plan_frozen key : is_nan key = false -> Gen_Disk.put_plan_of key = Format_5_6_3.put_plan_of key.
Proof.
  destruct key as [z|f|s|b|i|b]; intros N; try reflexivity.
  - unfold Gen_Disk.put_plan_of, Format_5_6_3.put_plan_of. cbn [is_bytes is_str is_int is_float pv_int orb andb Z.opp].
    rewrite orb_false_r. destruct ((-9223372036854775808 <=? z) && (z <=? 9223372036854775807)); reflexivity.
  - destruct f; [discriminate N|reflexivity..].
Qed.

Lemma put_plan_nan_differs :
  Format_5_6_3.put_plan_of (VFloat FNaN) = PutNative true /\ Gen_Disk.put_plan_of (VFloat FNaN) = PutPickle false.
Proof. split; reflexivity. Qed.

(* Disk.put as released: the frozen decision tree under the interpretation of model/Disk.v *)
Definition released_put (c : codec) (key : pyval) : put_res := put_with Format_5_6_3.put_plan_of c key.

(* the former finding as a statement about the RELEASED put: a NaN key becomes a NULL database key (raw = 1) ... *)
Lemma released_put_nan_null c : released_put c (VFloat FNaN) = PutOk SNull true.
Proof. reflexivity. Qed.

(* ... which is no key at all: SinvFacts.null_key_matches_nothing (`key = ?` is never true against NULL), so each released
   set under NaN added a row and nothing could reach it by key; the current put gives the one BLOB key pkk NaN, raw = 0 *)
Lemma current_put_nan c : put c (VFloat FNaN) = PutOk (SBlob (pkk c (VFloat FNaN))) false.
Proof. reflexivity. Qed.

Lemma released_and_current_put_nan c :
  put_with Format_5_6_3.put_plan_of c (VFloat FNaN) = PutOk SNull true /\
  put c (VFloat FNaN) = PutOk (SBlob (pkk c (VFloat FNaN))) false.
Proof. exact (conj (released_put_nan_null c) (current_put_nan c)). Qed.

(* the repair changes nothing else: every other key gets the database key the released code gave it *)
Lemma put_compatible c key : is_nan key = false -> put c key = released_put c key.
Proof. intros N. unfold put, released_put, put_with. rewrite (put_plan_frozen key N). reflexivity. Qed.

Lemma store_plan_frozen m pkv value read :
  Gen_Disk.store_plan_of m pkv value read = Format_5_6_3.store_plan_of m pkv value read.
Proof.
  destruct value as [z|f|s|b|i|b]; unfold Gen_Disk.store_plan_of, Format_5_6_3.store_plan_of, pickled, streamed.
  - cbn [is_bytes is_str is_int is_float pv_int pv_len pv_self_eq orb andb Z.opp].
    rewrite orb_false_r. destruct ((-9223372036854775808 <=? z) && (z <=? 9223372036854775807)); reflexivity.
  - destruct f; reflexivity.
  - cbn [is_bytes is_str is_int is_float pv_len orb andb]. rewrite !orb_false_r.
    destruct (Z.of_nat (length s) <? m); reflexivity.
  - cbn [is_bytes is_str is_int is_float pv_len orb andb].
    destruct (Z.of_nat (length b) <? m); reflexivity.
  - reflexivity.
  - reflexivity.
Qed.

Lemma fetch_plan_frozen mode n r : Gen_Disk.fetch_plan_of mode n r = Format_5_6_3.fetch_plan_of mode n r.
Proof. reflexivity. Qed.
Lemma write_newline_frozen e : Gen_Disk.write_newline e = Format_5_6_3.write_newline e.
Proof. reflexivity. Qed.
Lemma hash_plan_frozen k : Gen_Disk.hash_plan_of k = Format_5_6_3.hash_plan_of k.
Proof. destruct k; reflexivity. Qed.

(* ---------------- dictionaries ---------------- *)
Section DictFacts.
  Context {V : Type}.
  Notation dict := (@dict V).

  Definition first_some (a b : option V) : option V := match a with Some x => Some x | None => b end.

  Lemma lookup_app k (a b : dict) : lookup k (a ++ b) = first_some (lookup k b) (lookup k a).
  Proof.
    induction a as [|[k' v] a IH]; cbn [app lookup].
    - destruct (lookup k b); reflexivity.
    - rewrite IH. destruct (lookup k b); cbn [first_some]; reflexivity.
  Qed.

  Lemma lookup_drop k ks (d : dict) : lookup k (drop_keys ks d) = if mem k ks then None else lookup k d.
  Proof.
    unfold drop_keys. induction d as [|[k' v] d IH]; cbn [filter lookup fst].
    - destruct (mem k ks); reflexivity.
    - destruct (mem k' ks) eqn:Hm; cbn [negb lookup].
      + rewrite IH. destruct (mem k ks) eqn:Hk; [reflexivity|].
        destruct (lookup k d); [reflexivity|]. destruct (zlist_eqb k k') eqn:He; [|reflexivity].
        apply zlist_eqb_spec in He. subst. rewrite Hm in Hk. discriminate.
      + rewrite IH. destruct (mem k ks) eqn:Hk; [|reflexivity].
        destruct (zlist_eqb k k') eqn:He; [|reflexivity].
        apply zlist_eqb_spec in He. subst. rewrite Hm in Hk. discriminate.
  Qed.

  (* given wins over stored wins over defaults; METADATA keys are never settings *)
  Lemma open_settings_lookup (defaults stored given : dict) k :
    lookup k (open_settings defaults stored given) =
    if mem k (map fst Gen_Format.METADATA) then None
    else first_some (lookup k given) (first_some (lookup k stored) (lookup k defaults)).
  Proof.
    unfold open_settings, merge_settings. rewrite bridge_merge_order, bridge_merge_drops_metadata.
    cbn [fold_left source update app]. rewrite lookup_drop. destruct (mem k (map fst Gen_Format.METADATA)); [reflexivity|].
    rewrite !lookup_app. reflexivity.
  Qed.

  Lemma insert_ignore_other k (meta d : dict) :
    mem k (map fst meta) = false -> lookup k (insert_ignore d meta) = lookup k d.
  Proof.
    revert d. induction meta as [|[k' v] meta IH]; intros d Hm; [reflexivity|].
    cbn [map fst mem existsb] in Hm. apply orb_false_elim in Hm. destruct Hm as [Hk Hm].
    unfold insert_ignore. cbn [fold_left fst]. fold (insert_ignore (if has k' d then d else d ++ [(k', v)]) meta).
    rewrite IH; [|exact Hm]. destruct (has k' d); [reflexivity|].
    rewrite lookup_app. cbn [lookup]. rewrite Hk. reflexivity.
  Qed.

  Lemma insert_ignore_keeps k (meta d : dict) x : lookup k d = Some x -> lookup k (insert_ignore d meta) = Some x.
  Proof.
    revert d. induction meta as [|[k' v] meta IH]; intros d Hd; [exact Hd|].
    unfold insert_ignore. cbn [fold_left fst]. fold (insert_ignore (if has k' d then d else d ++ [(k', v)]) meta).
    apply IH. destruct (has k' d) eqn:Hh; [exact Hd|]. rewrite lookup_app. cbn [lookup].
    destruct (zlist_eqb k k') eqn:He; [|exact Hd]. apply zlist_eqb_spec in He. subst.
    unfold has in Hh. rewrite Hd in Hh. discriminate.
  Qed.

  (* the Settings table after opening: what a later open finds there *)
  Lemma stored_after_lookup (meta defaults stored given : dict) k :
    mem k (map fst meta) = false ->
    lookup k (stored_after meta defaults stored given) =
    first_some (lookup k (open_settings defaults stored given)) (lookup k stored).
  Proof.
    intros Hm. unfold stored_after, update. rewrite insert_ignore_other; [|exact Hm]. apply lookup_app.
  Qed.

  (* C18_reopen_settings: opening again with further arguments g2 sees, for every key g2 does not mention,
     exactly the settings of the first open (g2 = [] : all of them); what was given once persists *)
  Lemma reopen_settings (meta defaults stored given g2 : dict) k :
    map fst meta = map fst Gen_Format.METADATA ->
    lookup k g2 = None ->
    lookup k (open_settings defaults (stored_after meta defaults stored given) g2) =
    lookup k (open_settings defaults stored given).
  Proof.
    intros Hmeta Hg2. rewrite (open_settings_lookup defaults (stored_after meta defaults stored given) g2 k).
    destruct (mem k (map fst Gen_Format.METADATA)) eqn:Hm.
    - rewrite open_settings_lookup, Hm. reflexivity.
    - rewrite Hg2. cbn [first_some]. rewrite stored_after_lookup; [|rewrite Hmeta; exact Hm].
      rewrite (open_settings_lookup defaults stored given k), Hm.
      destruct (lookup k given); cbn [first_some]; [reflexivity|].
      destruct (lookup k stored); cbn [first_some]; [reflexivity|].
      destruct (lookup k defaults); reflexivity.
  Qed.

  Lemma given_persists (meta defaults stored given : dict) k v :
    map fst meta = map fst Gen_Format.METADATA -> mem k (map fst Gen_Format.METADATA) = false ->
    lookup k given = Some v ->
    lookup k (open_settings defaults stored given) = Some v /\
    lookup k (open_settings defaults (stored_after meta defaults stored given) []) = Some v.
  Proof.
    intros Hmeta Hm Hg.
    assert (E : lookup k (open_settings defaults stored given) = Some v).
    { rewrite open_settings_lookup, Hm, Hg. reflexivity. }
    split; [exact E|]. rewrite reopen_settings; [exact E|exact Hmeta|reflexivity].
  Qed.

  (* idempotent: a second plain reopen leaves the Settings table as the first one left it *)
  Lemma reopen_idempotent (meta defaults stored given : dict) k :
    map fst meta = map fst Gen_Format.METADATA ->
    let s1 := stored_after meta defaults stored given in
    lookup k (stored_after meta defaults s1 []) = lookup k s1.
  Proof.
    intros Hmeta s1. destruct (mem k (map fst meta)) eqn:Hm.
    - (* a METADATA key: not a setting, already present, left alone *)
      unfold stored_after at 1. unfold update at 1.
      assert (Hs : lookup k (s1 ++ open_settings defaults s1 []) = lookup k s1).
      { rewrite lookup_app, open_settings_lookup. rewrite <- Hmeta, Hm. reflexivity. }
      destruct (lookup k s1) as [x|] eqn:H1.
      + apply insert_ignore_keeps. rewrite Hs. reflexivity.
      + (* impossible: the first open inserted every METADATA key *)
        exfalso. clear Hs. subst s1. unfold stored_after in H1.
        assert (Hall : forall (m d : dict), mem k (map fst m) = true -> lookup k (insert_ignore d m) <> None).
        { clear. induction m as [|[k' v] m IH]; intros d Hk; [discriminate|].
          unfold insert_ignore. cbn [fold_left fst]. fold (insert_ignore (if has k' d then d else d ++ [(k', v)]) m).
          cbn [map fst mem existsb] in Hk. destruct (zlist_eqb k k') eqn:He.
          - apply zlist_eqb_spec in He. subst k'.
            destruct (has k d) eqn:Hh.
            + unfold has in Hh. destruct (lookup k d) as [x|] eqn:Hd; [|discriminate].
              rewrite (insert_ignore_keeps k m d x Hd). discriminate.
            + assert (Hd : lookup k (d ++ [(k, v)]) = Some v).
              { rewrite lookup_app. cbn [lookup]. rewrite zlist_eqb_refl. reflexivity. }
              rewrite (insert_ignore_keeps k m _ v Hd). discriminate.
          - cbn [orb] in Hk. apply IH. exact Hk. }
        exact (Hall meta (update stored (open_settings defaults stored given)) Hm H1).
    - subst s1. rewrite stored_after_lookup; [|exact Hm].
      rewrite reopen_settings; [|exact Hmeta|reflexivity].
      rewrite (stored_after_lookup meta defaults stored given k Hm).
      destruct (lookup k (open_settings defaults stored given)); reflexivity.
  Qed.

  (* ---- FanoutCache ---- *)
  (* settings.pop('size_limit', ...): the rest holds every other key unchanged and no size_limit *)
  Lemma rest_lookup (given : dict) k :
    lookup k (drop_keys [size_limit_key] given) = if zlist_eqb k size_limit_key then None else lookup k given.
  Proof. rewrite lookup_drop. cbn [mem existsb]. rewrite orb_false_r. reflexivity. Qed.

  Lemma rest_app_lookup (given : dict) v k :
    lookup k (drop_keys [size_limit_key] given ++ [(size_limit_key, v)]) =
    if zlist_eqb k size_limit_key then Some v else lookup k given.
  Proof.
    rewrite lookup_app, rest_lookup. cbn [lookup]. destruct (zlist_eqb k size_limit_key); cbn [first_some]; [reflexivity|].
    destruct (lookup k given); reflexivity.
  Qed.

  (* under every rule the other settings are handed to the shard unchanged *)
  Lemma fanout_given_other rule (divide : V -> V) ex (defaults given : dict) k :
    zlist_eqb k size_limit_key = false ->
    lookup k (fanout_given rule size_limit_key divide ex defaults given) = lookup k given.
  Proof.
    intros Hk. unfold fanout_given.
    destruct rule, (lookup size_limit_key given), ex, (lookup size_limit_key defaults);
      rewrite ?rest_app_lookup, ?rest_lookup, ?Hk; reflexivity.
  Qed.

  (* what the current rule hands over for size_limit itself *)
  Lemma fanout_given_size_limit (divide : V -> V) ex (defaults given : dict) :
    lookup size_limit_key (fanout_given Gen_Format.fanout_size_limit_rule size_limit_key divide ex defaults given) =
    match lookup size_limit_key given with
    | Some v => Some (divide v)
    | None => if ex then None else option_map divide (lookup size_limit_key defaults)
    end.
  Proof.
    rewrite bridge_fanout_size_limit_rule. unfold fanout_given.
    destruct (lookup size_limit_key given), ex, (lookup size_limit_key defaults);
      rewrite ?rest_app_lookup, ?rest_lookup, ?zlist_eqb_refl; reflexivity.
  Qed.

  (* an existing shard opened without size_limit is handed exactly what the caller gave *)
  Lemma fanout_given_existing (divide : V -> V) (defaults g2 : dict) k :
    lookup size_limit_key g2 = None ->
    lookup k (fanout_given Gen_Format.fanout_size_limit_rule size_limit_key divide true defaults g2) = lookup k g2.
  Proof.
    intros Hg. destruct (zlist_eqb k size_limit_key) eqn:Hk.
    - apply zlist_eqb_spec in Hk. subst k. rewrite fanout_given_size_limit, Hg. reflexivity.
    - apply fanout_given_other. exact Hk.
  Qed.

  Lemma size_limit_not_metadata : mem size_limit_key (map fst Gen_Format.METADATA) = false.
  Proof. vm_compute. reflexivity. Qed.

  (* (a) the statement that was refuted for the released rule, for EVERY setting: reopening an existing FanoutCache
     (each shard exists) shows, for every key the reopen does not give, what the open before showed *)
  Lemma fanout_reopen_settings (divide : V -> V) ex (meta defaults stored given g2 : dict) k :
    map fst meta = map fst Gen_Format.METADATA ->
    lookup k g2 = None ->
    lookup k (fanout_open_settings divide true defaults (fanout_stored_after divide ex meta defaults stored given) g2) =
    lookup k (fanout_open_settings divide ex defaults stored given).
  Proof.
    intros Hmeta Hg2. unfold fanout_open_settings, fanout_stored_after, fanout_open_settings_with, fanout_stored_after_with.
    apply reopen_settings; [exact Hmeta|].
    destruct (zlist_eqb k size_limit_key) eqn:Hk.
    - apply zlist_eqb_spec in Hk. subst k. rewrite fanout_given_size_limit, Hg2. reflexivity.
    - rewrite fanout_given_other; assumption.
  Qed.

  (* (a) read at the Settings table: an existing shard opened without size_limit shows the stored limit and leaves it stored *)
  Lemma fanout_size_limit_kept (divide : V -> V) (meta defaults stored g2 : dict) v :
    map fst meta = map fst Gen_Format.METADATA ->
    lookup size_limit_key stored = Some v ->
    lookup size_limit_key g2 = None ->
    lookup size_limit_key (fanout_open_settings divide true defaults stored g2) = Some v /\
    lookup size_limit_key (fanout_stored_after divide true meta defaults stored g2) = Some v.
  Proof.
    intros Hmeta Hs Hg.
    assert (E : lookup size_limit_key (fanout_open_settings divide true defaults stored g2) = Some v).
    { unfold fanout_open_settings, fanout_open_settings_with. rewrite open_settings_lookup, size_limit_not_metadata.
      rewrite fanout_given_existing by exact Hg. rewrite Hg, Hs. reflexivity. }
    split; [exact E|].
    unfold fanout_stored_after, fanout_stored_after_with. rewrite stored_after_lookup.
    - unfold fanout_open_settings, fanout_open_settings_with in E. rewrite E. reflexivity.
    - rewrite Hmeta. exact size_limit_not_metadata.
  Qed.

  (* what a shard shows and stores when its Cache.__init__ is handed the limit x *)
  Lemma handed_limit_shown_and_stored (meta defaults stored g : dict) x :
    map fst meta = map fst Gen_Format.METADATA ->
    lookup size_limit_key g = Some x ->
    lookup size_limit_key (open_settings defaults stored g) = Some x /\
    lookup size_limit_key (stored_after meta defaults stored g) = Some x.
  Proof.
    intros Hmeta Hg.
    assert (E : lookup size_limit_key (open_settings defaults stored g) = Some x).
    { rewrite open_settings_lookup, size_limit_not_metadata, Hg. reflexivity. }
    split; [exact E|]. rewrite stored_after_lookup; [rewrite E; reflexivity|]. rewrite Hmeta. exact size_limit_not_metadata.
  Qed.

  (* (b) a new shard opened without size_limit gets the default total divided *)
  Lemma fanout_new_shard_default (divide : V -> V) (meta defaults stored given : dict) d :
    map fst meta = map fst Gen_Format.METADATA ->
    lookup size_limit_key given = None ->
    lookup size_limit_key defaults = Some d ->
    lookup size_limit_key (fanout_open_settings divide false defaults stored given) = Some (divide d) /\
    lookup size_limit_key (fanout_stored_after divide false meta defaults stored given) = Some (divide d).
  Proof.
    intros Hmeta Hg Hd. apply handed_limit_shown_and_stored; [exact Hmeta|].
    rewrite fanout_given_size_limit, Hg, Hd. reflexivity.
  Qed.

  (* (c) a given size_limit is divided, shown and stored, whether the shard is new or not *)
  Lemma fanout_given_size_limit_divided (divide : V -> V) ex (meta defaults stored given : dict) v :
    map fst meta = map fst Gen_Format.METADATA ->
    lookup size_limit_key given = Some v ->
    lookup size_limit_key (fanout_open_settings divide ex defaults stored given) = Some (divide v) /\
    lookup size_limit_key (fanout_stored_after divide ex meta defaults stored given) = Some (divide v).
  Proof.
    intros Hmeta Hg. apply handed_limit_shown_and_stored; [exact Hmeta|].
    rewrite fanout_given_size_limit, Hg. reflexivity.
  Qed.

  (* where the current rule and the released one agree: on a new shard and whenever size_limit is given the shard's
     Cache.__init__ is handed the very same dictionary; the repair only changes what an open WITHOUT size_limit hands to
     a shard that EXISTS (nothing, instead of the default share) *)
  Lemma fanout_rule_compatible (divide : V -> V) ex (defaults given : dict) :
    ex = false \/ lookup size_limit_key given <> None ->
    fanout_given Gen_Format.fanout_size_limit_rule size_limit_key divide ex defaults given =
    fanout_given Format_5_6_3.fanout_size_limit_rule size_limit_key divide ex defaults given.
  Proof.
    intros H. rewrite bridge_fanout_size_limit_rule. change Format_5_6_3.fanout_size_limit_rule with SLAlwaysPassed.
    unfold fanout_given. destruct (lookup size_limit_key given) as [v|]; [reflexivity|].
    destruct H as [->|H]; [|contradiction H; reflexivity].
    destruct (lookup size_limit_key defaults); reflexivity.
  Qed.
End DictFacts.

(* the witness of the former finding C18-F1 (D17): FanoutCache(d, shards=2, size_limit=1000), closed, FanoutCache(d, shards=2) *)
Definition d17_given : @dict sval := [(size_limit_key, SVInt 1000)].

(* under the RELEASED rule the reopen overwrites the stored 500 with DEFAULT/2 *)
Lemma released_fanout_size_limit_refuted :
  lookup size_limit_key (fanout_open_settings_with Format_5_6_3.fanout_size_limit_rule (sval_div 2) false Gen_Format.DEFAULT_SETTINGS [] d17_given)
  = Some (SVInt 500) /\
  lookup size_limit_key
    (fanout_open_settings_with Format_5_6_3.fanout_size_limit_rule (sval_div 2) true Gen_Format.DEFAULT_SETTINGS
       (fanout_stored_after_with Format_5_6_3.fanout_size_limit_rule (sval_div 2) false Gen_Format.METADATA Gen_Format.DEFAULT_SETTINGS [] d17_given) [])
  = Some (SVInt 536870912).
Proof. split; vm_compute; reflexivity. Qed.

(* under the rule of the current source the same reopen shows 500, and 500 stays stored *)
Lemma fanout_size_limit_witness_kept :
  lookup size_limit_key (fanout_open_settings (sval_div 2) false Gen_Format.DEFAULT_SETTINGS [] d17_given) = Some (SVInt 500) /\
  lookup size_limit_key
    (fanout_open_settings (sval_div 2) true Gen_Format.DEFAULT_SETTINGS
       (fanout_stored_after (sval_div 2) false Gen_Format.METADATA Gen_Format.DEFAULT_SETTINGS [] d17_given) [])
  = Some (SVInt 500) /\
  lookup size_limit_key
    (fanout_stored_after (sval_div 2) true Gen_Format.METADATA Gen_Format.DEFAULT_SETTINGS
       (fanout_stored_after (sval_div 2) false Gen_Format.METADATA Gen_Format.DEFAULT_SETTINGS [] d17_given) [])
  = Some (SVInt 500) /\
  (* a new FanoutCache(shards=2) without the argument: DEFAULT / 2 *)
  lookup size_limit_key (fanout_open_settings (sval_div 2) false Gen_Format.DEFAULT_SETTINGS [] []) = Some (SVInt 536870912).
Proof. repeat split; vm_compute; reflexivity. Qed.

(* a plain Cache keeps it (same witness) *)
Lemma cache_size_limit_kept :
  lookup size_limit_key
    (open_settings Gen_Format.DEFAULT_SETTINGS (stored_after Gen_Format.METADATA Gen_Format.DEFAULT_SETTINGS [] d17_given) [])
  = Some (SVInt 1000).
Proof. vm_compute. reflexivity. Qed.

(* ---------------- handles ---------------- *)
Lemma setstate_getstate_cache h d :
  let h' := setstate Gen_Format.cache_init_params (getstate Gen_Format.cache_getstate h) d in
  h_directory h' = h_directory h /\ h_timeout h' = h_timeout h /\ h_disk h' = h_disk h /\
  h_shards h' = h_shards d /\ h_maxlen h' = h_maxlen d.
Proof. cbn. repeat split; reflexivity. Qed.

Lemma setstate_getstate_fanout h d :
  let h' := setstate Gen_Format.fanout_init_params (getstate Gen_Format.fanout_getstate h) d in
  h_directory h' = h_directory h /\ h_shards h' = h_shards h /\ h_timeout h' = h_timeout h /\ h_disk h' = h_disk h.
Proof. cbn. repeat split; reflexivity. Qed.

(* ---------------- the statements of props/C18.v ---------------- *)
Lemma format_frozen :
  (Gen_Format.DBNAME = Format_5_6_3.DBNAME /\
   Gen_Format.DEFAULT_SETTINGS = Format_5_6_3.DEFAULT_SETTINGS /\
   Gen_Format.METADATA = Format_5_6_3.METADATA /\
   Gen_Format.merge_order = Format_5_6_3.merge_order /\
   Gen_Format.merge_drops_metadata = Format_5_6_3.merge_drops_metadata /\
   Gen_Format.init_ddl = Format_5_6_3.init_ddl /\
   Gen_Format.policy_ddl = Format_5_6_3.policy_ddl /\
   Gen_Format.tag_index_ddl = Format_5_6_3.tag_index_ddl /\
   Gen_Format.value_file_layout = Format_5_6_3.value_file_layout /\
   Gen_Format.queue = Format_5_6_3.queue /\
   Gen_Format.shard_dir_format = Format_5_6_3.shard_dir_format /\
   (Format_5_6_3.fanout_size_limit_rule = SLAlwaysPassed /\ Gen_Format.fanout_size_limit_rule = SLWhenGivenOrNew) /\
   Gen_Format.cache_getstate = Format_5_6_3.cache_getstate /\
   Gen_Format.cache_init_params = Format_5_6_3.cache_init_params /\
   Gen_Format.fanout_getstate = Format_5_6_3.fanout_getstate /\
   Gen_Format.fanout_init_params = Format_5_6_3.fanout_init_params) /\
  (Gen_Disk.MODE_NONE = Format_5_6_3.MODE_NONE /\ Gen_Disk.MODE_RAW = Format_5_6_3.MODE_RAW /\
   Gen_Disk.MODE_BINARY = Format_5_6_3.MODE_BINARY /\ Gen_Disk.MODE_TEXT = Format_5_6_3.MODE_TEXT /\
   Gen_Disk.MODE_PICKLE = Format_5_6_3.MODE_PICKLE /\ Gen_Disk.hash_mask = Format_5_6_3.hash_mask) /\
  ((forall key, is_nan key = false -> Gen_Disk.put_plan_of key = Format_5_6_3.put_plan_of key) /\
   Format_5_6_3.put_plan_of (VFloat FNaN) = PutNative true /\ Gen_Disk.put_plan_of (VFloat FNaN) = PutPickle false) /\
  (forall m pkv value read, Gen_Disk.store_plan_of m pkv value read = Format_5_6_3.store_plan_of m pkv value read) /\
  (forall mode n r, Gen_Disk.fetch_plan_of mode n r = Format_5_6_3.fetch_plan_of mode n r) /\
  (forall e, Gen_Disk.write_newline e = Format_5_6_3.write_newline e) /\
  (forall k, Gen_Disk.hash_plan_of k = Format_5_6_3.hash_plan_of k).
Proof.
  split; [exact format_constants_frozen|]. split; [exact modes_frozen|].
  split; [exact (conj put_plan_frozen put_plan_nan_differs)|]. split; [exact store_plan_frozen|]. split; [exact fetch_plan_frozen|].
  split; [exact write_newline_frozen|exact hash_plan_frozen].
Qed.

Lemma reopen_settings_all {V} (meta defaults stored given : @dict V) :
  map fst meta = map fst Gen_Format.METADATA ->
  (* given wins over stored wins over defaults; METADATA keys are not settings *)
  (forall k, lookup k (open_settings defaults stored given) =
             if mem k (map fst Gen_Format.METADATA) then None
             else first_some (lookup k given) (first_some (lookup k stored) (lookup k defaults))) /\
  (* a later open sees the same settings, except for what it is given itself *)
  (forall g2 k, lookup k g2 = None ->
     lookup k (open_settings defaults (stored_after meta defaults stored given) g2) = lookup k (open_settings defaults stored given)) /\
  (* in particular what was given at creation is seen by a plain reopen *)
  (forall k v, mem k (map fst Gen_Format.METADATA) = false -> lookup k given = Some v ->
     lookup k (open_settings defaults (stored_after meta defaults stored given) []) = Some v) /\
  (* reopening is idempotent on the Settings table *)
  (forall k, lookup k (stored_after meta defaults (stored_after meta defaults stored given) []) =
             lookup k (stored_after meta defaults stored given)).
Proof.
  intros Hmeta. split; [intros k; apply open_settings_lookup|].
  split; [intros g2 k Hg; apply reopen_settings; assumption|].
  split; [intros k v Hm Hg; apply (given_persists meta defaults stored given k v Hmeta Hm Hg)|].
  intros k. apply (reopen_idempotent meta defaults stored given k Hmeta).
Qed.

Lemma reopen_settings_example :
  map fst Gen_Format.METADATA = map fst Gen_Format.METADATA /\
  lookup size_limit_key (open_settings Gen_Format.DEFAULT_SETTINGS [] d17_given) = Some (SVInt 1000).
Proof. split; [reflexivity|vm_compute; reflexivity]. Qed.

(* the full statement for FanoutCache (every setting, size_limit included), plus what happens to size_limit in each case *)
Lemma fanout_reopen_settings_all {V} (divide : V -> V) (meta defaults stored given : @dict V) (existed : bool) :
  map fst meta = map fst Gen_Format.METADATA ->
  (* a later open of the (now existing) shard sees the same settings, except for what it is given itself *)
  (forall g2 k, lookup k g2 = None ->
     lookup k (fanout_open_settings divide true defaults (fanout_stored_after divide existed meta defaults stored given) g2) =
     lookup k (fanout_open_settings divide existed defaults stored given)) /\
  (* (a) an existing shard opened without size_limit shows the stored limit and leaves it stored *)
  (forall v, existed = true -> lookup size_limit_key stored = Some v -> lookup size_limit_key given = None ->
     lookup size_limit_key (fanout_open_settings divide existed defaults stored given) = Some v /\
     lookup size_limit_key (fanout_stored_after divide existed meta defaults stored given) = Some v) /\
  (* (b) a new shard opened without size_limit gets the default total divided *)
  (forall d, existed = false -> lookup size_limit_key given = None -> lookup size_limit_key defaults = Some d ->
     lookup size_limit_key (fanout_open_settings divide existed defaults stored given) = Some (divide d) /\
     lookup size_limit_key (fanout_stored_after divide existed meta defaults stored given) = Some (divide d)) /\
  (* (c) a given size_limit is divided, shown and stored, for new and existing shards *)
  (forall v, lookup size_limit_key given = Some v ->
     lookup size_limit_key (fanout_open_settings divide existed defaults stored given) = Some (divide v) /\
     lookup size_limit_key (fanout_stored_after divide existed meta defaults stored given) = Some (divide v)) /\
  (* every other given setting reaches the shard unchanged *)
  (forall k, zlist_eqb k size_limit_key = false ->
     lookup k (fanout_open_settings divide existed defaults stored given) = lookup k (open_settings defaults stored given)).
Proof.
  intros Hmeta. split; [intros g2 k Hg; apply fanout_reopen_settings; assumption|].
  split; [intros v -> Hs Hg; apply fanout_size_limit_kept; assumption|].
  split; [intros d -> Hg Hd; apply fanout_new_shard_default; assumption|].
  split; [intros v Hg; apply fanout_given_size_limit_divided; assumption|].
  intros k Hk. unfold fanout_open_settings, fanout_open_settings_with.
  rewrite !open_settings_lookup, fanout_given_other by exact Hk. reflexivity.
Qed.

Lemma fanout_reopen_settings_example :
  map fst Gen_Format.METADATA = map fst Gen_Format.METADATA /\
  lookup size_limit_key (fanout_open_settings (sval_div 2) false Gen_Format.DEFAULT_SETTINGS [] d17_given) = Some (SVInt 500) /\
  lookup size_limit_key
    (fanout_open_settings (sval_div 2) true Gen_Format.DEFAULT_SETTINGS
       (fanout_stored_after (sval_div 2) false Gen_Format.METADATA Gen_Format.DEFAULT_SETTINGS [] d17_given) [])
  = Some (SVInt 500) /\
  lookup size_limit_key
    (fanout_stored_after (sval_div 2) true Gen_Format.METADATA Gen_Format.DEFAULT_SETTINGS
       (fanout_stored_after (sval_div 2) false Gen_Format.METADATA Gen_Format.DEFAULT_SETTINGS [] d17_given) [])
  = Some (SVInt 500) /\
  lookup size_limit_key (fanout_open_settings (sval_div 2) false Gen_Format.DEFAULT_SETTINGS [] []) = Some (SVInt 536870912).
Proof. split; [reflexivity|exact fanout_size_limit_witness_kept]. Qed.

(* the former finding, as a statement about the RELEASED rule *)
Lemma released_fanout_size_limit_refuted_ex :
  exists (defaults meta given : @dict sval) (divide : sval -> sval) v,
    map fst meta = map fst Gen_Format.METADATA /\
    lookup size_limit_key (fanout_open_settings_with Format_5_6_3.fanout_size_limit_rule divide false defaults [] given) = Some v /\
    lookup size_limit_key
      (fanout_open_settings_with Format_5_6_3.fanout_size_limit_rule divide true defaults
         (fanout_stored_after_with Format_5_6_3.fanout_size_limit_rule divide false meta defaults [] given) []) <> Some v.
Proof.
  exists Gen_Format.DEFAULT_SETTINGS, Gen_Format.METADATA, d17_given, (sval_div 2), (SVInt 500).
  destruct released_fanout_size_limit_refuted as [H1 H2]. split; [reflexivity|]. split; [exact H1|]. rewrite H2. discriminate.
Qed.

(* the repair changes nothing else: same dictionary handed to a new shard, and whenever size_limit is given *)
Lemma fanout_rule_compatible_all {V} (divide : V -> V) (existed : bool) (defaults given : @dict V) :
  existed = false \/ lookup size_limit_key given <> None ->
  fanout_given Gen_Format.fanout_size_limit_rule size_limit_key divide existed defaults given =
  fanout_given Format_5_6_3.fanout_size_limit_rule size_limit_key divide existed defaults given.
Proof. apply fanout_rule_compatible. Qed.

Lemma handle_free :
  (forall h d, let h' := setstate Gen_Format.cache_init_params (getstate Gen_Format.cache_getstate h) d in
     h_directory h' = h_directory h /\ h_timeout h' = h_timeout h /\ h_disk h' = h_disk h /\
     h_shards h' = h_shards d /\ h_maxlen h' = h_maxlen d) /\
  (forall h d, let h' := setstate Gen_Format.fanout_init_params (getstate Gen_Format.fanout_getstate h) d in
     h_directory h' = h_directory h /\ h_shards h' = h_shards h /\ h_timeout h' = h_timeout h /\ h_disk h' = h_disk h).
Proof. split; [exact setstate_getstate_cache|exact setstate_getstate_fanout]. Qed.
