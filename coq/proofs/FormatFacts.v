(* Facts for C18: the format read off the current source equals the frozen released format; the settings
   merge; handles.  Bridge lemmas (the only statements that look inside gen/Gen_Format.v) first. *)
From DC Require Import DCPrelude DCPreludeFacts Val DiskBase FormatBase Gen_Disk Gen_Format Format_5_6_3 Open.

(* ---------------- bridge lemmas ---------------- *)
Lemma bridge_merge_order : Gen_Format.merge_order = [SrcDefaults; SrcStored; SrcGiven].
Proof. reflexivity. Qed.
Lemma bridge_merge_drops_metadata : Gen_Format.merge_drops_metadata = true.
Proof. reflexivity. Qed.
Lemma bridge_cache_state : Gen_Format.cache_getstate = Gen_Format.cache_init_params.
Proof. reflexivity. Qed.
Lemma bridge_fanout_state : Gen_Format.fanout_getstate = Gen_Format.fanout_init_params.
Proof. reflexivity. Qed.
Lemma bridge_fanout_size_limit_rule : Gen_Format.fanout_size_limit_rule = SLAlwaysPassed.
Proof. reflexivity. Qed.

(* ---------------- the format is the released one ---------------- *)
Lemma format_constants_frozen :
  Gen_Format.DBNAME = Format_5_6_3.DBNAME /\
  Gen_Format.DEFAULT_SETTINGS = Format_5_6_3.DEFAULT_SETTINGS /\
  Gen_Format.METADATA = Format_5_6_3.METADATA /\
  Gen_Format.merge_order = Format_5_6_3.merge_order /\
  Gen_Format.merge_drops_metadata = Format_5_6_3.merge_drops_metadata /\
  Gen_Format.init_ddl = Format_5_6_3.init_ddl /\
  Gen_Format.policy_ddl = Format_5_6_3.policy_ddl /\
  Gen_Format.tag_index_ddl = Format_5_6_3.tag_index_ddl /\
  Gen_Format.value_file_layout = Format_5_6_3.value_file_layout /\
  Gen_Format.queue = Format_5_6_3.queue /\
  Gen_Format.shard_dir_format = Format_5_6_3.shard_dir_format /\
  Gen_Format.fanout_size_limit_rule = Format_5_6_3.fanout_size_limit_rule /\
  Gen_Format.cache_getstate = Format_5_6_3.cache_getstate /\
  Gen_Format.cache_init_params = Format_5_6_3.cache_init_params /\
  Gen_Format.fanout_getstate = Format_5_6_3.fanout_getstate /\
  Gen_Format.fanout_init_params = Format_5_6_3.fanout_init_params.
Proof. repeat split; vm_compute; reflexivity. Qed.

Lemma modes_frozen :
  Gen_Disk.MODE_NONE = Format_5_6_3.MODE_NONE /\ Gen_Disk.MODE_RAW = Format_5_6_3.MODE_RAW /\
  Gen_Disk.MODE_BINARY = Format_5_6_3.MODE_BINARY /\ Gen_Disk.MODE_TEXT = Format_5_6_3.MODE_TEXT /\
  Gen_Disk.MODE_PICKLE = Format_5_6_3.MODE_PICKLE /\ Gen_Disk.hash_mask = Format_5_6_3.hash_mask.
Proof. repeat split; reflexivity. Qed.

Lemma put_plan_frozen key : Gen_Disk.put_plan_of key = Format_5_6_3.put_plan_of key.
Proof.
  destruct key as [z|f|s|b|i|b]; try reflexivity.
  unfold Gen_Disk.put_plan_of, Format_5_6_3.put_plan_of. cbn [is_bytes is_str is_int is_float pv_int orb andb Z.opp].
  rewrite orb_false_r. destruct ((-9223372036854775808 <=? z) && (z <=? 9223372036854775807)); reflexivity.
Qed.

Lemma store_plan_frozen m pkv value read :
  Gen_Disk.store_plan_of m pkv value read = Format_5_6_3.store_plan_of m pkv value read.
Proof.
  destruct value as [z|f|s|b|i|b]; unfold Gen_Disk.store_plan_of, Format_5_6_3.store_plan_of, pickled, streamed.
  - cbn [is_bytes is_str is_int is_float pv_int pv_len pv_self_eq orb andb Z.opp].
    rewrite orb_false_r. destruct ((-9223372036854775808 <=? z) && (z <=? 9223372036854775807)); reflexivity.
  - destruct f; reflexivity.
  - cbn [is_bytes is_str is_int is_float pv_len orb andb]. rewrite !orb_false_r.
    destruct (Z.of_nat (length s) <? m); reflexivity.
  - cbn [is_bytes is_str is_int is_float pv_len orb andb].
    destruct (Z.of_nat (length b) <? m); reflexivity.
  - reflexivity.
  - reflexivity.
Qed.

Lemma fetch_plan_frozen mode n r : Gen_Disk.fetch_plan_of mode n r = Format_5_6_3.fetch_plan_of mode n r.
Proof. reflexivity. Qed.
Lemma write_newline_frozen e : Gen_Disk.write_newline e = Format_5_6_3.write_newline e.
Proof. reflexivity. Qed.
Lemma hash_plan_frozen k : Gen_Disk.hash_plan_of k = Format_5_6_3.hash_plan_of k.
Proof. destruct k; reflexivity. Qed.

(* ---------------- dictionaries ---------------- *)
Section DictFacts.
  Context {V : Type}.
  Notation dict := (@dict V).

  Definition first_some (a b : option V) : option V := match a with Some x => Some x | None => b end.

  Lemma lookup_app k (a b : dict) : lookup k (a ++ b) = first_some (lookup k b) (lookup k a).
  Proof.
    induction a as [|[k' v] a IH]; cbn [app lookup].
    - destruct (lookup k b); reflexivity.
    - rewrite IH. destruct (lookup k b); cbn [first_some]; reflexivity.
  Qed.

  Lemma lookup_drop k ks (d : dict) : lookup k (drop_keys ks d) = if mem k ks then None else lookup k d.
  Proof.
    unfold drop_keys. induction d as [|[k' v] d IH]; cbn [filter lookup fst].
    - destruct (mem k ks); reflexivity.
    - destruct (mem k' ks) eqn:Hm; cbn [negb lookup].
      + rewrite IH. destruct (mem k ks) eqn:Hk; [reflexivity|].
        destruct (lookup k d); [reflexivity|]. destruct (zlist_eqb k k') eqn:He; [|reflexivity].
        apply zlist_eqb_spec in He. subst. rewrite Hm in Hk. discriminate.
      + rewrite IH. destruct (mem k ks) eqn:Hk; [|reflexivity].
        destruct (zlist_eqb k k') eqn:He; [|reflexivity].
        apply zlist_eqb_spec in He. subst. rewrite Hm in Hk. discriminate.
  Qed.

  (* given wins over stored wins over defaults; METADATA keys are never settings *)
  Lemma open_settings_lookup (defaults stored given : dict) k :
    lookup k (open_settings defaults stored given) =
    if mem k (map fst Gen_Format.METADATA) then None
    else first_some (lookup k given) (first_some (lookup k stored) (lookup k defaults)).
  Proof.
    unfold open_settings, merge_settings. rewrite bridge_merge_order, bridge_merge_drops_metadata.
    cbn [fold_left source update app]. rewrite lookup_drop. destruct (mem k (map fst Gen_Format.METADATA)); [reflexivity|].
    rewrite !lookup_app. reflexivity.
  Qed.

  Lemma insert_ignore_other k (meta d : dict) :
    mem k (map fst meta) = false -> lookup k (insert_ignore d meta) = lookup k d.
  Proof.
    revert d. induction meta as [|[k' v] meta IH]; intros d Hm; [reflexivity|].
    cbn [map fst mem existsb] in Hm. apply orb_false_elim in Hm. destruct Hm as [Hk Hm].
    unfold insert_ignore. cbn [fold_left fst]. fold (insert_ignore (if has k' d then d else d ++ [(k', v)]) meta).
    rewrite IH; [|exact Hm]. destruct (has k' d); [reflexivity|].
    rewrite lookup_app. cbn [lookup]. rewrite Hk. reflexivity.
  Qed.

  Lemma insert_ignore_keeps k (meta d : dict) x : lookup k d = Some x -> lookup k (insert_ignore d meta) = Some x.
  Proof.
    revert d. induction meta as [|[k' v] meta IH]; intros d Hd; [exact Hd|].
    unfold insert_ignore. cbn [fold_left fst]. fold (insert_ignore (if has k' d then d else d ++ [(k', v)]) meta).
    apply IH. destruct (has k' d) eqn:Hh; [exact Hd|]. rewrite lookup_app. cbn [lookup].
    destruct (zlist_eqb k k') eqn:He; [|exact Hd]. apply zlist_eqb_spec in He. subst.
    unfold has in Hh. rewrite Hd in Hh. discriminate.
  Qed.

  (* the Settings table after opening: what a later open finds there *)
  Lemma stored_after_lookup (meta defaults stored given : dict) k :
    mem k (map fst meta) = false ->
    lookup k (stored_after meta defaults stored given) =
    first_some (lookup k (open_settings defaults stored given)) (lookup k stored).
  Proof.
    intros Hm. unfold stored_after, update. rewrite insert_ignore_other; [|exact Hm]. apply lookup_app.
  Qed.

  (* C18_reopen_settings: opening again with further arguments g2 sees, for every key g2 does not mention,
     exactly the settings of the first open (g2 = [] : all of them); what was given once persists *)
  Lemma reopen_settings (meta defaults stored given g2 : dict) k :
    map fst meta = map fst Gen_Format.METADATA ->
    lookup k g2 = None ->
    lookup k (open_settings defaults (stored_after meta defaults stored given) g2) =
    lookup k (open_settings defaults stored given).
  Proof.
    intros Hmeta Hg2. rewrite (open_settings_lookup defaults (stored_after meta defaults stored given) g2 k).
    destruct (mem k (map fst Gen_Format.METADATA)) eqn:Hm.
    - rewrite open_settings_lookup, Hm. reflexivity.
    - rewrite Hg2. cbn [first_some]. rewrite stored_after_lookup; [|rewrite Hmeta; exact Hm].
      rewrite (open_settings_lookup defaults stored given k), Hm.
      destruct (lookup k given); cbn [first_some]; [reflexivity|].
      destruct (lookup k stored); cbn [first_some]; [reflexivity|].
      destruct (lookup k defaults); reflexivity.
  Qed.

  Lemma given_persists (meta defaults stored given : dict) k v :
    map fst meta = map fst Gen_Format.METADATA -> mem k (map fst Gen_Format.METADATA) = false ->
    lookup k given = Some v ->
    lookup k (open_settings defaults stored given) = Some v /\
    lookup k (open_settings defaults (stored_after meta defaults stored given) []) = Some v.
  Proof.
    intros Hmeta Hm Hg.
    assert (E : lookup k (open_settings defaults stored given) = Some v).
    { rewrite open_settings_lookup, Hm, Hg. reflexivity. }
    split; [exact E|]. rewrite reopen_settings; [exact E|exact Hmeta|reflexivity].
  Qed.

  (* idempotent: a second plain reopen leaves the Settings table as the first one left it *)
  Lemma reopen_idempotent (meta defaults stored given : dict) k :
    map fst meta = map fst Gen_Format.METADATA ->
    let s1 := stored_after meta defaults stored given in
    lookup k (stored_after meta defaults s1 []) = lookup k s1.
  Proof.
    intros Hmeta s1. destruct (mem k (map fst meta)) eqn:Hm.
    - (* a METADATA key: not a setting, already present, left alone *)
      unfold stored_after at 1. unfold update at 1.
      assert (Hs : lookup k (s1 ++ open_settings defaults s1 []) = lookup k s1).
      { rewrite lookup_app, open_settings_lookup. rewrite <- Hmeta, Hm. reflexivity. }
      destruct (lookup k s1) as [x|] eqn:H1.
      + apply insert_ignore_keeps. rewrite Hs. reflexivity.
      + (* impossible: the first open inserted every METADATA key *)
        exfalso. clear Hs. subst s1. unfold stored_after in H1.
        assert (Hall : forall (m d : dict), mem k (map fst m) = true -> lookup k (insert_ignore d m) <> None).
        { clear. induction m as [|[k' v] m IH]; intros d Hk; [discriminate|].
          unfold insert_ignore. cbn [fold_left fst]. fold (insert_ignore (if has k' d then d else d ++ [(k', v)]) m).
          cbn [map fst mem existsb] in Hk. destruct (zlist_eqb k k') eqn:He.
          - apply zlist_eqb_spec in He. subst k'.
            destruct (has k d) eqn:Hh.
            + unfold has in Hh. destruct (lookup k d) as [x|] eqn:Hd; [|discriminate].
              rewrite (insert_ignore_keeps k m d x Hd). discriminate.
            + assert (Hd : lookup k (d ++ [(k, v)]) = Some v).
              { rewrite lookup_app. cbn [lookup]. rewrite zlist_eqb_refl. reflexivity. }
              rewrite (insert_ignore_keeps k m _ v Hd). discriminate.
          - cbn [orb] in Hk. apply IH. exact Hk. }
        exact (Hall meta (update stored (open_settings defaults stored given)) Hm H1).
    - subst s1. rewrite stored_after_lookup; [|exact Hm].
      rewrite reopen_settings; [|exact Hmeta|reflexivity].
      rewrite (stored_after_lookup meta defaults stored given k Hm).
      destruct (lookup k (open_settings defaults stored given)); reflexivity.
  Qed.

  (* ---- FanoutCache ---- *)
  Lemma fanout_given_other (divide : V -> V) (defaults given : dict) k :
    zlist_eqb k size_limit_key = false ->
    lookup k (fanout_given SLAlwaysPassed size_limit_key divide defaults given) = lookup k given.
  Proof.
    intros Hk. unfold fanout_given.
    assert (Hd : lookup k (drop_keys [size_limit_key] given) = lookup k given).
    { rewrite lookup_drop. cbn [mem existsb]. rewrite Hk. reflexivity. }
    destruct (match lookup size_limit_key given with Some v => Some v | None => lookup size_limit_key defaults end).
    - rewrite lookup_app. cbn [lookup]. rewrite Hk. cbn [first_some]. exact Hd.
    - exact Hd.
  Qed.

  (* every setting except size_limit survives reopening a FanoutCache *)
  Lemma fanout_reopen_partial (divide : V -> V) (meta defaults stored given g2 : dict) k :
    map fst meta = map fst Gen_Format.METADATA ->
    zlist_eqb k size_limit_key = false ->
    lookup k g2 = None ->
    lookup k (fanout_open_settings divide defaults (fanout_stored_after divide meta defaults stored given) g2) =
    lookup k (fanout_open_settings divide defaults stored given).
  Proof.
    intros Hmeta Hk Hg2. unfold fanout_open_settings, fanout_stored_after. rewrite bridge_fanout_size_limit_rule.
    apply reopen_settings; [exact Hmeta|]. rewrite fanout_given_other; assumption.
  Qed.
End DictFacts.

(* the full statement for FanoutCache fails at size_limit (finding C18-F1 / D17) *)
Definition d17_given : @dict sval := [(size_limit_key, SVInt 1000)].
Lemma fanout_size_limit_refuted :
  lookup size_limit_key (fanout_open_settings (sval_div 2) Gen_Format.DEFAULT_SETTINGS [] d17_given) = Some (SVInt 500) /\
  lookup size_limit_key
    (fanout_open_settings (sval_div 2) Gen_Format.DEFAULT_SETTINGS
       (fanout_stored_after (sval_div 2) Gen_Format.METADATA Gen_Format.DEFAULT_SETTINGS [] d17_given) [])
  = Some (SVInt 536870912).
Proof. split; vm_compute; reflexivity. Qed.

(* a plain Cache keeps it (same witness) *)
Lemma cache_size_limit_kept :
  lookup size_limit_key
    (open_settings Gen_Format.DEFAULT_SETTINGS (stored_after Gen_Format.METADATA Gen_Format.DEFAULT_SETTINGS [] d17_given) [])
  = Some (SVInt 1000).
Proof. vm_compute. reflexivity. Qed.

(* ---------------- handles ---------------- *)
Lemma setstate_getstate_cache h d :
  let h' := setstate Gen_Format.cache_init_params (getstate Gen_Format.cache_getstate h) d in
  h_directory h' = h_directory h /\ h_timeout h' = h_timeout h /\ h_disk h' = h_disk h /\
  h_shards h' = h_shards d /\ h_maxlen h' = h_maxlen d.
Proof. cbn. repeat split; reflexivity. Qed.

Lemma setstate_getstate_fanout h d :
  let h' := setstate Gen_Format.fanout_init_params (getstate Gen_Format.fanout_getstate h) d in
  h_directory h' = h_directory h /\ h_shards h' = h_shards h /\ h_timeout h' = h_timeout h /\ h_disk h' = h_disk h.
Proof. cbn. repeat split; reflexivity. Qed.

(* ---------------- the statements of props/C18.v ---------------- *)
Lemma format_frozen :
  (Gen_Format.DBNAME = Format_5_6_3.DBNAME /\
   Gen_Format.DEFAULT_SETTINGS = Format_5_6_3.DEFAULT_SETTINGS /\
   Gen_Format.METADATA = Format_5_6_3.METADATA /\
   Gen_Format.merge_order = Format_5_6_3.merge_order /\
   Gen_Format.merge_drops_metadata = Format_5_6_3.merge_drops_metadata /\
   Gen_Format.init_ddl = Format_5_6_3.init_ddl /\
   Gen_Format.policy_ddl = Format_5_6_3.policy_ddl /\
   Gen_Format.tag_index_ddl = Format_5_6_3.tag_index_ddl /\
   Gen_Format.value_file_layout = Format_5_6_3.value_file_layout /\
   Gen_Format.queue = Format_5_6_3.queue /\
   Gen_Format.shard_dir_format = Format_5_6_3.shard_dir_format /\
   Gen_Format.fanout_size_limit_rule = Format_5_6_3.fanout_size_limit_rule /\
   Gen_Format.cache_getstate = Format_5_6_3.cache_getstate /\
   Gen_Format.cache_init_params = Format_5_6_3.cache_init_params /\
   Gen_Format.fanout_getstate = Format_5_6_3.fanout_getstate /\
   Gen_Format.fanout_init_params = Format_5_6_3.fanout_init_params) /\
  (Gen_Disk.MODE_NONE = Format_5_6_3.MODE_NONE /\ Gen_Disk.MODE_RAW = Format_5_6_3.MODE_RAW /\
   Gen_Disk.MODE_BINARY = Format_5_6_3.MODE_BINARY /\ Gen_Disk.MODE_TEXT = Format_5_6_3.MODE_TEXT /\
   Gen_Disk.MODE_PICKLE = Format_5_6_3.MODE_PICKLE /\ Gen_Disk.hash_mask = Format_5_6_3.hash_mask) /\
  (forall key, Gen_Disk.put_plan_of key = Format_5_6_3.put_plan_of key) /\
  (forall m pkv value read, Gen_Disk.store_plan_of m pkv value read = Format_5_6_3.store_plan_of m pkv value read) /\
  (forall mode n r, Gen_Disk.fetch_plan_of mode n r = Format_5_6_3.fetch_plan_of mode n r) /\
  (forall e, Gen_Disk.write_newline e = Format_5_6_3.write_newline e) /\
  (forall k, Gen_Disk.hash_plan_of k = Format_5_6_3.hash_plan_of k).
Proof.
  split; [exact format_constants_frozen|]. split; [exact modes_frozen|].
  split; [exact put_plan_frozen|]. split; [exact store_plan_frozen|]. split; [exact fetch_plan_frozen|].
  split; [exact write_newline_frozen|exact hash_plan_frozen].
Qed.

Lemma reopen_settings_all {V} (meta defaults stored given : @dict V) :
  map fst meta = map fst Gen_Format.METADATA ->
  (* given wins over stored wins over defaults; METADATA keys are not settings *)
  (forall k, lookup k (open_settings defaults stored given) =
             if mem k (map fst Gen_Format.METADATA) then None
             else first_some (lookup k given) (first_some (lookup k stored) (lookup k defaults))) /\
  (* a later open sees the same settings, except for what it is given itself *)
  (forall g2 k, lookup k g2 = None ->
     lookup k (open_settings defaults (stored_after meta defaults stored given) g2) = lookup k (open_settings defaults stored given)) /\
  (* in particular what was given at creation is seen by a plain reopen *)
  (forall k v, mem k (map fst Gen_Format.METADATA) = false -> lookup k given = Some v ->
     lookup k (open_settings defaults (stored_after meta defaults stored given) []) = Some v) /\
  (* reopening is idempotent on the Settings table *)
  (forall k, lookup k (stored_after meta defaults (stored_after meta defaults stored given) []) =
             lookup k (stored_after meta defaults stored given)).
Proof.
  intros Hmeta. split; [intros k; apply open_settings_lookup|].
  split; [intros g2 k Hg; apply reopen_settings; assumption|].
  split; [intros k v Hm Hg; apply (given_persists meta defaults stored given k v Hmeta Hm Hg)|].
  intros k. apply (reopen_idempotent meta defaults stored given k Hmeta).
Qed.

Lemma reopen_settings_example :
  map fst Gen_Format.METADATA = map fst Gen_Format.METADATA /\
  lookup size_limit_key (open_settings Gen_Format.DEFAULT_SETTINGS [] d17_given) = Some (SVInt 1000).
Proof. split; [reflexivity|vm_compute; reflexivity]. Qed.

Lemma fanout_reopen_partial_all {V} (divide : V -> V) (meta defaults stored given g2 : @dict V) k :
  map fst meta = map fst Gen_Format.METADATA ->
  zlist_eqb k size_limit_key = false ->
  lookup k g2 = None ->
  lookup k (fanout_open_settings divide defaults (fanout_stored_after divide meta defaults stored given) g2) =
  lookup k (fanout_open_settings divide defaults stored given).
Proof. apply fanout_reopen_partial. Qed.

Lemma fanout_size_limit_refuted_ex :
  exists (defaults meta given : @dict sval) (divide : sval -> sval) v,
    map fst meta = map fst Gen_Format.METADATA /\
    lookup size_limit_key (fanout_open_settings divide defaults [] given) = Some v /\
    lookup size_limit_key (fanout_open_settings divide defaults (fanout_stored_after divide meta defaults [] given) []) <> Some v.
Proof.
  exists Gen_Format.DEFAULT_SETTINGS, Gen_Format.METADATA, d17_given, (sval_div 2), (SVInt 500).
  destruct fanout_size_limit_refuted as [H1 H2]. split; [reflexivity|]. split; [exact H1|]. rewrite H2. discriminate.
Qed.

Lemma handle_free :
  (forall h d, let h' := setstate Gen_Format.cache_init_params (getstate Gen_Format.cache_getstate h) d in
     h_directory h' = h_directory h /\ h_timeout h' = h_timeout h /\ h_disk h' = h_disk h /\
     h_shards h' = h_shards d /\ h_maxlen h' = h_maxlen d) /\
  (forall h d, let h' := setstate Gen_Format.fanout_init_params (getstate Gen_Format.fanout_getstate h) d in
     h_directory h' = h_directory h /\ h_shards h' = h_shards h /\ h_timeout h' = h_timeout h /\ h_disk h' = h_disk h).
Proof. split; [exact setstate_getstate_cache|exact setstate_getstate_fanout]. Qed.
