(* Invariants of the row-level model that hold for every operation because they hold for the table
   primitives.  `prim_closed P` = P is preserved by insert/update/delete (with their triggers), by file
   operations and by the statistics counters; then P is preserved by every API call (step_closed) and by
   every history (run_closed).  Used for the counter clause of C08 and reused by C03/C04. *)
From DC Require Import DCPrelude DCPreludeFacts Val DiskBase SqlBase Gen_Disk Disk Gen_Sql Cache.

(* ---------------- bridge lemmas: triggers ---------------- *)
Lemma bridge_trig_insert_count v n o : trig_insert_count v n o = v + 1.
Proof. reflexivity. Qed.
Lemma bridge_trig_delete_count v n o : trig_delete_count v n o = v - 1.
Proof. reflexivity. Qed.
Lemma bridge_trig_insert_size v n o : trig_insert_size v n o = v + rsize n.
Proof. reflexivity. Qed.
Lemma bridge_trig_delete_size v n o : trig_delete_size v n o = v - rsize o.
Proof. reflexivity. Qed.
Lemma bridge_trig_update_size v n o : trig_update_size v n o = v + rsize n - rsize o.
Proof. reflexivity. Qed.

(* ---------------- closure under the primitives ---------------- *)
(* every UPDATE of core.py leaves rowid, key and raw alone *)
Definition keeps_id (f : row -> row) : Prop :=
  forall r, rowid (f r) = rowid r /\ rkey (f r) = rkey r /\ rraw (f r) = rraw r.

Lemma bridge_row_update_keeps_id a b c d e f g h i j : keeps_id (row_update_set a b c d e f g h i j).
Proof. intros r. repeat split. Qed.
Lemma bridge_touch_update_keeps_id a b : keeps_id (touch_update_set a b).
Proof. intros r. repeat split. Qed.
Lemma bridge_incr_update_keeps_id p now v rid : keeps_id (incr_update p now v rid).
Proof.
  intros r. unfold incr_update. destruct p;
    repeat match goal with |- context[if ?b then _ else _] => destruct b end; repeat split.
Qed.
Lemma bridge_policy_get_update_keeps_id p now rid : keeps_id (policy_get_update p now rid).
Proof.
  intros r. unfold policy_get_update. destruct p;
    repeat match goal with |- context[if ?b then _ else _] => destruct b end; repeat split.
Qed.

(* every INSERT gives the new row the rowid the table hands it *)
Definition inserts_at (mk : Z -> row) : Prop := forall n, rowid (mk n) = n.
Lemma bridge_columns_insert_at dbk raw now e tag sd fid : inserts_at (columns_insert dbk raw now e tag sd fid).
Proof. intros n. reflexivity. Qed.

Record prim_closed (P : st -> Prop) : Prop := {
  pc_insert : forall mk s, inserts_at mk -> P s -> P (t_insert mk s);
  pc_update : forall wh f s, keeps_id f -> P s -> P (t_update wh f s);
  pc_delete : forall wh s, P s -> P (t_delete wh s);
  pc_fs : forall s f n, P s -> P (set_fs s f n);
  pc_stats : forall s h m b, P s -> P (set_stats s h m b)
}.

Section Closed.
  Variable P : st -> Prop.
  Hypothesis HP : prim_closed P.

  Lemma closed_fs_write s c : P s -> P (fst (fs_write s c)).
  Proof. destruct c; cbn; auto. apply (pc_fs P HP). Qed.

  Lemma closed_fs_remove1 s o : P s -> P (fs_remove1 s o).
  Proof. destruct o; cbn; auto. apply (pc_fs P HP). Qed.

  Lemma closed_fs_remove l : forall s, P s -> P (fs_remove s l).
  Proof. unfold fs_remove. induction l as [|o l IH]; cbn; auto. intros s H. apply IH, closed_fs_remove1, H. Qed.

  Lemma closed_bump s b : P s -> P (bump s b).
  Proof. unfold bump. destruct (statistics s), b; auto; apply (pc_stats P HP). Qed.

  Lemma closed_cull c now pg s : P s -> P (fst (cull c now pg s)).
  Proof.
    intros H. unfold cull.
    destruct (cull_disabled _); [exact H|].
    destruct (negb (is_nil (cull_expired_select now (c_cull_limit c) (rows s)))) eqn:E.
    - destruct (cull_exhausted _); [apply (pc_delete P HP), H|].
      destruct (cull_skip_policy _ _ _); [apply (pc_delete P HP), H|].
      destruct (is_nil (policy_cull_select _ _ _)); cbn; repeat apply (pc_delete P HP); exact H.
    - destruct (cull_skip_policy _ _ _); [exact H|].
      destruct (is_nil (policy_cull_select _ _ _)); cbn; [exact H|apply (pc_delete P HP), H].
  Qed.

  Lemma closed_columns_update rid now e tag sd fid s : P s -> P (columns_update rid now e tag sd fid s).
  Proof. apply (pc_update P HP), bridge_row_update_keeps_id. Qed.

  Ltac dcull := cbv zeta; match goal with |- context[cull ?c ?now ?pg ?x] =>
      let s3 := fresh "s3" in let cl2 := fresh "cl2" in let C := fresh "C" in
      destruct (cull c now pg x) as [s3 cl2] eqn:C; cbn [fst];
      apply closed_fs_remove; change s3 with (fst (s3, cl2)); rewrite <- C end.

  Ltac fin := first [assumption | apply closed_fs_remove | apply closed_cull | apply closed_columns_update
                     | apply (pc_insert P HP); [apply bridge_columns_insert_at|]
                     | apply (pc_update P HP); [first [apply bridge_touch_update_keeps_id | apply bridge_incr_update_keeps_id
                                                       | apply bridge_policy_get_update_keeps_id | apply bridge_row_update_keeps_id]|]
                     | apply (pc_delete P HP)
                     | apply closed_bump | apply (pc_stats P HP)].

  Lemma closed_set c s k v rd e tag now pg : P s -> P (fst (op_set c s k v rd e tag now pg)).
  Proof.
    intros H. unfold op_set. destruct (put _ k); [|exact H]. destruct (store _ _ v rd) as [sd|]; [|exact H].
    pose proof (closed_fs_write s (s_file sd) H) as H1. destruct (fs_write s (s_file sd)) as [s1 fid]. cbn [fst] in H1.
    destruct (set_select _ _ _) as [|r0 rs].
    - dcull; repeat fin.
    - dcull; repeat fin.
  Qed.

  Lemma closed_add c s k v rd e tag now pg : P s -> P (fst (op_add c s k v rd e tag now pg)).
  Proof.
    intros H. unfold op_add. destruct (put _ k); [|exact H]. destruct (store _ _ v rd) as [sd|]; [|exact H].
    pose proof (closed_fs_write s (s_file sd) H) as H1. destruct (fs_write s (s_file sd)) as [s1 fid]. cbn [fst] in H1.
    destruct (add_select _ _ _) as [|r0 rs].
    - dcull; repeat fin.
    - destruct (add_live _ _); cbn [fst]; [apply closed_fs_remove; exact H1|].
      dcull; repeat fin.
  Qed.

  Lemma closed_touch c s k e now : P s -> P (fst (op_touch c s k e now)).
  Proof.
    intros H. unfold op_touch. destruct (put _ k); [|exact H].
    destruct (touch_select _ _ _); [exact H|]. destruct (touch_live _ _); cbn [fst]; repeat fin.
  Qed.

  Lemma closed_incr c s k d df now pg : P s -> P (fst (op_incr c s k d df now pg)).
  Proof.
    intros H. unfold op_incr. destruct (put _ k) as [dbk raw|]; [|exact H].
    assert (F : forall upd, P (fst (match df with
      | None => (s, RRaise EKeyError)
      | Some d0 =>
        match store (c_codec c) (c_min_file_size c) (VInt (d0 + d)) false with
        | StRaise => (s, RRaise EStore)
        | StOk sd =>
          let '(s1, fid) := fs_write s (s_file sd) in
          let s2 := match upd with
                    | None => t_insert (columns_insert dbk raw now None SNull sd fid) s1
                    | Some r0 => columns_update (rowid r0) now None SNull sd fid s1
                    end in
          let '(s3, cl2) := cull c now pg s2 in
          (fs_remove s3 (cl2 ++ match upd with Some r0 => [rfile r0] | None => [] end), RVal (FVal (VInt (d0 + d))) None SNull)
        end
      end))).
    { intros upd. destruct df as [d0|]; [|exact H].
      destruct (store _ _ _ _) as [sd|]; [|exact H].
      pose proof (closed_fs_write s (s_file sd) H) as H1. destruct (fs_write s (s_file sd)) as [s1 fid]. cbn [fst] in H1.
      destruct upd as [r0|].
      - dcull; repeat fin.
      - dcull; repeat fin. }
    destruct (incr_select _ _ _) as [|r0 rs]; [apply (F None)|].
    destruct (incr_expired _ _); [apply (F (Some r0))|].
    destruct (rvalue r0); try exact H. destruct (in_int64 _); cbn [fst]; repeat fin.
  Qed.

  Lemma closed_get c s k rd now : P s -> P (fst (op_get c s k rd now)).
  Proof.
    intros H. unfold op_get. destruct (put _ k); [|exact H].
    destruct (get_fast_path _ _).
    - destruct (get_select _ _ _ _); [exact H|]. destruct (fetch_row _ _ _ _); exact H.
    - destruct (get_select _ _ _ _); cbn [fst]; [repeat fin|].
      destruct (fetch_row _ _ _ _); cbn [fst]; try (destruct (policy_has_get _)); repeat fin.
  Qed.

  Lemma closed_contains c s k now : P s -> P (fst (op_contains c s k now)).
  Proof. intros H. unfold op_contains. destruct (put _ k); exact H. Qed.

  Lemma closed_pop c s k now : P s -> P (fst (op_pop c s k now)).
  Proof.
    intros H. unfold op_pop. destruct (put _ k); [|exact H].
    destruct (pop_select _ _ _ _); [exact H|]. cbv zeta.
    destruct (fetch_row _ _ _ _); cbn [fst]; repeat fin.
  Qed.

  Lemma closed_delete c s k di now : P s -> P (fst (op_delete c s k di now)).
  Proof.
    intros H. unfold op_delete. destruct (put _ k); [|exact H].
    destruct (del_select _ _ _ _); [exact H|]. cbn [fst]. repeat fin.
  Qed.

  Lemma closed_push c s v rd p sd e tag now pg : P s -> P (fst (op_push c s v rd p sd e tag now pg)).
  Proof.
    intros H. unfold op_push. destruct (store _ _ v rd) as [sd0|]; [|exact H].
    pose proof (closed_fs_write s (s_file sd0) H) as H1. destruct (fs_write s (s_file sd0)) as [s1 fid]. cbn [fst] in H1.
    cbv zeta. dcull; repeat fin.
  Qed.

  Lemma closed_pull_loop c p sd now fuel : forall s, P s -> P (fst (op_pull_loop fuel c s p sd now)).
  Proof.
    induction fuel as [|f IH]; intros s H; cbn [op_pull_loop]; [exact H|].
    destruct (pull_select _ _ _); [exact H|]. cbv zeta.
    destruct (pull_expired _ _); [apply IH; repeat fin|].
    destruct (fetch_row _ _ _ _); cbn [fst]; try (apply IH); repeat fin.
  Qed.

  Lemma closed_peek_loop c p sd now fuel : forall s, P s -> P (fst (op_peek_loop fuel c s p sd now)).
  Proof.
    induction fuel as [|f IH]; intros s H; cbn [op_peek_loop]; [exact H|].
    destruct (peek_select _ _ _); [exact H|].
    destruct (peek_expired _ _); [apply IH; repeat fin|].
    destruct (fetch_row _ _ _ _); exact H.
  Qed.

  Lemma closed_peekitem_loop c l now fuel : forall s, P s -> P (fst (op_peekitem_loop fuel c s l now)).
  Proof.
    induction fuel as [|f IH]; intros s H; cbn [op_peekitem_loop]; [exact H|].
    destruct (if l then _ else _); [exact H|].
    destruct (peekitem_expired _ _); [apply IH; repeat fin|].
    destruct (fetch_row _ _ _ _); exact H.
  Qed.

  Lemma closed_select_delete sel next fuel : forall bound s count,
      P s -> P (fst (select_delete fuel sel next bound s count)).
  Proof.
    induction fuel as [|f IH]; intros bound s count H; cbn [select_delete]; [exact H|].
    destruct (sel bound (rows s)) eqn:E; [exact H|]. apply IH. repeat fin.
  Qed.

  Lemma closed_cull_loop c fuel : forall vols s count, P s -> P (fst (cull_loop fuel c vols s count)).
  Proof.
    induction fuel as [|f IH]; intros vols s count H; cbn [cull_loop]; [exact H|].
    destruct (cull_over_limit _ _); [|exact H].
    destruct (policy_cull_select _ _ _) eqn:E; [exact H|]. apply IH. repeat fin.
  Qed.

  Lemma closed_op_cull c s now vols : P s -> P (fst (op_cull c s now vols)).
  Proof.
    intros H. unfold op_cull.
    pose proof (closed_select_delete (fun b t => expire_select b now expire_page t) (fun r => time_or_zero (expire_time r))
                 (S (length (rows s))) 0 s 0 H) as H1.
    unfold op_expire. destruct (select_delete _ _ _ _ _ _) as [s1 r]. cbn [fst] in H1.
    destruct r; try exact H1. destruct (policy_has_cull _); [apply closed_cull_loop|]; exact H1.
  Qed.

  Theorem step_closed c s o now vols : P s -> P (fst (step c s o now vols)).
  Proof.
    intros H. destruct o; cbn [step].
    - apply closed_set, H.
    - apply closed_add, H.
    - apply closed_touch, H.
    - apply closed_incr, H.
    - apply closed_get, H.
    - apply closed_contains, H.
    - apply closed_pop, H.
    - apply closed_delete, H.
    - apply closed_push, H.
    - apply closed_pull_loop, H.
    - apply closed_peek_loop, H.
    - apply closed_peekitem_loop, H.
    - apply closed_select_delete, H.
    - apply closed_select_delete, H.
    - apply closed_op_cull, H.
    - apply closed_select_delete, H.
    - exact H.
    - unfold op_iter. destruct (iter_max _); exact H.
    - unfold op_iterkeys. destruct (if rev then _ else _); exact H.
    - cbn. apply (pc_stats P HP), H.
  Qed.
End Closed.

(* histories: (operation, clock, volume oracle) triples, any length, any clock trajectory *)
Definition run (c : cfg) (s : st) (h : list (op * Z * list Z)) : st :=
  fold_left (fun s x => fst (step c s (fst (fst x)) (snd (fst x)) (snd x))) h s.

Theorem run_closed P : prim_closed P -> forall c h s, P s -> P (run c s h).
Proof.
  intros HP c h. induction h as [|x h IH]; intros s H; cbn; auto.
  apply IH. apply step_closed; assumption.
Qed.

(* ---------------- the counters (C08) ---------------- *)
Definition counters_ok (s : st) : Prop :=
  n_count s = Z.of_nat (length (rows s)) /\ n_size s = sumZ (map rsize (rows s)).

Lemma sumZ_app a b : sumZ (a ++ b) = sumZ a + sumZ b.
Proof. induction a; cbn; lia. Qed.

Lemma upd_rows_spec wh f : forall t sz,
  let '(t', sz') := upd_rows wh f t sz in
  length t' = length t /\ sz' - sumZ (map rsize t') = sz - sumZ (map rsize t).
Proof.
  induction t as [|r t IH]; intros sz; cbn; [split; lia|].
  destruct (wh r).
  - specialize (IH (trig_update_size sz (f r) r)). destruct (upd_rows wh f t _) as [t' sz'].
    destruct IH as [L S]. cbn. rewrite bridge_trig_update_size in S. split; lia.
  - specialize (IH sz). destruct (upd_rows wh f t sz) as [t' sz']. destruct IH as [L S]. cbn. split; lia.
Qed.

Lemma del_rows_spec wh : forall t cnt sz,
  let '(t', c', s') := del_rows wh t cnt sz in
  c' - Z.of_nat (length t') = cnt - Z.of_nat (length t) /\ s' - sumZ (map rsize t') = sz - sumZ (map rsize t).
Proof.
  induction t as [|r t IH]; intros cnt sz; cbn [del_rows]; [split; lia|].
  destruct (wh r).
  - specialize (IH (trig_delete_count cnt r r) (trig_delete_size sz r r)).
    destruct (del_rows wh t _ _) as [[t' c'] s']. destruct IH as [C S].
    rewrite bridge_trig_delete_count in C. rewrite bridge_trig_delete_size in S.
    cbn [length map sumZ]. split; lia.
  - specialize (IH cnt sz). destruct (del_rows wh t cnt sz) as [[t' c'] s']. destruct IH as [C S].
    cbn [length map sumZ]. split; lia.
Qed.

Lemma counters_closed : prim_closed counters_ok.
Proof.
  split.
  - intros mk s _ [C S]. unfold t_insert, counters_ok; cbn.
    rewrite bridge_trig_insert_count, bridge_trig_insert_size, app_length, map_app, sumZ_app. cbn. split; lia.
  - intros wh f s _ [C S]. unfold t_update, counters_ok.
    pose proof (upd_rows_spec wh f (rows s) (n_size s)) as U.
    destruct (upd_rows wh f (rows s) (n_size s)) as [t' sz']. destruct U as [L E]. cbn. split; lia.
  - intros wh s [C S]. unfold t_delete, counters_ok.
    pose proof (del_rows_spec wh (rows s) (n_count s) (n_size s)) as D.
    destruct (del_rows wh (rows s) (n_count s) (n_size s)) as [[t' c'] s']. destruct D as [Dc Ds]. cbn. split; lia.
  - intros s f n H. exact H.
  - intros s h m b H. exact H.
Qed.

Theorem counters_step c s o now vols : counters_ok s -> counters_ok (fst (step c s o now vols)).
Proof. apply step_closed, counters_closed. Qed.

Theorem counters_run c h s : counters_ok s -> counters_ok (run c s h).
Proof. apply run_closed, counters_closed. Qed.

Lemma counters_init : counters_ok init_st.
Proof. split; reflexivity. Qed.

(* what len() reports is the number of stored items *)
Corollary len_reports_rows c h :
  snd (op_len (run c init_st h)) = RInt (Z.of_nat (length (rows (run c init_st h)))).
Proof.
  destruct (counters_run c h init_st counters_init) as [C _]. unfold op_len. cbn. rewrite C. reflexivity.
Qed.
