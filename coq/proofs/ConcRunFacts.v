(* The schedule-correspondence checker (model/ConcRun.v) only ever takes steps of the machine: whatever
   configuration it reaches is `exec` of the starting configuration under some schedule, so the machine
   theorems (proofs/ConcFacts.v, ConcTheorems.v, TxnFacts.v) speak about exactly the states the
   implementation was compared with. *)
From DC Require Import DCPrelude Val DiskBase SqlBase Gen_Disk Disk Gen_Sql Cache CacheRun Conc Txn ConcRun.

Lemma exec_app (c : mconfig) a b : exec (exec c a) b = exec c (a ++ b).
Proof. unfold exec. rewrite fold_left_app. reflexivity. Qed.

Lemma exec_step_some (c c' : mconfig) i : cstep c i = Some c' -> exec c [Step i] = c'.
Proof. intros H. unfold exec. cbn [fold_left exec1]. rewrite H. reflexivity. Qed.

Lemma visible_exec fuel : forall (c c' : mconfig) i t,
  visible fuel c i t = Some c' -> exists s, exec c s = c' /\ Forall (fun e => e = Step i) s.
Proof.
  induction fuel as [|f IH]; intros c c' i t H; cbn [visible] in H; [discriminate|].
  destruct (tag_eqb (step_tag c i) t).
  - exists [Step i]. split; [apply exec_step_some; exact H|repeat constructor].
  - destruct (tag_eqb (step_tag c i) TNone); [|discriminate].
    destruct (cstep c i) as [c1|] eqn:E; [|discriminate].
    destruct (IH _ _ _ _ H) as [s [Hs Fs]].
    exists (Step i :: s). split; [|constructor; auto].
    change (Step i :: s) with ([Step i] ++ s). rewrite <- exec_app, (exec_step_some _ _ _ E). exact Hs.
Qed.

Lemma settle_exec fuel : forall (c : mconfig) i, exists s, exec c s = settle fuel c i.
Proof.
  induction fuel as [|f IH]; intros c i; cbn [settle]; [exists []; reflexivity|].
  destruct (tag_eqb (step_tag c i) TNone); [|exists []; reflexivity].
  destruct (cstep c i) as [c1|] eqn:E; [|exists []; reflexivity].
  destruct (IH c1 i) as [s Hs]. exists ([Step i] ++ s). rewrite <- exec_app, (exec_step_some _ _ _ E). exact Hs.
Qed.

Lemma solo_exec fuel : forall (c : mconfig) i, exists s, exec c s = solo fuel c i.
Proof.
  induction fuel as [|f IH]; intros c i; cbn [solo]; [exists []; reflexivity|].
  destruct (cstep c i) as [c1|] eqn:E; [|exists []; reflexivity].
  destruct (IH c1 i) as [s Hs]. exists ([Step i] ++ s). rewrite <- exec_app, (exec_step_some _ _ _ E). exact Hs.
Qed.

Lemma settle_all_exec n : forall (c : mconfig), exists s, exec c s = settle_all c n.
Proof.
  induction n as [|k IH]; intros c; cbn [settle_all]; [exists []; reflexivity|].
  destruct (IH c) as [s1 H1]. destruct (settle_exec SILENT_FUEL (settle_all c k) k) as [s2 H2].
  exists (s1 ++ s2). rewrite <- exec_app, H1. exact H2.
Qed.

(* the events the checker follows are, client by client, exactly the steps of the schedule it builds *)
Lemma feed_exec : forall l (c c' : mconfig) n, feed c n l = inl c' -> exists s, exec c s = c'.
Proof.
  induction l as [|[i t] r IH]; intros c c' n H; cbn [feed] in H.
  - inversion H. exists []. reflexivity.
  - destruct (visible SILENT_FUEL c i t) as [c1|] eqn:V; [|discriminate].
    destruct (visible_exec _ _ _ _ _ V) as [s1 [H1 _]]. destruct (IH _ _ _ H) as [s2 H2].
    exists (s1 ++ s2). rewrite <- exec_app, H1. exact H2.
Qed.

(* a visible step is taken only when the machine's own tag for that client is the observed one *)
Lemma visible_tag fuel : forall (c c' : mconfig) i t,
  visible fuel c i t = Some c' -> t <> TNone ->
  exists s c1, exec c s = c1 /\ step_tag c1 i = t /\ cstep c1 i = Some c'.
Proof.
  induction fuel as [|f IH]; intros c c' i t H Ht; cbn [visible] in H; [discriminate|].
  destruct (tag_eqb (step_tag c i) t) eqn:Q.
  - exists [], c. repeat split; auto.
    destruct (step_tag c i), t; try discriminate; reflexivity.
  - destruct (tag_eqb (step_tag c i) TNone); [|discriminate].
    destruct (cstep c i) as [c1|] eqn:E; [|discriminate].
    destruct (IH _ _ _ _ H Ht) as [s [c2 [Hs [Hg Hc]]]].
    exists ([Step i] ++ s), c2. rewrite <- exec_app, (exec_step_some _ _ _ E). auto.
Qed.

(* agreement reported by sched_check is agreement with a configuration the machine reaches from its
   initial configuration *)
Theorem sched_check_reaches c s0 setup progs events seen_by final :
  sched_check c s0 setup progs events seen_by final = -1 ->
  exists su ps sch cf,
    compile_all c setup = Some su /\ compile_progs c progs = Some ps /\
    exec (init_config s0 (prog_fun ps su)) sch = cf /\
    clients_ok cf seen_by 0 = -1 /\ disk_matches cf final = true.
Proof.
  unfold sched_check. intros H.
  destruct (compile_all c setup) as [su|]; [|discriminate].
  destruct (compile_progs c progs) as [ps|]; [|discriminate].
  set (c0 := init_config s0 (prog_fun ps su)) in *.
  destruct (negb (finished (solo _ c0 (length ps)) (length ps))); [discriminate|].
  destruct (feed _ 0 events) as [c2|k] eqn:F.
  - destruct (solo_exec (20 * S (length su)) c0 (length ps)) as [s1 H1].
    destruct (feed_exec _ _ _ _ F) as [s2 H2].
    destruct (settle_all_exec (length ps) c2) as [s3 H3].
    destruct (clients_ok (settle_all c2 (length ps)) seen_by 0 =? -1) eqn:Q.
    + destruct (disk_matches (settle_all c2 (length ps)) final) eqn:D; [|discriminate].
      exists su, ps, (s1 ++ s2 ++ s3), (settle_all c2 (length ps)).
      repeat split; auto.
      * unfold c0 in *. rewrite <- !exec_app, H1, H2. exact H3.
      * apply Z.eqb_eq. exact Q.
    + exfalso. apply Z.eqb_neq in Q. apply Q. exact H.
  - exfalso. revert H F. generalize (solo (20 * S (length su)) c0 (length ps)). intros cc H F.
    assert (K : forall l (x : mconfig) n k, 0 <= n -> feed x n l = inr k -> 0 <= k).
    { induction l as [|[i t] r IHl]; intros x n k0 Hn Hf; cbn [feed] in Hf; [discriminate|].
      destruct (visible SILENT_FUEL x i t) as [m|]; [apply (IHl m (n + 1)); [lia|exact Hf]|inversion Hf; lia]. }
    specialize (K _ _ _ _ (Z.le_refl 0) F). lia.
Qed.

(* ------------------------------------------------------------------ the checked states satisfy the machine invariant *)
From DC Require Import DCPreludeFacts SinvFacts ConcFacts ConcTheorems TxnFacts TxnQueue TxnQueueFacts.

Lemma compile_op_ok c retry o now pg m : ConcRun.compile c retry o now pg = Some m -> op_ok refs Winv m.
Proof.
  destruct o; cbn [ConcRun.compile]; intros H; try discriminate; try (inversion H; subst m; cbn [op_ok]).
  - apply body_ok_set.
  - apply body_ok_add.
  - apply body_ok_touch.
  - destruct (incr_inline c delta default); [|discriminate]. inversion H. cbn [op_ok]. apply body_ok_incr.
  - apply rop_ok_get.
  - apply rop_ok_contains.
  - apply body_ok_pop.
  - apply body_ok_delete.
  - apply body_ok_push.
  - apply body_ok_pull.
  - apply body_ok_peek.
Qed.

Lemma compile_all_ok c : forall l ms, compile_all c l = Some ms -> Forall (op_ok refs Winv) ms.
Proof.
  induction l as [|x r IH]; intros ms H; cbn [compile_all] in H.
  - inversion H. constructor.
  - destruct (ConcRun.compile c (cc_retry x) (cc_op x) (cc_now x) (cc_pg x)) as [o|] eqn:E; [|discriminate].
    destruct (compile_all c r) as [os|]; [|discriminate]. inversion H. constructor; [eapply compile_op_ok; exact E|apply IH; reflexivity].
Qed.

Lemma compile_progs_ok c : forall l ps, compile_progs c l = Some ps -> Forall (Forall (op_ok refs Winv)) ps.
Proof.
  induction l as [|x r IH]; intros ps H; cbn [compile_progs] in H.
  - inversion H. constructor.
  - destruct (compile_all c x) as [a|] eqn:E; [|discriminate].
    destruct (compile_progs c r) as [b|]; [|discriminate]. inversion H. constructor; [eapply compile_all_ok; exact E|apply IH; reflexivity].
Qed.

Lemma prog_fun_ok (ps : list (list mop)) (su : list mop) : Forall (Forall (op_ok refs Winv)) ps -> Forall (op_ok refs Winv) su ->
  forall i, Forall (op_ok refs Winv) (prog_fun ps su i).
Proof.
  intros Hp Hs i. unfold prog_fun. destruct (Nat.eqb _ _); [exact Hs|].
  destruct (nth_in_or_default i ps (@nil mop)) as [I|E]; [|rewrite E; constructor].
  rewrite Forall_forall in Hp. apply Hp, I.
Qed.

(* Agreement (-1) means: some schedule of the machine, started on the empty cache with the compiled programs,
   reaches a configuration that satisfies the machine invariant (so every all-schedule theorem applies to it),
   whose clients returned what the implementation returned and whose committed state is what was on disk. *)
Theorem sched_check_sound c setup progs events seen_by final :
  sched_check c init_st setup progs events seen_by final = -1 ->
  exists su ps sch,
    let cf := exec (init_config init_st (prog_fun ps su)) sch in
    Inv refs Winv cf /\ Winv (db cf) /\ (forall g, In g (refs (db cf)) -> files cf g = FDone) /\
    clients_ok cf seen_by 0 = -1 /\ disk_matches cf final = true.
Proof.
  intros H. destruct (sched_check_reaches _ _ _ _ _ _ _ H) as [su [ps [sch [cf [Hsu [Hps [He [Hc Hd]]]]]]]].
  exists su, ps, sch. cbv zeta. rewrite He.
  assert (I : Inv refs Winv cf).
  { rewrite <- He. apply inv_exec, inv_init.
    - apply sinv_init.
    - reflexivity.
    - apply prog_fun_ok; [eapply compile_progs_ok; exact Hps|eapply compile_all_ok; exact Hsu]. }
  split; [exact I|]. split; [apply (@i_dinv _ _ _ _ _ I)|]. split; [apply (@i_ref _ _ _ _ _ I)|]. split; assumption.
Qed.

Print Assumptions sched_check_sound.

(* ------------------------------------------------------------------ the crash check *)
Theorem crash_check_sound c setup prog events seen0 inflight final :
  crash_check c init_st setup prog events seen0 inflight final = -1 ->
  exists su p sch,
    let cf := exec (init_config init_st (prog_fun [p] su)) (sch ++ [Kill 0]) in
    Inv refs Winv cf /\ Winv (db cf) /\ (forall g, In g (refs (db cf)) -> files cf g = FDone) /\
    outcomes_match_upto (c_done (cl cf 0)) seen0 inflight = true /\ disk_matches cf final = true.
Proof.
  unfold crash_check. intros H.
  destruct (compile_all c setup) as [su|] eqn:Hsu; [|discriminate].
  destruct (compile_all c prog) as [p|] eqn:Hp; [|discriminate].
  set (c0 := init_config init_st (prog_fun [p] su)) in *.
  destruct (negb (finished (solo _ c0 1) 1)); [discriminate|].
  destruct (feed _ 0 events) as [c2|k] eqn:F.
  - destruct (solo_exec (20 * S (length su)) c0 1) as [s1 H1].
    destruct (feed_exec _ _ _ _ F) as [s2 H2].
    destruct (settle_exec SILENT_FUEL c2 0) as [s3 H3].
    destruct (outcomes_match_upto _ seen0 inflight) eqn:O; [|discriminate].
    destruct (disk_matches _ final) eqn:D; [|discriminate].
    exists su, p, (s1 ++ s2 ++ s3). cbv zeta.
    assert (E : exec c0 ((s1 ++ s2 ++ s3) ++ [Kill 0]) = crash (settle SILENT_FUEL c2 0) 0).
    { rewrite <- !exec_app, H1, H2, H3. reflexivity. }
    unfold c0 in E. rewrite E.
    assert (I : Inv refs Winv (crash (settle SILENT_FUEL c2 0) 0)).
    { rewrite <- E. apply inv_exec, inv_init.
      - apply sinv_init.
      - reflexivity.
      - apply prog_fun_ok; [constructor; [eapply compile_all_ok; exact Hp|constructor]|eapply compile_all_ok; exact Hsu]. }
    split; [exact I|]. split; [apply (@i_dinv _ _ _ _ _ I)|]. split; [apply (@i_ref _ _ _ _ _ I)|]. split; assumption.
  - exfalso. revert H F. generalize (solo (20 * S (length su)) c0 1). intros cc H F.
    assert (K : forall l (x : mconfig) n k, 0 <= n -> feed x n l = inr k -> 0 <= k).
    { induction l as [|[i t] r IHl]; intros x n k0 Hn Hf; cbn [feed] in Hf; [discriminate|].
      destruct (visible SILENT_FUEL x i t) as [m|]; [apply (IHl m (n + 1)); [lia|exact Hf]|inversion Hf; lia]. }
    specialize (K _ _ _ _ (Z.le_refl 0) F). lia.
Qed.

Print Assumptions crash_check_sound.

(* ------------------------------------------------------------------ the block check
   Agreement means agreement with a configuration the machine reaches (no invariant is claimed here: a block whose inner
   calls release value files is not a well-behaved body, and the configurations it reaches may hold dangling rows --
   that is what is being compared). *)
Theorem block_check_reaches c s0 setup prog events seen0 final :
  block_check c s0 setup prog events seen0 final = -1 ->
  exists su p sch,
    compile_all c setup = Some su /\ compile_bitems c prog = Some p /\
    let cf := exec (init_config s0 (prog_fun [p] su)) sch in
    finished cf 0 = true /\ outcomes_match (c_done (cl cf 0)) seen0 = true /\ disk_matches_b cf final = true.
Proof.
  unfold block_check. intros H.
  destruct (compile_all c setup) as [su|]; [|discriminate].
  destruct (compile_bitems c prog) as [p|]; [|discriminate].
  set (c0 := init_config s0 (prog_fun [p] su)) in *.
  destruct (negb (finished (solo _ c0 1) 1)); [discriminate|].
  destruct (feed _ 0 events) as [c2|k] eqn:F.
  - destruct (solo_exec (20 * S (length su)) c0 1) as [s1 H1].
    destruct (feed_exec _ _ _ _ F) as [s2 H2].
    destruct (settle_exec SILENT_FUEL c2 0) as [s3 H3].
    destruct (finished (settle SILENT_FUEL c2 0) 0 && outcomes_match _ seen0) eqn:O; [|discriminate].
    destruct (disk_matches_b _ final) eqn:Dm; [|discriminate].
    apply andb_true_iff in O as [O1 O2].
    exists su, p, (s1 ++ s2 ++ s3). split; [reflexivity|]. split; [reflexivity|]. cbv zeta.
    assert (E : exec c0 (s1 ++ s2 ++ s3) = settle SILENT_FUEL c2 0).
    { rewrite <- !exec_app, H1, H2, H3. reflexivity. }
    unfold c0 in E. rewrite E. repeat split; assumption.
  - exfalso. revert H F. generalize (solo (20 * S (length su)) c0 1). intros cc H F.
    assert (K : forall l (x : mconfig) n k, 0 <= n -> feed x n l = inr k -> 0 <= k).
    { induction l as [|[i t] r IHl]; intros x n k0 Hn Hf; cbn [feed] in Hf; [discriminate|].
      destruct (visible SILENT_FUEL x i t) as [m|]; [apply (IHl m (n + 1)); [lia|exact Hf]|inversion Hf; lia]. }
    specialize (K _ _ _ _ (Z.le_refl 0) F). lia.
Qed.
Print Assumptions block_check_reaches.
