(* FanoutCache clause of C14 (lock timeouts fail cleanly): a finite case analysis over the generated delegation
   table (gen/Gen_Fanout.v).  Removing one `except Timeout` in fanout.py, changing the value a handler returns, or
   turning an operator form's retry=True into False changes the generated table and breaks a proof below. *)
From DC Require Import DCPrelude DCPreludeFacts Val DiskBase Gen_Disk Disk FanoutBase Gen_Fanout Fanout FanoutFacts.
Local Open Scope Z_scope.

(* what the documentation of each data method promises when the database times out (retry=False) *)
Definition documented_on_timeout (m : fmeth) : option res :=
  match m with
  | MSet | MTouch | MAdd | MDelete => Some (RBool false)      (* "fails silently": returns False *)
  | MIncr | MDecr => Some RNone                               (* "new value for item on success else None" *)
  | MGet | MPop => Some RDefault                              (* "returns default" *)
  | _ => None
  end.

(* operator forms: the shard method runs with retry=True (it waits instead of raising) or takes no lock at all *)
Definition never_times_out (m : fmeth) : bool :=
  match m with
  | MSetItem => cache_setitem_retry
  | MGetItem => cache_getitem_retry
  | MDelItem => cache_delitem_retry
  | MContains => cache_contains_lock_free
  | _ => false
  end.

(* bridge: the handlers of the generated table *)
Lemma bridge_handlers :
  raised_res deleg_set ETimeout = RBool false /\ raised_res deleg_touch ETimeout = RBool false /\
  raised_res deleg_add ETimeout = RBool false /\ raised_res deleg_delete ETimeout = RBool false /\
  raised_res deleg_incr ETimeout = RNone /\ raised_res deleg_decr ETimeout = RNone /\
  raised_res deleg_get ETimeout = RDefault /\ raised_res deleg_pop ETimeout = RDefault /\
  raised_res deleg_get EOperationalError = RDefault.
Proof. repeat split; reflexivity. Qed.

Lemma bridge_retry_defaults :
  fd_retry deleg_set = Some false /\ fd_retry deleg_touch = Some false /\ fd_retry deleg_add = Some false /\
  fd_retry deleg_incr = Some false /\ fd_retry deleg_decr = Some false /\ fd_retry deleg_get = Some false /\
  fd_retry deleg_pop = Some false /\ fd_retry deleg_delete = Some false /\
  fd_retry deleg_setitem = None /\ fd_retry deleg_getitem = None /\ fd_retry deleg_contains = None /\
  fd_retry deleg_delitem = None /\ read_retry = true.
Proof. repeat split; reflexivity. Qed.

(* For every key-addressed data operation of FanoutCache: if the shard call raises Timeout, the caller gets the
   documented default -- never `Raise Timeout` -- and no shard changes; the operator forms (no handler) call the shard
   with retry=True or lock-free, so their shard call cannot raise Timeout in the first place. *)
Theorem C14_fanout_total :
  forall m d, In (m, d) fanout_table ->
    (exists r, documented_on_timeout m = Some r /\ raised_res d ETimeout = r /\ r <> RRaise ETimeout /\
               forall C ceqb cls hashf n env st, 0 < n -> length st = Z.to_nat n ->
                 fan_keyed C ceqb cls hashf d n env (Raised ETimeout) st = (st, r))
    \/ (documented_on_timeout m = None /\ never_times_out m = true /\ fd_retry d = None /\ fd_catch d = []).
Proof.
  intros m d Hin.
  assert (Hd : deleg_of m = Some d) by (apply bridge_table; exact Hin).
  assert (Hkeyed : forall r, raised_res d ETimeout = r ->
            forall C ceqb cls hashf n env st, 0 < n -> length st = Z.to_nat n ->
              fan_keyed C ceqb cls hashf d n env (Raised ETimeout) st = (st, r)).
  { intros r Hr C ceqb cls hashf n env st Hn Hl. unfold fan_keyed.
    rewrite (bridge_idx m d Hd), Hl. pose proof (Z.mod_pos_bound (hashf (a_key env)) n Hn) as B.
    replace ((hashf (a_key env) mod n <? 0) || (Z.of_nat (Z.to_nat n) <=? hashf (a_key env) mod n)) with false.
    - rewrite Hr. reflexivity.
    - symmetry. apply orb_false_iff. split; [apply Z.ltb_ge|apply Z.leb_gt]; lia. }
  destruct m; cbn [deleg_of] in Hd; inversion Hd; subst d;
    first [ left; eexists; split; [reflexivity|]; split; [reflexivity|]; split; [discriminate|];
            apply Hkeyed; reflexivity
          | right; repeat split; reflexivity ].
Qed.

(* the table lists every key-addressed method (so the case analysis above is over all of them) *)
Lemma table_complete :
  map fst fanout_table = [MSet; MSetItem; MTouch; MAdd; MIncr; MDecr; MGet; MGetItem; MContains; MPop; MDelete; MDelItem].
Proof. reflexivity. Qed.

(* aggregate removals (expire / evict / cull / clear through _remove): a shard whose call times out is called
   again; every partial count reported by a Timeout is added; the loop ends at the first call that completes.
   So the result is a number, never Raise Timeout, and it counts every removed item. *)
Theorem remove_resumes_after_timeout (partials : list Z) (last : Z) :
  remove_attempts (map (fun c => (c, true)) partials ++ [(last, false)]) = (sumZ partials + last, true).
Proof.
  induction partials as [|c l IH]; cbn [map app remove_attempts sumZ].
  - f_equal.
  - destruct bridge_aggregates as (_ & _ & _ & _ & _ & _ & _ & Hres & Hpart & _). rewrite Hres, Hpart, IH. f_equal. lia.
Qed.

(* while every attempt times out the loop is still running (it does not give up and does not raise) *)
Theorem remove_keeps_trying (partials : list Z) :
  snd (remove_attempts (map (fun c => (c, true)) partials)) = false.
Proof.
  induction partials as [|c l IH]; cbn [map remove_attempts]; auto.
  destruct bridge_aggregates as (_ & _ & _ & _ & _ & _ & _ & Hres & _). rewrite Hres.
  destruct (remove_attempts (map (fun c0 => (c0, true)) l)). exact IH.
Qed.

(* transact takes every shard's lock with retry=True (it waits, it cannot raise Timeout) *)
Lemma transact_waits : tx_retry agg_transact_t = true /\ tx_shards agg_transact_t = AllForward.
Proof. split; reflexivity. Qed.

Print Assumptions C14_fanout_total.
Print Assumptions remove_resumes_after_timeout.
