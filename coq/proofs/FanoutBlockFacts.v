(* FanoutCache transaction blocks (model/FanoutBlock.v): findings C06-F6 (a reader between two shard COMMITs) and C07-F2 (a kill
   between two shard COMMITs) as theorems.
   (1) per shard the block IS all-or-nothing, whatever k: every shard shows its state before or after the block -- this is the exact
       shape by which the monitors of C06 / C07 recognise the recorded findings;
   (2) a block that changes at most one shard is all-or-nothing for the whole cache, at every k (so is every block on one shard);
   (3) the full statement is FALSE as soon as two shards change: witness with 2 shards, k = 1;
   (4) which shards are `after` at k: the LAST k shards of the lock order (the order read off FanoutCache.transact is 0, 1, ..., n-1). *)
From DC Require Import DCPrelude FanoutBase Gen_Fanout Fanout FanoutBlock.
From Coq Require Import Lia.
Local Open Scope nat_scope.

Section Facts.
  Variable S : Type.
  Variable eqb : S -> S -> bool.
  Hypothesis eqb_spec : forall a b, eqb a b = true <-> a = b.

  Lemma list_eqb_spec (a b : list S) : list_eqb S eqb a b = true <-> a = b.
  Proof.
    revert b; induction a as [|x a IH]; intros [|y b]; cbn [list_eqb]; split; intros H; try reflexivity; try discriminate.
    - apply andb_true_iff in H as [H1 H2]. apply eqb_spec in H1. apply IH in H2. subst. reflexivity.
    - inversion H; subst. apply andb_true_iff. split; [apply eqb_spec; reflexivity|apply IH; reflexivity].
  Qed.

  (* (1) *)
  Theorem per_shard_all_or_nothing order k (old new : nat -> S) i :
    shard_view S order k old new i = old i \/ shard_view S order k old new i = new i.
  Proof. unfold shard_view. destruct (committed order k i); [right|left]; reflexivity. Qed.

  Lemma view_none n (old new : nat -> S) : cache_view S n 0 old new = all_of S n old.
  Proof. unfold cache_view, all_of, shard_view, committed. cbn [firstn existsb]. reflexivity. Qed.

  Lemma map_ext_seq {B} (f g : nat -> B) a n : (forall i, a <= i < a + n -> f i = g i) -> map f (seq a n) = map g (seq a n).
  Proof.
    revert a; induction n as [|n IH]; intros a H; cbn [seq map]; [reflexivity|].
    f_equal; [apply H; lia|apply IH; intros i Hi; apply H; lia].
  Qed.

  Lemma map_seq_inv {B} (f g : nat -> B) a n : map f (seq a n) = map g (seq a n) -> forall i, a <= i < a + n -> f i = g i.
  Proof.
    revert a; induction n as [|n IH]; intros a H i Hi; [lia|].
    cbn [seq map] in H. inversion H as [[H0 H1]].
    destruct (Nat.eq_dec i a) as [->|Ne]; [exact H0|apply (IH (Datatypes.S a) H1); lia].
  Qed.

  (* a view is the old state iff no CHANGED shard has committed, the new state iff every changed shard has *)
  Lemma view_old_iff n k (old new : nat -> S) :
    cache_view S n k old new = all_of S n old <->
    forall i, i < n -> committed (fan_commit_order n) k i = true -> old i = new i.
  Proof.
    unfold cache_view, all_of. split.
    - intros H i Hi Hc. pose proof (map_seq_inv _ _ 0 n H i ltac:(lia)) as E.
      unfold shard_view in E. rewrite Hc in E. symmetry. exact E.
    - intros H. apply map_ext_seq. intros i Hi. unfold shard_view.
      destruct (committed (fan_commit_order n) k i) eqn:Hc; [symmetry; apply H; [lia|exact Hc]|reflexivity].
  Qed.

  Lemma view_new_iff n k (old new : nat -> S) :
    cache_view S n k old new = all_of S n new <->
    forall i, i < n -> committed (fan_commit_order n) k i = false -> old i = new i.
  Proof.
    unfold cache_view, all_of. split.
    - intros H i Hi Hc. pose proof (map_seq_inv _ _ 0 n H i ltac:(lia)) as E.
      unfold shard_view in E. rewrite Hc in E. exact E.
    - intros H. apply map_ext_seq. intros i Hi. unfold shard_view.
      destruct (committed (fan_commit_order n) k i) eqn:Hc; [reflexivity|apply H; [lia|exact Hc]].
  Qed.

  (* (2) at most one shard changes: all-or-nothing at every k *)
  Theorem one_shard_block_all_or_nothing n k (old new : nat -> S) j :
    (forall i, i < n -> i <> j -> old i = new i) ->
    cache_view S n k old new = all_of S n old \/ cache_view S n k old new = all_of S n new.
  Proof.
    intros H. destruct (committed (fan_commit_order n) k j) eqn:Hc.
    - right. apply view_new_iff. intros i Hi Hci. apply H; [exact Hi|]. intros ->. rewrite Hc in Hci. discriminate.
    - left. apply view_old_iff. intros i Hi Hci. apply H; [exact Hi|]. intros ->. rewrite Hc in Hci. discriminate.
  Qed.

  (* the exact condition: torn iff a changed shard has committed and another changed shard has not *)
  Theorem torn_iff n k (old new : nat -> S) :
    (cache_view S n k old new <> all_of S n old /\ cache_view S n k old new <> all_of S n new) <->
    (exists i, i < n /\ committed (fan_commit_order n) k i = true /\ old i <> new i) /\
    (exists j, j < n /\ committed (fan_commit_order n) k j = false /\ old j <> new j).
  Proof.
    assert (Dec : forall a b : S, {a = b} + {a <> b}).
    { intros a b. destruct (eqb a b) eqn:E; [left; apply eqb_spec; exact E|right; intros ->]. 
      assert (eqb b b = true) by (apply eqb_spec; reflexivity). congruence. }
    split.
    - intros [Ho Hn]. split.
      + (* otherwise every committed shard is unchanged: the view is old *)
        assert (X : ~ (forall i, i < n -> committed (fan_commit_order n) k i = true -> old i = new i)) by (intros A; apply Ho, view_old_iff, A).
        clear Ho Hn. revert X. generalize (committed (fan_commit_order n) k). intros c X.
        induction n as [|m IH]; [exfalso; apply X; intros i Hi; lia|].
        destruct (c m) eqn:Cm; [destruct (Dec (old m) (new m)) as [E|E]|].
        * destruct IH as [i [Hi R]]; [|exists i; split; [lia|exact R]].
          intros A. apply X. intros i Hi Hc. destruct (Nat.eq_dec i m) as [->|Ne]; [exact E|apply A; [lia|exact Hc]].
        * exists m. split; [lia|split; [exact Cm|exact E]].
        * destruct IH as [i [Hi R]]; [|exists i; split; [lia|exact R]].
          intros A. apply X. intros i Hi Hc. destruct (Nat.eq_dec i m) as [->|Ne]; [rewrite Cm in Hc; discriminate|apply A; [lia|exact Hc]].
      + assert (X : ~ (forall i, i < n -> committed (fan_commit_order n) k i = false -> old i = new i)) by (intros A; apply Hn, view_new_iff, A).
        clear Ho Hn. revert X. generalize (committed (fan_commit_order n) k). intros c X.
        induction n as [|m IH]; [exfalso; apply X; intros i Hi; lia|].
        destruct (c m) eqn:Cm; [|destruct (Dec (old m) (new m)) as [E|E]].
        * destruct IH as [i [Hi R]]; [|exists i; split; [lia|exact R]].
          intros A. apply X. intros i Hi Hc. destruct (Nat.eq_dec i m) as [->|Ne]; [rewrite Cm in Hc; discriminate|apply A; [lia|exact Hc]].
        * destruct IH as [i [Hi R]]; [|exists i; split; [lia|exact R]].
          intros A. apply X. intros i Hi Hc. destruct (Nat.eq_dec i m) as [->|Ne]; [exact E|apply A; [lia|exact Hc]].
        * exists m. split; [lia|split; [exact Cm|exact E]].
    - intros [[i [Hi [Ci Ei]]] [j [Hj [Cj Ej]]]]. split; intros H.
      + apply Ei. exact (proj1 (view_old_iff n k old new) H i Hi Ci).
      + apply Ej. exact (proj1 (view_new_iff n k old new) H j Hj Cj).
  Qed.
End Facts.

(* (4) the order: read off the code, the locks are taken on shards 0, 1, ..., n-1; after k COMMITs the LAST k shards are `after` *)
Lemma commit_order_is_reverse n : fan_commit_order n = rev (seq 0 n).
Proof. reflexivity. Qed.

(* (3) witnesses: two shards, the block changes both (shard states are numbers) *)
Definition w_old (i : nat) : Z := 0%Z.
Definition w_new (i : nat) : Z := (Z.of_nat i + 1)%Z.

Lemma fanout_block_torn_between_commits :
  cache_view Z 2 1 w_old w_new = [0; 2]%Z /\                                    (* shard 1 after, shard 0 before *)
  all_or_nothing Z Z.eqb 2 1 w_old w_new = false /\
  all_or_nothing Z Z.eqb 2 0 w_old w_new = true /\ all_or_nothing Z Z.eqb 2 2 w_old w_new = true /\
  forallb (fun n => forallb (fun k => let v := cache_view Z n k w_old w_new in
                                      list_eqb Z Z.eqb v (repeat 0%Z (n - k) ++ skipn (n - k) (all_of Z n w_new)))
                            (seq 0 (S n))) (seq 1 8) = true.
Proof. vm_compute. repeat split; reflexivity. Qed.

Print Assumptions torn_iff.
Print Assumptions one_shard_block_all_or_nothing.
