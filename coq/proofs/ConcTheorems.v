(* Consequences of the machine invariant: atomic commits, isolation, kill-safety, clean timeouts.
   Every statement is for any number of clients, any programs with well-behaved bodies, any schedule
   with kills.  "reachable" = exec from an initial configuration. *)
From DC Require Import DCPrelude Conc ConcFacts.

Section Theorems.
  Variables (D R : Type).
  Variable refs : D -> list Z.
  Variable Dinv : D -> Prop.

  Notation config := (config D R).
  Notation Inv := (@ConcFacts.Inv D R refs Dinv).
  Notation in_txn := (@ConcFacts.in_txn D R).

  Theorem inv_exec (c : config) s : Inv c -> Inv (exec c s).
  Proof.
    revert c. induction s as [|e s IH]; intros c H; cbn; [exact H|]. apply IH.
    destruct e as [i|i]; cbn.
    - destruct (cstep c i) as [c'|] eqn:E; [eapply inv_step; eauto | exact H].
    - apply inv_crash, H.
  Qed.

  Definition reachable (d : D) (progs : nat -> list (op D R)) (c : config) : Prop :=
    exists s, c = exec (init_config d progs) s.

  Lemma reachable_inv d progs c :
    Dinv d -> refs d = [] -> (forall i, Forall (@op_ok D R refs Dinv) (progs i)) -> reachable d progs c -> Inv c.
  Proof. intros Hd Hr Hp [s ->]. apply inv_exec, inv_init; assumption. Qed.

  (* C05: every committed row refers to a completely written file *)
  Theorem ref_inv c : Inv c -> forall g, In g (refs (db c)) -> files c g = FDone.
  Proof. intros H. apply (@i_ref D R refs Dinv c H). Qed.

  (* C05: a lookup never reads a partially written file: when it opens the file of the row it selected
     the file is complete (hit) or gone (the value was replaced or removed meanwhile: the lookup looks the row
     up again, see lookup_looks_again) *)
  Theorem no_partial_read c i r mo f h m :
    Inv c -> c_pc (cl c i) = ReadOpen r mo f h m -> files c f = FDone \/ files c f = FNone.
  Proof.
    intros H E. pose proof (@i_read D R refs Dinv c H i) as Rd. rewrite E in Rd. cbn in Rd.
    destruct Rd as [_ [_ [N _]]]. destruct (files c f); auto. contradiction.
  Qed.

  (* C05 / C12: a lookup (of the repaired kind, r_again = true) whose file is gone never reports a miss at that
     point: it looks the row up again.  The exit "the same file is missing twice" is never taken in a reachable
     configuration (file names are not reused: the file that was missing is not the file of a committed row any
     more); it is there for a value file that was lost behind the cache's back, which no schedule of the machine
     produces. *)
  Theorem lookup_looks_again c i r mo f h m :
    Inv c -> c_pc (cl c i) = ReadOpen r mo f h m -> r_again r = true -> files c f <> FDone ->
    exists c', cstep c i = Some c' /\ c_pc (cl c' i) = ReadAgain r f /\ db c' = db c /\ lock c' = lock c /\
               c_done (cl c' i) = c_done (cl c i).
  Proof.
    intros H E Ra Nf. pose proof (@i_read D R refs Dinv c H i) as Rd. rewrite E in Rd. cbn in Rd.
    destruct Rd as [_ [_ [_ [Sf _]]]]. unfold cstep. rewrite E, Ra, Sf.
    destruct (files c f); try contradiction; (eexists; split; [reflexivity|]; cbn; rewrite upd_cl_same; cbn; auto).
  Qed.

  (* ... whereas the reader the code had before (r_again = false) reported the miss *)
  Theorem old_lookup_reports_missing_file (c : config) i r mo f h m :
    c_pc (cl c i) = ReadOpen r mo f h m -> r_again r = false -> files c f <> FDone ->
    exists c', cstep c i = Some c' /\ c_pc (cl c' i) = Idle /\ c_done (cl c' i) = c_done (cl c i) ++ [ORes m].
  Proof.
    intros E Ra Nf. unfold cstep. rewrite E, Ra.
    destruct (files c f); try contradiction; (eexists; split; [reflexivity|]; cbn; rewrite upd_cl_same; cbn; auto).
  Qed.

  (* the steps of a lookup *)
  Definition reading (c : config) (i : nat) (r : rop D R) : Prop :=
    (c_pc (cl c i) = Idle /\ exists rest, c_todo (cl c i) = ORead r :: rest) \/
    (exists mo f h m, c_pc (cl c i) = ReadOpen r mo f h m) \/ (exists g, c_pc (cl c i) = ReadAgain r g).

  (* C05 / C12: every answer of a repaired lookup is justified at the step that produces it: it is what a SELECT on
     the CURRENT committed state yields (a miss only when that state has no row for the key), or the value of a
     complete file named by the row the lookup selected.  The lookup therefore never answers from a state the
     database was never in. *)
  Theorem lookup_answer_justified c i r c' o :
    Inv c -> reading c i r -> r_again r = true -> cstep c i = Some c' -> c_done (cl c' i) = c_done (cl c i) ++ [o] ->
    (exists res, o = ORes res /\ (r_select r (db c) = SelMiss res \/ r_select r (db c) = SelHit res)) \/
    (exists mo f h m, c_pc (cl c i) = ReadOpen r mo f h m /\ files c f = FDone /\ o = ORes h).
  Proof.
    intros H Rd Ra S Dn.
    assert (Nil : forall l : list (outcome R), l <> l ++ [o]).
    { intros l X. apply (f_equal (@length _)) in X. rewrite app_length in X. cbn in X. lia. }
    assert (One : forall (l : list (outcome R)) a, l ++ [a] = l ++ [o] -> a = o).
    { intros l a X. apply app_inv_head in X. inversion X. reflexivity. }
    destruct Rd as [[E [rest Et]]|[[mo [f [h [m E]]]]|[g E]]]; unfold cstep in S; rewrite E in S.
    - rewrite Et in S. inversion S; subst c'; clear S. unfold after_select in Dn. left.
      destruct (r_select r (db c)) as [res|res|f h m]; cbn in Dn; rewrite upd_cl_same in Dn; cbn in Dn.
      + exists res. split; [symmetry; eapply One; exact Dn|auto].
      + exists res. split; [symmetry; eapply One; exact Dn|auto].
      + exfalso. eapply Nil; exact Dn.
    - destruct (files c f) eqn:Ff.
      + exfalso. destruct (lookup_looks_again c i r mo f h m H E Ra) as [c2 [S2 [_ [_ [_ D2]]]]]; [rewrite Ff; discriminate|].
        unfold cstep in S2. rewrite E, Ff in S2. rewrite S2 in S. inversion S; subst c'. rewrite D2 in Dn. eapply Nil; exact Dn.
      + exfalso. destruct (no_partial_read c i r mo f h m H E) as [X|X]; rewrite Ff in X; discriminate.
      + inversion S; subst c'; clear S. cbn in Dn. rewrite upd_cl_same in Dn. cbn in Dn.
        right. exists mo, f, h, m. repeat split; auto. symmetry. eapply One; exact Dn.
    - inversion S; subst c'; clear S. unfold after_select in Dn. left.
      destruct (r_select r (db c)) as [res|res|f h m]; cbn in Dn; rewrite upd_cl_same in Dn; cbn in Dn.
      + exists res. split; [symmetry; eapply One; exact Dn|auto].
      + exists res. split; [symmetry; eapply One; exact Dn|auto].
      + exfalso. eapply Nil; exact Dn.
  Qed.

  (* C05: a COMMIT installs exactly the body applied to the CURRENT committed state (nothing happened to
     the database between this transaction's BEGIN and its COMMIT): writers are serial *)
  Theorem commit_is_atomic c i w f o :
    Inv c -> c_pc (cl c i) = AtCommit w f o -> bo_ok o = true ->
    exists c', cstep c i = Some c' /\ db c' = bo_db (w_body w (db c) f) /\ lock c' = None.
  Proof.
    intros H E Ok. assert (T : in_txn (c_pc (cl c i)) = true) by (rewrite E; reflexivity).
    destruct (@txn_holder D R refs Dinv c i H T) as [wk L]. destruct (@i_lock_some D R refs Dinv c H i wk L) as [_ [_ Hm]].
    rewrite E in Hm. destruct Hm as [_ Ho]. unfold cstep. rewrite E, Ok. eexists. split; [reflexivity|].
    cbn. rewrite <- Ho. auto.
  Qed.

  (* C06: only the holder of the write lock can change the committed state, and only by its COMMIT *)
  Theorem db_changes_only_by_commit c i c' :
    Inv c -> cstep c i = Some c' -> db c' <> db c ->
    exists w f o, c_pc (cl c i) = AtCommit w f o /\ bo_ok o = true /\ holds c i = true.
  Proof.
    intros H S N. unfold cstep in S. destruct (c_pc (cl c i)) as [|w f|w f|w f|w f o l|w f o|l fe res|f r|f res|f|r mo f hh m|r mo|] eqn:E;
      try discriminate.
    - destruct (c_todo (cl c i)) as [|[w|r] rest]; [discriminate| |].
      + destruct (w_store w); inversion S; subst; contradiction.
      + inversion S; subst. unfold after_select in N. destruct (r_select r (db c)); contradiction.
    - inversion S; subst; contradiction.
    - destruct (lock c) as [[j wk]|]; [destruct (w_retry w)|]; inversion S; subst; contradiction.
    - destruct (lock c) as [[j wk]|]; inversion S; subst; contradiction.
    - destruct l; inversion S; subst; contradiction.
    - assert (T : in_txn (c_pc (cl c i)) = true) by (rewrite E; reflexivity).
      destruct (@txn_holder D R refs Dinv c i H T) as [wk L].
      destruct (bo_ok o) eqn:Ok; inversion S; subst; [|contradiction].
      exists w, f, o. repeat split; auto. unfold holds. rewrite L. apply Nat.eqb_refl.
    - destruct l; [destruct fe|]; inversion S; subst; contradiction.
    - inversion S; subst; contradiction.
    - inversion S; subst; contradiction.
    - destruct f; inversion S; subst; contradiction.
    - destruct (files c f); [destruct (r_again r && negb (same_file mo f))|destruct (r_again r && negb (same_file mo f))|];
        inversion S; subst; contradiction.
    - inversion S; subst. unfold after_select in N. destruct (r_select r (db c)); contradiction.
  Qed.

  (* C06: a transaction that rolls back leaves the committed state exactly as it was *)
  Theorem rollback_restores (c : config) i w f o :
    c_pc (cl c i) = AtCommit w f o -> bo_ok o = false ->
    exists c', cstep c i = Some c' /\ db c' = db c /\ lock c' = None /\ commits c' = commits c.
  Proof. intros E Ok. unfold cstep. rewrite E, Ok. eexists. repeat split. Qed.

  (* C06 / C05: while client j holds the lock no other client can be inside a transaction *)
  Theorem lock_excludes c j wk i :
    Inv c -> lock c = Some (j, wk) -> i <> j -> in_txn (c_pc (cl c i)) = false.
  Proof. intros H L N. destruct (@i_lock_some D R refs Dinv c H j wk L) as [_ [Ho _]]. auto. Qed.

  (* C07: a kill preserves every invariant, releases the victim's lock, and leaves the database as it
     was (the interrupted call contributes nothing unless it had already committed) *)
  Theorem kill_safe c i :
    Inv c -> Inv (crash c i) /\ db (crash c i) = db c /\ files (crash c i) = files c /\
             (forall wk, lock (crash c i) <> Some (i, wk)).
  Proof.
    intros H. split; [apply inv_crash, H|]. repeat split. intros wk. cbn. unfold holds.
    destruct (lock c) as [[j wk']|] eqn:L; [|discriminate].
    destruct (Nat.eqb j i) eqn:E; [discriminate|]. intros X. inversion X; subst. rewrite Nat.eqb_refl in E. discriminate.
  Qed.

  (* C07: after any schedule with kills, whoever asks for the lock while it is free gets it at once *)
  Theorem free_lock_is_granted (c : config) i w f :
    lock c = None -> c_pc (cl c i) = AtBegin w f ->
    exists c', cstep c i = Some c' /\ c_pc (cl c' i) = InTxn w f /\ lock c' = Some (i, db c).
  Proof.
    intros L E. unfold cstep. rewrite E, L. eexists. split; [reflexivity|]. cbn. rewrite upd_cl_same. auto.
  Qed.

  (* C14: the lock is busy and the call does not retry: it gives up, removes the value file it had
     written, reports Timeout, and leaves database and files as they were before the call *)
  Theorem timeout_no_effect c i w g j wk :
    Inv c -> c_pc (cl c i) = AtBegin w (Some g) -> w_retry w = false -> lock c = Some (j, wk) ->
    exists c1 c2, cstep c i = Some c1 /\ cstep c1 i = Some c2 /\
      db c2 = db c /\ lock c2 = lock c /\ files c2 g = FNone /\ (forall g', g' <> g -> files c2 g' = files c g') /\
      c_pc (cl c2 i) = Idle /\ c_done (cl c2 i) = c_done (cl c i) ++ [OTimeout R].
  Proof.
    intros H E Rt L. unfold cstep at 1. rewrite E, L, Rt.
    eexists. eexists. split; [reflexivity|]. unfold cstep. cbn. rewrite upd_cl_same. cbn.
    split; [reflexivity|]. cbn. rewrite upd_cl_same. unfold upd_file at 1. cbn. rewrite Z.eqb_refl. repeat split; auto.
    intros g' N. unfold upd_file. cbn. destruct (g' =? g) eqn:X; [apply Z.eqb_eq in X; contradiction|reflexivity].
  Qed.

  Theorem timeout_no_file_no_effect (c : config) i w j wk :
    c_pc (cl c i) = AtBegin w None -> w_retry w = false -> lock c = Some (j, wk) ->
    exists c1 c2, cstep c i = Some c1 /\ cstep c1 i = Some c2 /\
      db c2 = db c /\ lock c2 = lock c /\ files c2 = files c /\
      c_pc (cl c2 i) = Idle /\ c_done (cl c2 i) = c_done (cl c i) ++ [OTimeout R].
  Proof.
    intros E Rt L. unfold cstep at 1. rewrite E, L, Rt.
    eexists. eexists. split; [reflexivity|]. unfold cstep. cbn. rewrite upd_cl_same. cbn.
    split; [reflexivity|]. cbn. rewrite upd_cl_same. cbn. repeat split; auto.
  Qed.

  (* C14: with retry the call takes no effect while the lock is busy ... *)
  Theorem retry_waits (c : config) i w f j wk :
    c_pc (cl c i) = AtBegin w f -> w_retry w = true -> lock c = Some (j, wk) -> cstep c i = Some c.
  Proof. intros E Rt L. unfold cstep. rewrite E, L, Rt. reflexivity. Qed.

  Theorem others_wait_or_time_out (c : config) i w f j wk :
    c_pc (cl c i) = AtBegin w f -> lock c = Some (j, wk) ->
    (w_retry w = true -> cstep c i = Some c) /\
    (w_retry w = false -> exists c', cstep c i = Some c' /\ db c' = db c /\ lock c' = lock c /\ c_pc (cl c' i) = TimeoutRm f).
  Proof.
    intros E L. split; intros Rt.
    - eapply retry_waits; eauto.
    - unfold cstep. rewrite E, L, Rt. eexists. split; [reflexivity|]. cbn. rewrite upd_cl_same. auto.
  Qed.

  (* C14: lookups that need no write are never blocked: a lock-free read is enabled in every
     configuration and answers from the committed state, whoever holds the lock *)
  Theorem reads_unblocked (c : config) i r rest :
    c_pc (cl c i) = Idle -> c_todo (cl c i) = ORead r :: rest -> exists c', cstep c i = Some c' /\ db c' = db c /\ lock c' = lock c.
  Proof.
    intros E Et. unfold cstep. rewrite E, Et. unfold after_select. destruct (r_select r (db c)); eexists; repeat split.
  Qed.
End Theorems.

Arguments reachable {D R}.
Arguments reading {D R}.
